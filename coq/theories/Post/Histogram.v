(* Histogram.v — executable model of
     tangelo/toolboxes/post_processing/histogram.py       (class Histogram, aggregate_histograms, filter_hist)
     tangelo/toolboxes/post_processing/post_selection.py  (post_select, strip_post_selection,
                                                           split_frequency_dict, split_frequency_dict_for_last_n_digits)
     tangelo/linq/target/backend.py                       (get_expectation_value_from_frequencies_oneterm)
   Definitions only; the lemmas are in HistogramProofs.v.

   A Python dict {bitstring: value} is an association list in insertion order (Python dicts keep
   insertion order); the model functions are faithful on lists whose keys are pairwise distinct,
   which is what a dict is.  Values are exact rationals (Qc): integer shot counts and probabilities
   alike.  Bitstrings over '0'/'1' are lists of booleans, position i = character i.  Qubit indices
   offered by the caller are integers (Z): Python accepts negative and out-of-range ones in some
   places and the model follows the code there.  Python exceptions are [Err e]. *)
From Coq Require Import String Ascii ZArith QArith Qcanon Qround List Bool.
From Tangelo Require Import Num.Show.
Import ListNotations.
Local Open Scope Qc_scope.

Inductive err : Type := ValueError | IndexError | KeyError | ZeroDivisionError | StopIteration.
Inductive res (X : Type) : Type := Ok (x : X) | Err (e : err).
Arguments Ok {_}. Arguments Err {_}.
Definition bind {X Y} (r : res X) (f : X -> res Y) : res Y :=
  match r with Ok x => f x | Err e => Err e end.
Notation "'do' x <- r ; k" := (bind r (fun x => k)) (at level 200, x name, r at level 100, k at level 200).

(* ---------------------------------------------------------------- keys and dictionaries *)
Definition key := list bool.
Fixpoint key_eqb (a b : key) : bool :=
  match a, b with
  | [], [] => true
  | x :: a', y :: b' => Bool.eqb x y && key_eqb a' b'
  | _, _ => false
  end.

Definition hist := list (key * Qc).

(* d.get(k, 0) *)
Fixpoint hget (h : hist) (k : key) : Qc :=
  match h with
  | [] => 0
  | (k', c) :: r => if key_eqb k k' then c else hget r k
  end.
Fixpoint hmem (h : hist) (k : key) : bool :=
  match h with
  | [] => false
  | (k', _) :: r => key_eqb k k' || hmem r k
  end.
(* d[k] = d.get(k, 0) + c : an existing key keeps its position, a new key goes to the end *)
Fixpoint hadd (k : key) (c : Qc) (h : hist) : hist :=
  match h with
  | [] => [(k, c)]
  | (k', c') :: r => if key_eqb k k' then (k', c' + c) :: r else (k', c') :: hadd k c r
  end.
(* new = {}; for k, c in h.items(): new[f(k)] = new.get(f(k), 0) + c *)
Definition hmap (f : key -> key) (h : hist) : hist :=
  fold_left (fun acc kc => hadd (f (fst kc)) (snd kc) acc) h [].

(* sum of w(key) * value over the entries; [total] is sum(d.values()) *)
Fixpoint hsum (w : key -> Qc) (h : hist) : Qc :=
  match h with
  | [] => 0
  | (k, c) :: r => w k * c + hsum w r
  end.
Definition total (h : hist) : Qc := hsum (fun _ => 1) h.
(* the value carried by the keys that satisfy p *)
Definition mass (p : key -> bool) (h : hist) : Qc := hsum (fun k => if p k then 1 else 0) h.
Definition keys (h : hist) : list key := map fst h.
Definition uniform (n : nat) (h : hist) : Prop := Forall (fun kc => length (fst kc) = n) h.
Definition nonneg (h : hist) : Prop := Forall (fun kc => 0 <= snd kc) h.

(* ---------------------------------------------------------------- numbers *)
Definition Z2Qc (z : Z) : Qc := Q2Qc (inject_Z z).
Definition half : Qc := Q2Qc (1 # 2).
Definition Qc_pos (x : Qc) : bool := match Qccompare x 0 with Gt => true | _ => false end.
Definition Qc_gtb (x y : Qc) : bool := match Qccompare x y with Gt => true | _ => false end.
Definition Qc_abs (x : Qc) : Qc := match Qccompare x 0 with Lt => - x | _ => x end.
Definition Qc_is0 (x : Qc) : bool := Qc_eq_bool x 0.
(* Python round(x) for an exact number: nearest integer, ties to the even one *)
Definition round_half_even (x : Qc) : Z :=
  let f := Qfloor (this x) in
  match Qccompare (x - Z2Qc f) half with
  | Lt => f
  | Gt => (f + 1)%Z
  | Eq => if Z.even f then f else (f + 1)%Z
  end.

(* ---------------------------------------------------------------- class Histogram *)
Definition lengths_consistent (h : hist) : bool :=
  match h with
  | [] => true
  | (k0, _) :: r => forallb (fun kc => Nat.eqb (length (fst kc)) (length k0)) r
  end.

(* ---- conversion of probabilities to counts for n_shots > 0: two variants.
   RoundPerKey      (the code before fix 944f963)  {k: round(v*n_shots)}
   LargestRemainder (the repaired code)
       scaled   = {k: v*n_shots}
       outcomes = {k: int(s // 1)}                                   floors
       n_missing = round(sum(scaled.values())) - sum(outcomes.values())
       for k in sorted(scaled, key=lambda k: (outcomes[k] - scaled[k], k))[:n_missing]: outcomes[k] += 1 *)
Inductive conv_rule : Type := RoundPerKey | LargestRemainder.

Definition to_counts (n : Z) (o : hist) : hist :=
  map (fun kc => (fst kc, Z2Qc (round_half_even (snd kc * Z2Qc n)))) o.

Definition scaled (n : Z) (o : hist) : hist := map (fun kc => (fst kc, snd kc * Z2Qc n)) o.
Definition floors (sc : hist) : list (key * Z) := map (fun kc => (fst kc, Qfloor (this (snd kc)))) sc.
Definition zsum_snd (l : list (key * Z)) : Z := fold_right (fun kf s => (snd kf + s)%Z) 0%Z l.

Fixpoint key_ltb (a b : key) : bool :=            (* Python's < on strings over '0' < '1' *)
  match a, b with
  | [], [] => false
  | [], _ :: _ => true
  | _ :: _, [] => false
  | x :: a', y :: b' => if Bool.eqb x y then key_ltb a' b' else negb x
  end.
Definition key_leb (a b : key) : bool := negb (key_ltb b a).
(* tuple comparison (floor - scaled, key) <= (floor' - scaled', key') *)
Definition ord_le (a b : Qc * key) : bool :=
  match Qccompare (fst a) (fst b) with Lt => true | Gt => false | Eq => key_leb (snd a) (snd b) end.
Fixpoint ord_insert (x : Qc * key) (l : list (Qc * key)) : list (Qc * key) :=
  match l with
  | [] => [x]
  | y :: r => if ord_le x y then x :: l else y :: ord_insert x r
  end.
Definition ord_sort (l : list (Qc * key)) : list (Qc * key) := fold_right ord_insert [] l.   (* stable *)
(* l[:m] *)
Definition py_take {X} (m : Z) (l : list X) : list X :=
  if (m <? 0)%Z then firstn (Z.to_nat (Z.of_nat (length l) + m)) l else firstn (Z.to_nat m) l.
Definition kmem (k : key) (l : list key) : bool := existsb (key_eqb k) l.

Definition apportion_order (sc : hist) : list key :=
  map snd (ord_sort (map (fun kc => (Z2Qc (Qfloor (this (snd kc))) - snd kc, fst kc)) sc)).
Definition n_missing (sc : hist) : Z := (round_half_even (total sc) - zsum_snd (floors sc))%Z.
Definition apportion (n : Z) (o : hist) : hist :=
  let sc := scaled n o in
  let chosen := py_take (n_missing sc) (apportion_order sc) in
  map (fun kf => (fst kf, Z2Qc (snd kf + (if kmem (fst kf) chosen then 1 else 0)))) (floors sc).

Definition convert (r : conv_rule) (n : Z) (o : hist) : hist :=
  match r with RoundPerKey => to_counts n o | LargestRemainder => apportion n o end.

(* Histogram(outcomes, n_shots, msq_first, epsilon).counts *)
Definition mk_histogram_with (r : conv_rule) (outcomes : hist) (n_shots : Z) (msq_first : bool) (eps : Qc) : res hist :=
  if negb (lengths_consistent outcomes) then Err ValueError
  else
    do counts <-
      (if (0 <? n_shots)%Z then
         if Qc_gtb (Qc_abs (total outcomes - 1)) eps then Err ValueError
         else Ok (convert r n_shots outcomes)
       else if (n_shots <? 0)%Z then Err ValueError
       else Ok outcomes);
    Ok (if msq_first then map (fun kc => (rev (fst kc), snd kc)) counts else counts).
Definition mk_histogram := mk_histogram_with LargestRemainder.        (* the current code *)
Definition mk_histogram_asis := mk_histogram_with RoundPerKey.        (* before the repair *)

Definition n_shots_of (h : hist) : Qc := total h.
Definition n_qubits_of (h : hist) : res nat :=
  match h with [] => Err StopIteration | (k, _) :: _ => Ok (length k) end.
(* {k: c / self.n_shots}: the division is only evaluated when there is an entry *)
Definition frequencies (h : hist) : res hist :=
  match h with
  | [] => Ok []
  | _ => if Qc_is0 (total h) then Err ZeroDivisionError
         else Ok (map (fun kc => (fst kc, snd kc / total h)) h)
  end.

Fixpoint zmem (z : Z) (l : list Z) : bool :=
  match l with [] => false | y :: r => Z.eqb z y || zmem z r end.
(* "".join(b[i] for i in range(len(b)) if i not in indices) *)
Fixpoint remove_key_from (i : nat) (R : list Z) (k : key) : key :=
  match k with
  | [] => []
  | b :: r => if zmem (Z.of_nat i) R then remove_key_from (S i) R r else b :: remove_key_from (S i) R r
  end.
Definition remove_key (R : list Z) (k : key) : key := remove_key_from 0 R k.
Definition remove_qubit_indices (R : list Z) (h : hist) : hist := hmap (remove_key R) h.

(* bitstring[q] with Python's index rules *)
Definition py_index (k : key) (q : Z) : res bool :=
  let n := Z.of_nat (length k) in
  if ((0 <=? q) && (q <? n))%Z then Ok (nth (Z.to_nat q) k false)
  else if ((q <? 0) && (0 <=? n + q))%Z then Ok (nth (Z.to_nat (n + q)) k false)
  else Err IndexError.

Definition filter_hist (p : key -> bool) (h : hist) : hist := filter (fun kc => p (fst kc)) h.
Fixpoint filterM (p : key -> res bool) (h : hist) : res hist :=
  match h with
  | [] => Ok []
  | kc :: r => do b <- p (fst kc); do r' <- filterM p r; Ok (if b then kc :: r' else r')
  end.

Definition outcomes := list (Z * bool).         (* expected_outcomes: {qubit index: "0" | "1"} *)
Fixpoint f_post_select (exp : outcomes) (k : key) : res bool :=
  match exp with
  | [] => Ok true
  | (q, b) :: r => do x <- py_index k q; if Bool.eqb x b then f_post_select r k else Ok false
  end.
(* Histogram.post_select (in place): filter, then remove the selected indices *)
Definition hist_post_select (exp : outcomes) (h : hist) : res hist :=
  do sel <- filterM (f_post_select exp) h;
  Ok (remove_qubit_indices (map fst exp) sel).

(* Counter + Counter (collections): sums per key, entries that are not > 0 are dropped; the keys
   of the left operand come first *)
Definition counter_add (a b : hist) : hist :=
  filter (fun kc => Qc_pos (snd kc)) (fold_left (fun acc kc => hadd (fst kc) (snd kc) acc) b a).

Definition all_same (l : list nat) : bool :=
  match l with
  | [] => true
  | x :: r => forallb (Nat.eqb x) r
  end.
Fixpoint mapM {X Y} (f : X -> res Y) (l : list X) : res (list Y) :=
  match l with
  | [] => Ok []
  | x :: r => do y <- f x; do ys <- mapM f r; Ok (y :: ys)
  end.
Definition aggregate_histograms (hs : list hist) : res hist :=
  match hs with
  | [] => Err ValueError
  | [h] => Ok h
  | _ => do ls <- mapM n_qubits_of hs;
         if negb (all_same ls) then Err ValueError
         else Ok (fold_left counter_add hs [])
  end.
Definition hist_plus (a b : hist) : res hist := aggregate_histograms [a; b].

(* ---------------------------------------------------------------- expectation of a Z-type term *)
Fixpoint nmem (n : nat) (l : list nat) : bool :=
  match l with [] => false | y :: r => Nat.eqb n y || nmem n r end.
(* ((bitarray(mask) & bitarray(k)).count("1") % 2, mask[i] = "1" iff i is a qubit of the term;
   i is the position of the head of k *)
Fixpoint par_from (i : nat) (t : list nat) (k : key) : bool :=
  match k with
  | [] => false
  | b :: r => xorb (nmem i t && b) (par_from (S i) t r)
  end.
Definition sgn (b : bool) : Qc := if b then - (1) else 1.
Definition expect (t : list nat) (f : hist) : Qc := hsum (fun k => sgn (par_from 0 t k)) f.
(* get_expectation_value_from_frequencies_oneterm(term, frequencies); t = qubit indices of the term.
   (For an empty dictionary the code *returns* a ValueError object; rendered as Err ValueError.) *)
Definition oneterm (t : list nat) (f : hist) : res Qc :=
  match f with
  | [] => Err ValueError
  | (k0, _) :: _ =>
      let n := length k0 in
      if existsb (fun q => Nat.leb n q) t then Err IndexError
      else if negb (forallb (fun kc => Nat.eqb (length (fst kc)) n) f) then Err ValueError
      else Ok (expect t f)
  end.
(* Histogram.get_expectation_value(term, coeff) *)
Definition hist_expectation (t : list nat) (coeff : Qc) (h : hist) : res Qc :=
  do f <- frequencies h; do e <- oneterm t f; Ok (coeff * e).

(* ---------------------------------------------------------------- post_selection.py *)
Definition post_select_fn (freqs : hist) (exp : outcomes) (eps : Qc) : res hist :=
  do h <- mk_histogram freqs 0 false eps;
  do h' <- hist_post_select exp h;
  frequencies h'.
Definition strip_post_selection (freqs : hist) (R : list Z) (eps : Qc) : res hist :=
  do h <- mk_histogram freqs 0 false eps;
  frequencies (remove_qubit_indices R h).

(* {i: m for i, m in zip(indices, desired)}: a repeated index keeps its first position, last value *)
Fixpoint dset (q : Z) (b : bool) (d : outcomes) : outcomes :=
  match d with
  | [] => [(q, b)]
  | (q', b') :: r => if Z.eqb q q' then (q', b) :: r else (q', b') :: dset q b r
  end.
Definition dict_of_zip (idx : list Z) (bits : list bool) : outcomes :=
  fold_left (fun d qb => dset (fst qb) (snd qb) d) (combine idx bits) [].

Definition split_frequency_dict (freqs : hist) (indices : list Z) (desired : option (list bool)) (eps : Qc)
  : res (hist * hist) :=
  do n <- n_qubits_of freqs;
  let other := filter (fun i => negb (zmem i indices)) (map Z.of_nat (seq 0 n)) in
  do mid <- strip_post_selection freqs other eps;
  do marg <- match desired with
             | None => strip_post_selection freqs indices eps
             | Some d => post_select_fn freqs (dict_of_zip indices d) eps
             end;
  Ok (mid, marg).

(* s[:i], s[i:] for i = len(s) - n with Python's slice clamping *)
Definition slice_point (len : nat) (n : Z) : nat :=
  let i := (Z.of_nat len - n)%Z in
  let j := if (i <? 0)%Z then Z.max 0 (i + Z.of_nat len) else Z.min i (Z.of_nat len) in
  Z.to_nat j.
Definition split_last_n (freqs : hist) (n : Z) : hist * hist :=
  (hmap (fun k => firstn (slice_point (length k) n) k) freqs,
   hmap (fun k => skipn (slice_point (length k) n) k) freqs).

(* ---------------------------------------------------------------- printing (correspondence harness) *)
Definition show_key (k : key) : string :=
  fold_right (fun (b : bool) s => String (if b then "1"%char else "0"%char) s) EmptyString k.
Fixpoint insert_sorted (kc : key * Qc) (l : hist) : hist :=
  match l with
  | [] => [kc]
  | kc' :: r => if key_ltb (fst kc) (fst kc') then kc :: l else kc' :: insert_sorted kc r
  end.
Definition sort_hist (h : hist) : hist := fold_right insert_sorted [] h.
Local Open Scope string_scope.
Definition show_hist (h : hist) : string :=
  "{" ++ join "," (map (fun kc => show_key (fst kc) ++ ":" ++ show_Qc (snd kc)) (sort_hist h)) ++ "}".
Definition show_err (e : err) : string :=
  match e with
  | ValueError => "ValueError" | IndexError => "IndexError" | KeyError => "KeyError"
  | ZeroDivisionError => "ZeroDivisionError" | StopIteration => "StopIteration"
  end.
Definition show_res {X} (f : X -> string) (r : res X) : string :=
  match r with Ok x => f x | Err e => "Err:" ++ show_err e end.
Definition show_pair (p : hist * hist) : string := show_hist (fst p) ++ "|" ++ show_hist (snd p).
(* constructors for generated case files *)
Definition K (s : string) : key :=
  (fix go (s : string) : key :=
     match s with EmptyString => [] | String c r => (if Ascii.eqb c "1"%char then true else false) :: go r end) s.
Definition Qf (n : Z) (d : positive) : Qc := Q2Qc (n # d).
