(* Grouping.v — executable model of tangelo/toolboxes/measurements/qubit_terms_grouping.py
   (check_bases_commute_qwc, map_measurements_qwc, exp_value_from_measurement_bases) and the checker
   [is_qwc_partition] that validates, per instance, the output of group_qwc (a wrapper around
   openfermion's clique-cover heuristic, which is not modelled).
   A Pauli term / a measurement basis is the openfermion tuple ((q0,'X'),(q1,'Z'),...) as a list;
   a qubit operator is its dictionary term -> coefficient as an association list, coefficients are
   Gaussian rationals (re, im).  Definitions only; lemmas in GroupingProofs.v. *)
From Coq Require Import String Ascii ZArith QArith Qcanon List Bool.
From Tangelo Require Import Num.Show Post.Histogram.
Import ListNotations.
Local Open Scope Qc_scope.

Inductive pauli : Type := PX | PY | PZ.
Definition pauli_eqb (a b : pauli) : bool :=
  match a, b with PX, PX | PY, PY | PZ, PZ => true | _, _ => false end.
Definition term := list (nat * pauli).
Definition coef := (Qc * Qc)%type.
Definition qop := list (term * coef).
Definition grouping := list (term * qop).           (* measurement basis -> sub-operator *)

Fixpoint term_eqb (a b : term) : bool :=
  match a, b with
  | [], [] => true
  | (q, s) :: a', (q', s') :: b' => Nat.eqb q q' && pauli_eqb s s' && term_eqb a' b'
  | _, _ => false
  end.
Definition coef_eqb (a b : coef) : bool := Qc_eq_bool (fst a) (fst b) && Qc_eq_bool (snd a) (snd b).
Definition tc_eqb (a b : term * coef) : bool := term_eqb (fst a) (fst b) && coef_eqb (snd a) (snd b).

Fixpoint lookup (b : term) (q : nat) : option pauli :=
  match b with
  | [] => None
  | (q', s) :: r => if Nat.eqb q q' then Some s else lookup r q
  end.
(* the axis along which qubit q is measured by the circuit of basis b: a qubit the basis does not
   mention gets no rotation, i.e. is measured along Z *)
Definition eff (b : term) (q : nat) : pauli := match lookup b q with Some s => s | None => PZ end.
Definition supp (t : term) : list nat := map fst t.

(* openfermion's canonical form of a term: qubit indices strictly increasing *)
Fixpoint incr_from (lo : nat) (t : term) : bool :=
  match t with
  | [] => true
  | (q, _) :: r => Nat.leb lo q && incr_from (S q) r
  end.
Definition term_wf (t : term) : bool := incr_from 0 t.

(* check_bases_commute_qwc(b1, b2): equal letters on the qubits both mention *)
Definition check_bases_commute_qwc (b1 b2 : term) : bool :=
  forallb (fun qs => match lookup b2 (fst qs) with Some s' => pauli_eqb (snd qs) s' | None => true end) b1.
(* the term is diagonal in the basis: every letter of the term is the axis measured on that qubit *)
Definition diag_in (t b : term) : bool := forallb (fun qs => pauli_eqb (eff b (fst qs)) (snd qs)) t.
(* the stricter relation openfermion's grouping provides: every factor of the term is in the basis *)
Definition sub_term (t b : term) : bool :=
  forallb (fun qs => match lookup b (fst qs) with Some s' => pauli_eqb (snd qs) s' | None => false end) t.

(* map_measurements_qwc(qwc_group_map) *)
Fixpoint mm_append (m : list (term * list term)) (b1 : term) (bs : list term) : list (term * list term) :=
  match m with
  | [] => [(b1, bs)]
  | (k, v) :: r => if term_eqb b1 k then (k, (v ++ bs)%list) :: r else (k, v) :: mm_append r b1 bs
  end.
Definition map_measurements_qwc (g : grouping) : list (term * list term) :=
  let meas_bases := map fst g in
  let op_bases := concat (map (fun bo => map fst (snd bo)) g) in
  fold_left (fun m b1 =>
               match b1 with
               | [] => m
               | _ => match filter (check_bases_commute_qwc b1) meas_bases with
                      | [] => m
                      | bs => mm_append m b1 bs
                      end
               end) op_bases [].

(* ---- the partition checker *)
Fixpoint remove_first (x : term * coef) (l : qop) : option qop :=
  match l with
  | [] => None
  | y :: r => if tc_eqb x y then Some r
              else match remove_first x r with Some r' => Some (y :: r') | None => None end
  end.
Fixpoint same_multiset (a b : qop) : bool :=
  match a with
  | [] => match b with [] => true | _ => false end
  | x :: a' => match remove_first x b with Some b' => same_multiset a' b' | None => false end
  end.
Fixpoint terms_distinct (l : list term) : bool :=
  match l with
  | [] => true
  | t :: r => negb (existsb (term_eqb t) r) && terms_distinct r
  end.
Definition all_terms (g : grouping) : qop := concat (map snd g).
(* each term of H exactly once with its coefficient; each term diagonal in its group's basis *)
Definition is_qwc_partition (H : qop) (g : grouping) : bool :=
  forallb (fun tc => term_wf (fst tc)) H
  && forallb (fun bo => term_wf (fst bo)) g
  && terms_distinct (map fst H)
  && terms_distinct (map fst g)
  && same_multiset (all_terms g) H
  && forallb (fun bo => forallb (fun tc => diag_in (fst tc) (fst bo)) (snd bo)) g.

(* ---- exp_value_from_measurement_bases(sub_ops, histograms) *)
Definition cadd (a b : coef) : coef := (fst a + fst b, snd a + snd b).
Definition cscale (e : Qc) (c : coef) : coef := (e * fst c, e * snd c).
Definition czero : coef := (0, 0).
Fixpoint glookup (g : grouping) (b : term) : option qop :=
  match g with
  | [] => None
  | (b', ops) :: r => if term_eqb b b' then Some ops else glookup r b
  end.
(* the inner loop over sub_ops[basis].terms.items() with one frequency dictionary *)
Fixpoint sum_terms (ops : qop) (f : hist) (acc : coef) : res coef :=
  match ops with
  | [] => Ok acc
  | (t, c) :: r => do e <- oneterm (supp t) f; sum_terms r f (cadd acc (cscale e c))
  end.
Fixpoint exp_value_loop (sub_ops : grouping) (hists : list (term * hist)) (acc : coef) : res coef :=
  match hists with
  | [] => Ok acc
  | (b, f) :: r => match glookup sub_ops b with
                   | None => Err KeyError
                   | Some ops => do acc' <- sum_terms ops f acc; exp_value_loop sub_ops r acc'
                   end
  end.
Definition exp_value_from_measurement_bases (sub_ops : grouping) (hists : list (term * hist)) : res coef :=
  exp_value_loop sub_ops hists czero.

(* the term-by-term value: every term measured in its own basis *)
Definition termwise (H : qop) (hist_of : term -> hist) : coef :=
  fold_right (fun tc acc => cadd (cscale (expect (supp (fst tc)) (hist_of (fst tc))) (snd tc)) acc) czero H.

(* ---- printing *)
Local Open Scope string_scope.
Definition show_pauli (p : pauli) : string := match p with PX => "X" | PY => "Y" | PZ => "Z" end.
Definition show_term (t : term) : string :=
  "(" ++ join " " (map (fun qs => show_pauli (snd qs) ++ show_nat (fst qs)) t) ++ ")".
Definition show_coef (c : coef) : string := show_Qc (fst c) ++ "+" ++ show_Qc (snd c) ++ "j".
Definition show_mm (m : list (term * list term)) : string :=
  join ";" (map (fun kv => show_term (fst kv) ++ "->" ++ join "" (map show_term (snd kv))) m).
