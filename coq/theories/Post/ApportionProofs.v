(* ApportionProofs.v — the conversion of probabilities to counts of the repaired Histogram.__init__
   (largest remainders, [apportion] in Histogram.v): the total is round(n_shots * sum p) exactly, every
   count is within 1 of p*n_shots, nothing changes when every p*n_shots is an integer. *)
From Coq Require Import String ZArith QArith Qcanon Qround List Bool Lia Lqa Permutation.
From Tangelo Require Import Post.Histogram Post.HistogramProofs.
Import ListNotations.
Local Open Scope Qc_scope.

(* ---------------------------------------------------------------- integers inside Qc *)
Lemma Z2Qc_plus : forall a b, Z2Qc (a + b) = Z2Qc a + Z2Qc b.
Proof. intros. apply Qc_is_canon. rewrite this_plus, !this_Z2Qc, inject_Z_plus. reflexivity. Qed.
Lemma Z2Qc_0 : Z2Qc 0 = 0. Proof. apply Qc_is_canon. reflexivity. Qed.
Lemma Z2Qc_1 : Z2Qc 1 = 1. Proof. apply Qc_is_canon. reflexivity. Qed.

Lemma total_cons : forall k c (r : hist), total ((k, c) :: r) = c + total r.
Proof. intros. unfold total. simpl. ring. Qed.

Lemma total_of_Z : forall (g : key * Z -> Z) (l : list (key * Z)),
  total (map (fun kf => (fst kf, Z2Qc (g kf))) l) = Z2Qc (fold_right (fun kf s => (g kf + s)%Z) 0%Z l).
Proof.
  induction l as [|kf l IH]; simpl; [unfold total; simpl; symmetry; apply Z2Qc_0|].
  rewrite total_cons, IH, Z2Qc_plus. reflexivity.
Qed.

Lemma total_scaled : forall n o, total (scaled n o) = total o * Z2Qc n.
Proof.
  induction o as [|[k c] o IH]; [unfold total; simpl; ring|].
  unfold scaled. cbn [map fst snd]. fold (scaled n o). rewrite !total_cons, IH. ring.
Qed.

Lemma count_len : forall (h : hist), count h = Z2Qc (Z.of_nat (length h)).
Proof.
  induction h as [|kc h IH]; [symmetry; apply Z2Qc_0|]. cbn [count length]. rewrite Nat2Z.inj_succ.
  unfold Z.succ. rewrite Z2Qc_plus, Z2Qc_1, IH. ring.
Qed.

(* ---------------------------------------------------------------- floors and the missing shots *)
Lemma floors_bounds : forall sc : hist,
  Z2Qc (zsum_snd (floors sc)) <= total sc /\ total sc <= Z2Qc (zsum_snd (floors sc)) + count sc.
Proof.
  induction sc as [|[k c] sc IH].
  - unfold total. simpl. rewrite Z2Qc_0. replace (0 + 0) with 0 by ring. split; apply Qcle_refl.
  - destruct IH as [IL IU]. destruct (floor_bounds c) as [FL FU]. apply Qclt_le_weak in FU.
    cbn [floors map zsum_snd fold_right fst snd count]. fold (floors sc). fold (zsum_snd (floors sc)).
    rewrite total_cons, Z2Qc_plus. split.
    + apply Qcplus_le_compat; assumption.
    + replace (Z2Qc (Qfloor (this c)) + Z2Qc (zsum_snd (floors sc)) + (1 + count sc))
        with ((Z2Qc (Qfloor (this c)) + 1) + (Z2Qc (zsum_snd (floors sc)) + count sc)) by ring.
      apply Qcplus_le_compat; assumption.
Qed.

Lemma n_missing_bounds : forall sc : hist, (0 <= n_missing sc <= Z.of_nat (length sc))%Z.
Proof.
  intros sc. unfold n_missing. destruct (floors_bounds sc) as [L U]. rewrite count_len in U.
  destruct (round_half_even_bound (total sc)) as [RL RU].
  set (x := total sc) in *. set (z := zsum_snd (floors sc)) in *. set (r := round_half_even x) in *.
  set (len := Z.of_nat (length sc)) in *.
  unfold Qcle in *. rewrite ?this_plus, ?this_minus, ?this_Z2Qc, ?this_half in *.
  split.
  - destruct (Z.le_gt_cases z r) as [H|H]; [lia|]. exfalso.
    assert (H1 : (r + 1 <= z)%Z) by lia. rewrite Zle_Qle, inject_Z_plus in H1. change (inject_Z 1) with 1%Q in H1. lra.
  - destruct (Z.le_gt_cases r (z + len)) as [H|H]; [lia|]. exfalso.
    assert (H1 : (z + len + 1 <= r)%Z) by lia. rewrite Zle_Qle, !inject_Z_plus in H1. change (inject_Z 1) with 1%Q in H1. lra.
Qed.

(* ---------------------------------------------------------------- the order is a permutation of the keys *)
Lemma ord_insert_perm : forall x l, Permutation (ord_insert x l) (x :: l).
Proof.
  induction l as [|y l IH]; simpl; [apply Permutation_refl|].
  destruct (ord_le x y); [apply Permutation_refl|].
  apply perm_trans with (y :: x :: l); [apply perm_skip; exact IH|apply perm_swap].
Qed.

Lemma ord_sort_perm : forall l, Permutation (ord_sort l) l.
Proof.
  induction l as [|x l IH]; simpl; [apply perm_nil|].
  apply perm_trans with (x :: ord_sort l); [apply ord_insert_perm|apply perm_skip; exact IH].
Qed.

Lemma apportion_order_perm : forall sc, Permutation (apportion_order sc) (keys sc).
Proof.
  intros sc. unfold apportion_order, keys.
  apply perm_trans with (map snd (map (fun kc : key * Qc => (Z2Qc (Qfloor (this (snd kc))) - snd kc, fst kc)) sc)).
  - apply Permutation_map. apply ord_sort_perm.
  - rewrite map_map. simpl. apply Permutation_refl.
Qed.

(* ---------------------------------------------------------------- counting the bumped keys *)
Definition zsumf (f : key -> Z) (l : list key) : Z := fold_right (fun k s => (f k + s)%Z) 0%Z l.

Lemma zsumf_perm : forall f l l', Permutation l l' -> zsumf f l = zsumf f l'.
Proof. intros f l l' P. induction P; simpl; lia. Qed.

Lemma zsumf_ext : forall f g l, (forall k, In k l -> f k = g k) -> zsumf f l = zsumf g l.
Proof.
  induction l as [|x l IH]; intros H; simpl; [reflexivity|].
  rewrite (H x) by (left; reflexivity). rewrite IH; [reflexivity|]. intros k Hk. apply H. right. exact Hk.
Qed.

Lemma kmem_In : forall k l, kmem k l = true <-> In k l.
Proof.
  intros k l. unfold kmem. rewrite existsb_exists. split.
  - intros [y [Hy E]]. apply key_eqb_eq in E. subst. exact Hy.
  - intros H. exists k. split; [exact H|apply key_eqb_refl].
Qed.

Lemma bump_count : forall l m, NoDup l ->
  zsumf (fun k => if kmem k (firstn m l) then 1 else 0)%Z l = Z.of_nat (length (firstn m l)).
Proof.
  induction l as [|x l IH]; intros m Hnd; [destruct m; reflexivity|].
  destruct m as [|m].
  - simpl firstn. simpl length. rewrite (zsumf_ext _ (fun _ => 0%Z)) by (intros; reflexivity).
    clear. induction (x :: l) as [|y r IHr]; simpl; [reflexivity|]. rewrite IHr. reflexivity.
  - inversion Hnd as [|y r Hx Hr]; subst. cbn [firstn length zsumf fold_right].
    assert (Ex : kmem x (x :: firstn m l) = true) by (apply kmem_In; left; reflexivity). rewrite Ex.
    fold (zsumf (fun k => if kmem k (x :: firstn m l) then 1%Z else 0%Z) l).
    rewrite (zsumf_ext _ (fun k => if kmem k (firstn m l) then 1 else 0)%Z).
    + rewrite (IH m Hr). lia.
    + intros k Hk. unfold kmem. simpl. destruct (key_eqb k x) eqn:E; [|reflexivity].
      apply key_eqb_eq in E. subst k. contradiction.
Qed.

Lemma bumped_sum : forall (ind : key -> Z) (fl : list (key * Z)),
  fold_right (fun kf s => (snd kf + ind (fst kf) + s)%Z) 0%Z fl = (zsum_snd fl + zsumf ind (map fst fl))%Z.
Proof. induction fl as [|kf fl IH]; simpl; [reflexivity|]. rewrite IH. lia. Qed.

Lemma keys_floors : forall sc, map fst (floors sc) = keys sc.
Proof. intros. unfold floors, keys. rewrite map_map. reflexivity. Qed.

Lemma keys_scaled : forall n o, keys (scaled n o) = keys o.
Proof. intros. unfold scaled, keys. rewrite map_map. reflexivity. Qed.

(* ---------------------------------------------------------------- the theorems *)
Theorem apportion_total : forall n o, NoDup (keys o) ->
  total (apportion n o) = Z2Qc (round_half_even (total o * Z2Qc n)).
Proof.
  intros n o Hnd. unfold apportion. set (sc := scaled n o).
  destruct (n_missing_bounds sc) as [M0 M1].
  unfold py_take. replace (n_missing sc <? 0)%Z with false by (symmetry; apply Z.ltb_ge; exact M0).
  set (chosen := firstn (Z.to_nat (n_missing sc)) (apportion_order sc)).
  rewrite (total_of_Z (fun kf => (snd kf + (if kmem (fst kf) chosen then 1 else 0))%Z) (floors sc)).
  rewrite (bumped_sum (fun k => if kmem k chosen then 1 else 0)%Z). rewrite keys_floors.
  pose proof (apportion_order_perm sc) as P.
  rewrite <- (zsumf_perm _ _ _ P). unfold chosen. rewrite bump_count.
  - rewrite firstn_length, (Permutation_length P). unfold keys. rewrite map_length.
    rewrite Nat.min_l by lia. rewrite Z2Nat.id by exact M0. unfold n_missing.
    replace (zsum_snd (floors sc) + (round_half_even (total sc) - zsum_snd (floors sc)))%Z with (round_half_even (total sc)) by lia.
    unfold sc. rewrite total_scaled. reflexivity.
  - apply (Permutation_NoDup (Permutation_sym P)). unfold sc. rewrite keys_scaled. exact Hnd.
Qed.

(* same keys in the same order; every count is the floor or the floor plus one: within 1 of p*n_shots *)
Theorem apportion_within_one : forall n o,
  Forall2 (fun kv kc => fst kc = fst kv /\ snd kv * Z2Qc n - 1 < snd kc /\ snd kc <= snd kv * Z2Qc n + 1) o (apportion n o).
Proof.
  intros n o. unfold apportion. generalize (py_take (n_missing (scaled n o)) (apportion_order (scaled n o))) as chosen.
  intros chosen. induction o as [|[k v] o IH]; [constructor|].
  unfold scaled, floors. cbn [map fst snd]. constructor; [|exact IH].
  cbn [fst snd]. split; [reflexivity|]. destruct (floor_bounds (v * Z2Qc n)) as [FL FU].
  set (x := v * Z2Qc n) in *. set (f := Qfloor (this x)) in *.
  destruct (kmem k chosen).
  - rewrite Z2Qc_plus, Z2Qc_1. unfold Qcle, Qclt in *. rewrite ?this_plus, ?this_minus, ?this_Z2Qc in *.
    change (this 1) with 1%Q in *. split; lra.
  - rewrite Z.add_0_r. unfold Qcle, Qclt in *. rewrite ?this_plus, ?this_minus, ?this_Z2Qc in *.
    change (this 1) with 1%Q in *. split; lra.
Qed.

Lemma zsum_snd_exact : forall sc : hist, Forall (fun kc => exists z, snd kc = Z2Qc z) sc ->
  total sc = Z2Qc (zsum_snd (floors sc)) /\ map (fun kf => (fst kf, Z2Qc (snd kf))) (floors sc) = sc.
Proof.
  induction sc as [|[k c] sc IH]; intros Hi.
  - unfold total. simpl. rewrite Z2Qc_0. split; reflexivity.
  - pose proof (Forall_inv Hi) as [z Hz]. pose proof (Forall_inv_tail Hi) as Ht. simpl in Hz. subst c.
    destruct (IH Ht) as [E1 E2]. cbn [floors map zsum_snd fold_right fst snd]. fold (floors sc). fold (zsum_snd (floors sc)).
    assert (F : Qfloor (this (Z2Qc z)) = z) by (rewrite (Qfloor_comp _ _ (this_Z2Qc z)); apply Qfloor_Z).
    rewrite F, total_cons, Z2Qc_plus, E1. split; [reflexivity|]. rewrite E2. reflexivity.
Qed.

(* frequencies that are multiples of 1/n_shots are converted exactly: counts = p*n_shots *)
Theorem apportion_exact : forall n o, integral_at n o -> apportion n o = scaled n o.
Proof.
  intros n o Hi. unfold apportion. set (sc := scaled n o).
  assert (Hs : Forall (fun kc => exists z, snd kc = Z2Qc z) sc).
  { unfold sc, scaled. rewrite Forall_map. exact Hi. }
  destruct (zsum_snd_exact sc Hs) as [E1 E2].
  assert (M : n_missing sc = 0%Z).
  { unfold n_missing. rewrite E1, round_half_even_Z. lia. }
  rewrite M. unfold py_take. simpl. rewrite <- E2 at 2. apply map_ext. intros kf. rewrite Z.add_0_r. reflexivity.
Qed.

Lemma convert_exact : forall r n o, integral_at n o -> convert r n o = scaled n o.
Proof. intros [|] n o Hi; simpl; [apply to_counts_exact|apply apportion_exact]; exact Hi. Qed.

(* ---------------------------------------------------------------- Histogram(probabilities, n_shots) *)
Lemma rev_keys_nodup_total : forall (msq : bool) h, total (if msq then rev_keys h else h) = total h.
Proof. exact total_msq. Qed.

Theorem histogram_total_full : forall o n msq eps h, (0 < n)%Z -> NoDup (keys o) ->
  mk_histogram o n msq eps = Ok h -> total h = Z2Qc (round_half_even (total o * Z2Qc n)).
Proof.
  intros o n msq eps h Hn Hnd H. rewrite (mk_histogram_shots LargestRemainder o n msq eps h Hn H), total_msq.
  apply apportion_total. exact Hnd.
Qed.

(* for normalised probabilities the histogram holds exactly n_shots shots *)
Theorem histogram_total_is_n_shots : forall o n msq eps h, (0 < n)%Z -> NoDup (keys o) -> total o = 1 ->
  mk_histogram o n msq eps = Ok h -> total h = Z2Qc n.
Proof.
  intros o n msq eps h Hn Hnd H1 H. rewrite (histogram_total_full o n msq eps h Hn Hnd H), H1.
  replace (1 * Z2Qc n) with (Z2Qc n) by ring. rewrite round_half_even_Z. reflexivity.
Qed.

Theorem histogram_within_one : forall o n eps h, (0 < n)%Z -> mk_histogram o n false eps = Ok h ->
  Forall2 (fun kv kc => fst kc = fst kv /\ snd kv * Z2Qc n - 1 < snd kc /\ snd kc <= snd kv * Z2Qc n + 1) o h.
Proof.
  intros o n eps h Hn H. rewrite (mk_histogram_shots LargestRemainder o n false eps h Hn H). apply apportion_within_one.
Qed.

Theorem histogram_exact_when_integral : forall r o n msq eps h, (0 < n)%Z -> integral_at n o ->
  mk_histogram_with r o n msq eps = Ok h -> h = (if msq then rev_keys (scaled n o) else scaled n o) /\ total h = total o * Z2Qc n.
Proof.
  intros r o n msq eps h Hn Hi H. rewrite (mk_histogram_shots r o n msq eps h Hn H), (convert_exact r n o Hi).
  split; [reflexivity|]. rewrite total_msq. apply total_scaled.
Qed.

(* the deterministic part of Histogram.resample / of re-reading one's own frequencies:
   Histogram(h.frequencies, n_shots = h.n_shots) is h again when the counts are integers *)
Definition integer_counts (h : hist) : Prop := Forall (fun kc => exists z, snd kc = Z2Qc z) h.

Lemma Z2Qc_nonzero : forall n, (0 < n)%Z -> Z2Qc n <> 0.
Proof.
  intros n Hn E. assert (Q : (this (Z2Qc n) == this 0)%Q) by (rewrite E; reflexivity).
  rewrite this_Z2Qc in Q. change (this 0) with (inject_Z 0) in Q. assert (n = 0%Z) by (apply inject_Z_injective; exact Q). lia.
Qed.

Theorem frequencies_roundtrip : forall r h n eps, (0 < n)%Z -> integer_counts h -> total h = Z2Qc n ->
  lengths_consistent h = true -> Qc_gtb 0 eps = false ->
  exists f, frequencies h = Ok f /\ mk_histogram_with r f n false eps = Ok h.
Proof.
  intros r h n eps Hn Hi Ht Hl He. pose proof (Z2Qc_nonzero n Hn) as Hnz.
  destruct h as [|kc0 h0] eqn:Eh.
  - unfold total in Ht. simpl in Ht. symmetry in Ht. contradiction.
  - rewrite <- Eh in *. assert (Hne : h <> []) by (rewrite Eh; discriminate).
    assert (Hf : frequencies h = Ok (map (fun kc => (fst kc, snd kc / total h)) h)).
    { rewrite Eh. unfold frequencies. rewrite <- Eh.
      destruct (Qc_is0 (total h)) eqn:E0; [|reflexivity].
      unfold Qc_is0 in E0. apply Qc_eq_bool_correct in E0. rewrite Ht in E0. contradiction. }
    eexists. split; [exact Hf|]. set (f := map (fun kc => (fst kc, snd kc / total h)) h).
    assert (Hlf : lengths_consistent f = true).
    { unfold f. rewrite Eh in *. destruct kc0 as [k0 c0]. simpl in *. rewrite forallb_forall in *. intros x Hx.
      apply in_map_iff in Hx. destruct Hx as [y [Hy1 Hy2]]. subst x. simpl. apply Hl. exact Hy2. }
    assert (Htf : total f = 1) by (apply (frequencies_normalised h f Hf Hne)).
    unfold mk_histogram_with. rewrite Hlf. simpl negb. cbv iota. apply Z.ltb_lt in Hn. rewrite Hn.
    rewrite Htf. replace (1 - 1) with 0 by ring. rewrite Qc_abs_0, He. simpl. f_equal.
    rewrite convert_exact.
    + unfold f, scaled. rewrite map_map. simpl. rewrite Ht. clear -Hnz. induction h as [|[k c] h IH]; simpl; [reflexivity|].
      rewrite IH. f_equal. f_equal. field. exact Hnz.
    + unfold integral_at, f. rewrite Forall_map. simpl. unfold integer_counts in Hi. rewrite Forall_forall in *.
      intros kc Hkc. destruct (Hi kc Hkc) as [z Hz]. exists z. rewrite Ht, Hz. field. exact Hnz.
Qed.
