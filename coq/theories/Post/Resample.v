(* Resample.v — model of the chunk loop of
     tangelo/toolboxes/post_processing/bootstrapping.py : get_resampled_frequencies
       n_chunks = ncount // chunk_size
       for i in range(n_chunks+1):
           this_chunk = ncount % chunk_size if i == n_chunks else chunk_size
           samples = distr.rvs(size=this_chunk) ; freqs_shots += Counter(samples)
   [chunk_sizes ncount chunk_size] is the list of the sizes requested from the sampler, in order.
   The random draw itself is outside the model; what the loop must guarantee is that the sizes add
   up to ncount (then the Counter holds ncount samples and v / ncount sums to 1).  Definitions only;
   the lemma is in ResampleProofs.v. *)
From Coq Require Import ZArith List.
Import ListNotations.

Definition chunk_sizes (ncount chunk_size : Z) : list Z :=
  let n_chunks := Z.to_nat (ncount / chunk_size) in
  map (fun i => if Nat.eqb i n_chunks then (ncount mod chunk_size)%Z else chunk_size) (seq 0 (S n_chunks)).

Definition zsum (l : list Z) : Z := fold_right Z.add 0%Z l.
