(* HistogramProofs.v — lemmas about the model in Histogram.v (all by induction over the entry list /
   the bitstring; no bound on the number of entries, the key length or the values). *)
From Coq Require Import String ZArith QArith Qcanon Qround List Bool Lia Lqa.
From Tangelo Require Import Post.Histogram.
Import ListNotations.
Local Open Scope Qc_scope.

(* ---------------------------------------------------------------- keys *)
Lemma key_eqb_refl : forall a, key_eqb a a = true.
Proof. induction a as [|x a IH]; simpl; [reflexivity|]. rewrite eqb_reflx. exact IH. Qed.

Lemma key_eqb_eq : forall a b, key_eqb a b = true -> a = b.
Proof.
  induction a as [|x a IH]; destruct b as [|y b]; simpl; intro H; try discriminate; [reflexivity|].
  apply andb_true_iff in H. destruct H as [H1 H2]. apply eqb_prop in H1. subst y. f_equal. apply IH. exact H2.
Qed.

(* ---------------------------------------------------------------- weighted sums *)
Lemma hsum_app : forall w a b, hsum w (a ++ b) = hsum w a + hsum w b.
Proof. induction a as [|[k c] a IH]; intros; simpl; [ring|]. rewrite IH. ring. Qed.

Lemma hsum_ext : forall w w' h, (forall k, In k (keys h) -> w k = w' k) -> hsum w h = hsum w' h.
Proof.
  induction h as [|[k c] h IH]; intros Hw; simpl; [reflexivity|].
  rewrite (Hw k) by (left; reflexivity). rewrite IH; [reflexivity|]. intros k' Hk. apply Hw. right. exact Hk.
Qed.

Lemma hsum_scale : forall a w h, hsum (fun k => a * w k) h = a * hsum w h.
Proof. induction h as [|[k c] h IH]; simpl; [ring|]. rewrite IH. ring. Qed.

Lemma hsum_plus : forall w1 w2 h, hsum (fun k => w1 k + w2 k) h = hsum w1 h + hsum w2 h.
Proof. induction h as [|[k c] h IH]; simpl; [ring|]. rewrite IH. ring. Qed.

Lemma hsum_hadd : forall w k c h, hsum w (hadd k c h) = hsum w h + w k * c.
Proof.
  induction h as [|[k' c'] h IH]; simpl; [ring|].
  destruct (key_eqb k k') eqn:E.
  - apply key_eqb_eq in E. subst k'. simpl. ring.
  - simpl. rewrite IH. ring.
Qed.

Lemma hsum_accumulate : forall w (f : key -> key) h acc,
  hsum w (fold_left (fun acc kc => hadd (f (fst kc)) (snd kc) acc) h acc) = hsum w acc + hsum (fun k => w (f k)) h.
Proof.
  induction h as [|[k c] h IH]; intros acc; simpl; [ring|].
  rewrite IH. rewrite hsum_hadd. simpl. ring.
Qed.

(* the master lemma: relabelling the keys by f and merging equal labels transports every weighted sum *)
Lemma hsum_hmap : forall w f h, hsum w (hmap f h) = hsum (fun k => w (f k)) h.
Proof. intros. unfold hmap. rewrite hsum_accumulate. simpl. ring. Qed.

Lemma total_hmap : forall f h, total (hmap f h) = total h.
Proof. intros. unfold total. apply hsum_hmap. Qed.

Lemma mass_hmap : forall p f h, mass p (hmap f h) = mass (fun k => p (f k)) h.
Proof. intros. unfold mass. apply hsum_hmap. Qed.

(* keys of a relabelled dictionary are pairwise distinct, as in a Python dict *)
Lemma hmem_hadd : forall k c h k', hmem (hadd k c h) k' = key_eqb k' k || hmem h k'.
Proof.
  induction h as [|[k0 c0] h IH]; intros k'; simpl.
  - rewrite orb_false_r. reflexivity.
  - destruct (key_eqb k k0) eqn:E; simpl.
    + apply key_eqb_eq in E. subst k0. destruct (key_eqb k' k); reflexivity.
    + rewrite IH. destruct (key_eqb k' k0), (key_eqb k' k); reflexivity.
Qed.

Fixpoint distinct_keys (h : hist) : Prop :=
  match h with [] => True | (k, _) :: r => hmem r k = false /\ distinct_keys r end.

Lemma distinct_hadd : forall k c h, distinct_keys h -> distinct_keys (hadd k c h).
Proof.
  induction h as [|[k0 c0] h IH]; intros D; simpl.
  - split; [reflexivity|exact I].
  - destruct D as [D1 D2]. destruct (key_eqb k k0) eqn:E; simpl.
    + split; assumption.
    + split; [|apply IH; exact D2]. rewrite hmem_hadd. rewrite D1.
      destruct (key_eqb k0 k) eqn:E'; [|reflexivity].
      apply key_eqb_eq in E'. subst k0. rewrite key_eqb_refl in E. discriminate.
Qed.

Lemma distinct_accumulate : forall (f : key -> key) h acc, distinct_keys acc ->
  distinct_keys (fold_left (fun acc kc => hadd (f (fst kc)) (snd kc) acc) h acc).
Proof. induction h as [|[k c] h IH]; intros acc D; simpl; [exact D|]. apply IH. apply distinct_hadd. exact D. Qed.

Lemma distinct_hmap : forall f h, distinct_keys (hmap f h).
Proof. intros. unfold hmap. apply distinct_accumulate. exact I. Qed.

(* in a dictionary with distinct keys the value at k is the mass of the singleton {k} *)
Lemma hget_mass : forall h k, distinct_keys h -> hget h k = mass (fun k' => key_eqb k k') h.
Proof.
  induction h as [|[k0 c0] h IH]; intros k D; simpl; [reflexivity|].
  destruct D as [D1 D2]. unfold mass in *. simpl. destruct (key_eqb k k0) eqn:E.
  - apply key_eqb_eq in E. subst k0.
    assert (Hz : hsum (fun k' => if key_eqb k k' then 1 else 0) h = 0).
    { clear IH D2. induction h as [|[k1 c1] h IH]; simpl; [reflexivity|].
      simpl in D1. apply orb_false_iff in D1. destruct D1 as [D1 D1']. rewrite D1. rewrite IH by exact D1'. ring. }
    rewrite Hz. ring.
  - rewrite <- IH by exact D2. ring.
Qed.

(* ---------------------------------------------------------------- remove_qubit_indices *)
Theorem remove_indices_hsum : forall w R h,
  hsum w (remove_qubit_indices R h) = hsum (fun k => w (remove_key R k)) h.
Proof. intros. apply hsum_hmap. Qed.

Theorem remove_indices_conserves : forall R h, total (remove_qubit_indices R h) = total h.
Proof. intros. apply total_hmap. Qed.

Theorem remove_indices_is_marginal : forall R h k',
  hget (remove_qubit_indices R h) k' = mass (fun k => key_eqb k' (remove_key R k)) h.
Proof. intros. rewrite hget_mass by apply distinct_hmap. apply mass_hmap. Qed.

Lemma remove_key_from_length : forall R k k' i, length k = length k' ->
  length (remove_key_from i R k) = length (remove_key_from i R k').
Proof.
  induction k as [|b k IH]; destruct k' as [|b' k']; intros i H; simpl in *; try discriminate; [reflexivity|].
  injection H as H. destruct (zmem (Z.of_nat i) R); simpl; rewrite (IH k' (S i) H); reflexivity.
Qed.

(* ---------------------------------------------------------------- filter / post-selection *)
Lemma hsum_filter : forall w p h,
  hsum w (filter_hist p h) = hsum (fun k => if p k then w k else 0) h.
Proof.
  induction h as [|[k c] h IH]; simpl; [reflexivity|].
  destruct (p k); simpl; rewrite IH; ring.
Qed.

Definition selected (exp : outcomes) (k : key) : bool :=
  match f_post_select exp k with Ok true => true | _ => false end.

Lemma filterM_ok : forall p h h', filterM p h = Ok h' ->
  h' = filter_hist (fun k => match p k with Ok true => true | _ => false end) h.
Proof.
  induction h as [|[k c] h IH]; intros h' H; simpl in *.
  - injection H as H. subst. reflexivity.
  - destruct (p k) as [b|e] eqn:Ep; simpl in H; [|discriminate].
    destruct (filterM p h) as [r|e] eqn:Er; simpl in H; [|discriminate].
    injection H as H. subst h'. rewrite (IH r eq_refl). destruct b; reflexivity.
Qed.

Theorem post_select_hsum : forall exp h h' w, hist_post_select exp h = Ok h' ->
  hsum w h' = hsum (fun k => if selected exp k then w (remove_key (map fst exp) k) else 0) h.
Proof.
  intros exp h h' w H. unfold hist_post_select in H.
  destruct (filterM (f_post_select exp) h) as [sel|e] eqn:E; simpl in H; [|discriminate].
  injection H as H. subst h'. rewrite remove_indices_hsum. apply filterM_ok in E. subst sel.
  rewrite hsum_filter. reflexivity.
Qed.

(* the shots that survive are exactly the shots whose bits match the expected outcomes *)
Theorem post_select_total : forall exp h h', hist_post_select exp h = Ok h' -> total h' = mass (selected exp) h.
Proof. intros exp h h' H. unfold total. rewrite (post_select_hsum exp h h' _ H). reflexivity. Qed.

(* ---------------------------------------------------------------- frequencies *)
Lemma hsum_map_div : forall w n h, hsum w (map (fun kc => (fst kc, snd kc / n)) h) = hsum w h / n.
Proof.
  induction h as [|[k c] h IH]; simpl.
  - unfold Qcdiv. ring.
  - rewrite IH. unfold Qcdiv. ring.
Qed.

Lemma Qc_is0_false : forall x, Qc_is0 x = false -> x <> 0.
Proof.
  intros x H E. subst x. unfold Qc_is0 in H. 
  assert (Qc_eq_bool 0 0 = true) by (unfold Qc_eq_bool; destruct (Qc_eq_dec 0 0); [reflexivity|congruence]).
  congruence.
Qed.

Theorem frequencies_hsum : forall h f w, frequencies h = Ok f -> hsum w f = hsum w h / total h.
Proof.
  intros h f w H. destruct h as [|kc h]; simpl in H.
  - injection H as H. subst f. simpl. unfold Qcdiv. ring.
  - destruct (Qc_is0 (total (kc :: h))) eqn:E; [discriminate|]. injection H as H. subst f.
    apply (hsum_map_div w (total (kc :: h)) (kc :: h)).
Qed.

Theorem frequencies_normalised : forall h f, frequencies h = Ok f -> h <> [] -> total f = 1.
Proof.
  intros h f H Hne. unfold total at 1. rewrite (frequencies_hsum h f _ H).
  destruct h as [|kc h]; [congruence|]. simpl in H.
  destruct (Qc_is0 (total (kc :: h))) eqn:E; [discriminate|]. apply Qc_is0_false in E.
  fold (total (kc :: h)). unfold Qcdiv. apply Qcmult_inv_r. exact E.
Qed.

Lemma frequencies_nil_iff : forall h f, frequencies h = Ok f -> (f = [] <-> h = []).
Proof.
  intros h f H. destruct h as [|kc h]; simpl in H.
  - injection H as H. subst. tauto.
  - destruct (Qc_is0 (total (kc :: h))); [discriminate|]. injection H as H. subst f. simpl. split; discriminate.
Qed.

(* ---------------------------------------------------------------- bit-order reversal (msq_first) *)
Definition rev_keys (h : hist) : hist := map (fun kc => (rev (fst kc), snd kc)) h.

Lemma hsum_rev_keys : forall w h, hsum w (rev_keys h) = hsum (fun k => w (rev k)) h.
Proof. induction h as [|[k c] h IH]; simpl; [reflexivity|]. rewrite IH. reflexivity. Qed.

Lemma rev_keys_involutive : forall h, rev_keys (rev_keys h) = h.
Proof. induction h as [|[k c] h IH]; simpl; [reflexivity|]. rewrite rev_involutive, IH. reflexivity. Qed.

Lemma rev_inj : forall (a b : key), rev a = rev b -> a = b.
Proof. intros a b H. rewrite <- (rev_involutive a), <- (rev_involutive b), H. reflexivity. Qed.

Lemma key_eqb_rev : forall a b, key_eqb (rev a) (rev b) = key_eqb a b.
Proof.
  intros. destruct (key_eqb a b) eqn:E.
  - apply key_eqb_eq in E. subst. apply key_eqb_refl.
  - destruct (key_eqb (rev a) (rev b)) eqn:E'; [|reflexivity].
    apply key_eqb_eq in E'. apply rev_inj in E'. subst. rewrite key_eqb_refl in E. discriminate.
Qed.

Lemma hget_rev_keys : forall h k, hget (rev_keys h) (rev k) = hget h k.
Proof. induction h as [|[k0 c0] h IH]; intros; simpl; [reflexivity|]. rewrite key_eqb_rev, IH. reflexivity. Qed.

Lemma lengths_consistent_rev : forall h, lengths_consistent (rev_keys h) = lengths_consistent h.
Proof.
  destruct h as [|[k0 c0] h]; simpl; [reflexivity|]. rewrite rev_length.
  induction h as [|[k c] h IH]; simpl; [reflexivity|]. rewrite rev_length, IH. reflexivity.
Qed.

Theorem mk_histogram_with_msq : forall r o n eps,
  mk_histogram_with r o n true eps =
  match mk_histogram_with r o n false eps with Ok h => Ok (rev_keys h) | Err e => Err e end.
Proof.
  intros. unfold mk_histogram_with. destruct (negb (lengths_consistent o)); [reflexivity|].
  destruct (0 <? n)%Z.
  - destruct (Qc_gtb (Qc_abs (total o - 1)) eps); reflexivity.
  - destruct (n <? 0)%Z; reflexivity.
Qed.

Theorem mk_histogram_msq : forall o n eps,
  mk_histogram o n true eps =
  match mk_histogram o n false eps with Ok h => Ok (rev_keys h) | Err e => Err e end.
Proof. intros. apply mk_histogram_with_msq. Qed.

Theorem mk_histogram_counts : forall o msq eps, lengths_consistent o = true ->
  mk_histogram o 0 msq eps = Ok (if msq then rev_keys o else o).
Proof. intros o msq eps H. unfold mk_histogram, mk_histogram_with. rewrite H. simpl. destruct msq; reflexivity. Qed.

(* reading a histogram with msq_first and reading the result again with msq_first gives it back *)
Theorem reverse_twice : forall o eps, lengths_consistent o = true ->
  exists h, mk_histogram o 0 true eps = Ok h /\ mk_histogram h 0 true eps = Ok o /\ total h = total o.
Proof.
  intros o eps H. exists (rev_keys o). split; [apply (mk_histogram_counts o true eps H)|]. split.
  - rewrite (mk_histogram_counts (rev_keys o) true eps) by (rewrite lengths_consistent_rev; exact H).
    rewrite rev_keys_involutive. reflexivity.
  - unfold total. apply hsum_rev_keys.
Qed.

(* ---------------------------------------------------------------- aggregation *)
Lemma Qc_pos_false_nonneg : forall c, 0 <= c -> Qc_pos c = false -> c = 0.
Proof.
  intros c H0 H. apply Qcle_antisym; [|exact H0]. apply Qcle_alt. unfold Qc_pos in H.
  destruct (Qccompare c 0); congruence.
Qed.

Lemma Qc_nonneg_plus : forall a b, 0 <= a -> 0 <= b -> 0 <= a + b.
Proof. intros a b Ha Hb. replace 0 with (0 + 0) by ring. apply Qcplus_le_compat; assumption. Qed.

Lemma nonneg_hadd : forall k c h, 0 <= c -> nonneg h -> nonneg (hadd k c h).
Proof.
  induction h as [|[k0 c0] h IH]; intros Hc Hn; simpl.
  - constructor; [exact Hc|constructor].
  - inversion Hn as [|x l H1 H2]; subst. simpl in H1. destruct (key_eqb k k0).
    + constructor; [simpl; apply Qc_nonneg_plus; assumption|exact H2].
    + constructor; [exact H1|apply IH; assumption].
Qed.

Lemma nonneg_merge : forall b a, nonneg a -> nonneg b ->
  nonneg (fold_left (fun acc kc => hadd (fst kc) (snd kc) acc) b a).
Proof.
  induction b as [|[k c] b IH]; intros a Ha Hb; simpl; [exact Ha|].
  inversion Hb as [|x l H1 H2]; subst. apply IH; [apply nonneg_hadd; assumption|exact H2].
Qed.

Lemma hsum_filter_pos : forall w h, nonneg h -> hsum w (filter (fun kc => Qc_pos (snd kc)) h) = hsum w h.
Proof.
  induction h as [|[k c] h IH]; intros Hn; simpl; [reflexivity|].
  inversion Hn as [|x l H1 H2]; subst. simpl in H1. destruct (Qc_pos c) eqn:E; simpl; rewrite IH by exact H2.
  - reflexivity.
  - rewrite (Qc_pos_false_nonneg c H1 E). ring.
Qed.

Lemma nonneg_filter : forall p h, nonneg h -> nonneg (filter p h).
Proof.
  induction h as [|kc h IH]; intros Hn; simpl; [constructor|].
  inversion Hn; subst. destruct (p kc); [constructor; [assumption|apply IH; assumption]|apply IH; assumption].
Qed.

Lemma counter_add_hsum : forall w a b, nonneg a -> nonneg b ->
  hsum w (counter_add a b) = hsum w a + hsum w b.
Proof.
  intros w a b Ha Hb. unfold counter_add. rewrite hsum_filter_pos by (apply nonneg_merge; assumption).
  rewrite (hsum_accumulate w (fun k => k)). reflexivity.
Qed.

Lemma counter_add_nonneg : forall a b, nonneg a -> nonneg b -> nonneg (counter_add a b).
Proof. intros. unfold counter_add. apply nonneg_filter. apply nonneg_merge; assumption. Qed.

Definition sum_over (w : key -> Qc) (hs : list hist) : Qc := fold_right (fun h s => hsum w h + s) 0 hs.

Lemma fold_counter_add : forall w hs acc, nonneg acc -> Forall nonneg hs ->
  hsum w (fold_left counter_add hs acc) = hsum w acc + sum_over w hs
  /\ nonneg (fold_left counter_add hs acc).
Proof.
  induction hs as [|h hs IH]; intros acc Ha Hs; simpl.
  - split; [ring|exact Ha].
  - inversion Hs as [|x l H1 H2]; subst.
    destruct (IH (counter_add acc h) (counter_add_nonneg acc h Ha H1) H2) as [E N].
    split; [|exact N]. rewrite E. rewrite counter_add_hsum by assumption. ring.
Qed.

(* every weighted sum of the aggregate is the sum over the inputs (w = 1: the number of shots) *)
Theorem aggregate_hsum : forall w hs h, Forall nonneg hs -> aggregate_histograms hs = Ok h ->
  hsum w h = sum_over w hs.
Proof.
  intros w hs h Hn H. destruct hs as [|h1 [|h2 hs]]; simpl in H.
  - discriminate.
  - injection H as H. subst. simpl. ring.
  - destruct (n_qubits_of h1) as [n1|]; simpl in H; [|discriminate].
    destruct (n_qubits_of h2) as [n2|]; simpl in H; [|discriminate].
    destruct (mapM n_qubits_of hs) as [ls|]; simpl in H; [|discriminate].
    destruct (negb (Nat.eqb n1 n2 && forallb (Nat.eqb n1) ls)); [discriminate|].
    injection H as H. subst h.
    destruct (fold_counter_add w (h1 :: h2 :: hs) [] (Forall_nil _) Hn) as [E _].
    simpl in E. simpl. rewrite E. ring.
Qed.

Theorem aggregate_conserves : forall hs h, Forall nonneg hs -> aggregate_histograms hs = Ok h ->
  total h = fold_right (fun h s => total h + s) 0 hs.
Proof. intros hs h Hn H. unfold total. apply (aggregate_hsum _ hs h Hn H). Qed.

(* ---------------------------------------------------------------- post_selection.py *)
Lemma hadd_not_nil : forall k c h, hadd k c h <> [].
Proof. intros k c [|[k0 c0] h]; simpl; [discriminate|]. destruct (key_eqb k k0); discriminate. Qed.

Lemma accumulate_not_nil : forall (f : key -> key) h acc, acc <> [] ->
  fold_left (fun acc kc => hadd (f (fst kc)) (snd kc) acc) h acc <> [].
Proof. induction h as [|[k c] h IH]; intros acc Ha; simpl; [exact Ha|]. apply IH. apply hadd_not_nil. Qed.

Lemma hmap_not_nil : forall f h, h <> [] -> hmap f h <> [].
Proof.
  intros f [|[k c] h] Hne; [congruence|]. unfold hmap. simpl. apply accumulate_not_nil. discriminate.
Qed.

Lemma mk_histogram_0_ok : forall o eps h, mk_histogram o 0 false eps = Ok h -> h = o.
Proof.
  intros o eps h H. unfold mk_histogram, mk_histogram_with in H. destruct (negb (lengths_consistent o)); [discriminate|].
  simpl in H. injection H as H. congruence.
Qed.

Theorem strip_hsum : forall freqs R eps f w, strip_post_selection freqs R eps = Ok f ->
  hsum w f = hsum (fun k => w (remove_key R k)) freqs / total freqs.
Proof.
  intros freqs R eps f w H. unfold strip_post_selection in H.
  destruct (mk_histogram freqs 0 false eps) as [h|] eqn:E; simpl in H; [|discriminate].
  apply mk_histogram_0_ok in E. subst h.
  rewrite (frequencies_hsum _ f w H). rewrite remove_indices_hsum, remove_indices_conserves. reflexivity.
Qed.

Theorem strip_normalised : forall freqs R eps f, strip_post_selection freqs R eps = Ok f -> freqs <> [] -> total f = 1.
Proof.
  intros freqs R eps f H Hne. unfold strip_post_selection in H.
  destruct (mk_histogram freqs 0 false eps) as [h|] eqn:E; simpl in H; [|discriminate].
  apply mk_histogram_0_ok in E. subst h.
  apply (frequencies_normalised _ f H). apply hmap_not_nil. exact Hne.
Qed.

Theorem post_select_fn_hsum : forall freqs exp eps f w, post_select_fn freqs exp eps = Ok f ->
  hsum w f = hsum (fun k => if selected exp k then w (remove_key (map fst exp) k) else 0) freqs
             / mass (selected exp) freqs.
Proof.
  intros freqs exp eps f w H. unfold post_select_fn in H.
  destruct (mk_histogram freqs 0 false eps) as [h|] eqn:E; simpl in H; [|discriminate].
  apply mk_histogram_0_ok in E. subst h.
  destruct (hist_post_select exp freqs) as [h'|] eqn:E'; simpl in H; [|discriminate].
  rewrite (frequencies_hsum _ f w H). rewrite (post_select_hsum _ _ _ w E'), (post_select_total _ _ _ E'). reflexivity.
Qed.

(* post-selection renormalises: whenever something is selected, the result sums to 1 *)
Theorem post_select_fn_normalised : forall freqs exp eps f, post_select_fn freqs exp eps = Ok f -> f <> [] -> total f = 1.
Proof.
  intros freqs exp eps f H Hne. unfold post_select_fn in H.
  destruct (mk_histogram freqs 0 false eps) as [h|] eqn:E; simpl in H; [|discriminate].
  destruct (hist_post_select exp h) as [h'|] eqn:E'; simpl in H; [|discriminate].
  apply (frequencies_normalised _ f H). intro Hn. apply Hne. apply (frequencies_nil_iff _ _ H). exact Hn.
Qed.

Definition complement (n : nat) (indices : list Z) : list Z :=
  filter (fun i => negb (zmem i indices)) (map Z.of_nat (seq 0 n)).

(* both parts of split_frequency_dict are normalised marginals of the input *)
Theorem split_conserves : forall freqs indices eps mid marg n,
  split_frequency_dict freqs indices None eps = Ok (mid, marg) -> n_qubits_of freqs = Ok n ->
  total mid = 1 /\ total marg = 1
  /\ (forall w, hsum w mid = hsum (fun k => w (remove_key (complement n indices) k)) freqs / total freqs)
  /\ (forall w, hsum w marg = hsum (fun k => w (remove_key indices k)) freqs / total freqs).
Proof.
  intros freqs indices eps mid marg n H Hn. unfold split_frequency_dict in H. rewrite Hn in H. simpl in H.
  fold (complement n indices) in H.
  destruct (strip_post_selection freqs (complement n indices) eps) as [m1|] eqn:E1; simpl in H; [|discriminate].
  destruct (strip_post_selection freqs indices eps) as [m2|] eqn:E2; simpl in H; [|discriminate].
  injection H as H1 H2. subst m1 m2.
  assert (Hne : freqs <> []) by (destruct freqs; [discriminate|discriminate]).
  split; [apply (strip_normalised _ _ _ _ E1 Hne)|]. split; [apply (strip_normalised _ _ _ _ E2 Hne)|].
  split; intro w; [apply (strip_hsum _ _ _ _ w E1)|apply (strip_hsum _ _ _ _ w E2)].
Qed.

(* with a desired mid-circuit outcome the second part is the renormalised post-selection *)
Theorem split_desired_renormalises : forall freqs indices d eps mid marg,
  split_frequency_dict freqs indices (Some d) eps = Ok (mid, marg) ->
  total mid = 1 /\ (marg <> [] -> total marg = 1).
Proof.
  intros freqs indices d eps mid marg H. unfold split_frequency_dict in H.
  destruct (n_qubits_of freqs) as [n|] eqn:Hn; simpl in H; [|discriminate].
  match type of H with context [strip_post_selection freqs ?o eps] => destruct (strip_post_selection freqs o eps) as [m1|] eqn:E1 end;
    simpl in H; [|discriminate].
  destruct (post_select_fn freqs (dict_of_zip indices d) eps) as [m2|] eqn:E2; simpl in H; [|discriminate].
  injection H as H1 H2. subst m1 m2.
  assert (Hne : freqs <> []) by (destruct freqs; [discriminate|discriminate]).
  split; [apply (strip_normalised _ _ _ _ E1 Hne)|]. intro Hm. apply (post_select_fn_normalised _ _ _ _ E2 Hm).
Qed.

Theorem split_last_n_hsum : forall freqs n w,
  hsum w (fst (split_last_n freqs n)) = hsum (fun k => w (firstn (slice_point (length k) n) k)) freqs
  /\ hsum w (snd (split_last_n freqs n)) = hsum (fun k => w (skipn (slice_point (length k) n) k)) freqs.
Proof. intros. unfold split_last_n. simpl. split; apply hsum_hmap. Qed.

Theorem split_last_n_conserves : forall freqs n,
  total (fst (split_last_n freqs n)) = total freqs /\ total (snd (split_last_n freqs n)) = total freqs.
Proof. intros. unfold split_last_n. simpl. split; apply total_hmap. Qed.

(* ---------------------------------------------------------------- expectation of a term under marginalisation *)
(* position of qubit q (counted from position i) after the indices R have been removed *)
Fixpoint rank_from (i : nat) (R : list Z) (q : nat) : nat :=
  match q with
  | O => O
  | S q' => (if zmem (Z.of_nat i) R then 0 else 1) + rank_from (S i) R q'
  end.
Definition rank (R : list Z) (q : nat) : nat := rank_from 0 R q.

Lemma par_from_remove : forall R t t' k i j,
  (forall m, zmem (Z.of_nat (i + m)) R = false -> nmem (j + rank_from i R m) t' = nmem (i + m) t) ->
  (forall m, zmem (Z.of_nat (i + m)) R = true -> nmem (i + m) t = false) ->
  par_from j t' (remove_key_from i R k) = par_from i t k.
Proof.
  induction k as [|b k IH]; intros i j Hkeep Hdrop; simpl; [reflexivity|].
  destruct (zmem (Z.of_nat i) R) eqn:E.
  - assert (H0 : nmem i t = false) by (specialize (Hdrop 0%nat); rewrite Nat.add_0_r in Hdrop; apply Hdrop; exact E).
    rewrite H0. rewrite andb_false_l, xorb_false_l. apply IH.
    + intros m Hm. specialize (Hkeep (S m)). rewrite Nat.add_succ_r in Hkeep. simpl in Hkeep. rewrite E in Hkeep.
      simpl in Hkeep. apply Hkeep. exact Hm.
    + intros m Hm. specialize (Hdrop (S m)). rewrite Nat.add_succ_r in Hdrop. apply Hdrop. exact Hm.
  - simpl. f_equal.
    + f_equal. specialize (Hkeep 0%nat). simpl in Hkeep. repeat rewrite Nat.add_0_r in Hkeep.
      apply Hkeep. exact E.
    + apply IH.
      * intros m Hm. specialize (Hkeep (S m)). rewrite Nat.add_succ_r in Hkeep. simpl in Hkeep. rewrite E in Hkeep.
        simpl in Hkeep. rewrite Nat.add_succ_r in Hkeep. apply Hkeep. exact Hm.
      * intros m Hm. specialize (Hdrop (S m)). rewrite Nat.add_succ_r in Hdrop. apply Hdrop. exact Hm.
Qed.

(* t' is the term t written in the numbering of the remaining qubits *)
Definition renumbered (R : list Z) (t t' : list nat) : Prop :=
  (forall q, zmem (Z.of_nat q) R = false -> nmem (rank R q) t' = nmem q t)
  /\ (forall q, zmem (Z.of_nat q) R = true -> nmem q t = false).

Theorem marginal_keeps_expect : forall R t t' h, renumbered R t t' ->
  expect t' (remove_qubit_indices R h) = expect t h.
Proof.
  intros R t t' h [Hk Hd]. unfold expect. rewrite remove_indices_hsum. apply hsum_ext. intros k _.
  f_equal. unfold remove_key. apply par_from_remove; simpl; assumption.
Qed.

Lemma remove_uniform : forall R n h, h <> [] -> uniform n h ->
  exists n', uniform n' (remove_qubit_indices R h) /\ remove_qubit_indices R h <> []
             /\ forall k, length k = n -> length (remove_key R k) = n'.
Proof.
  intros R n h Hne Hu. exists (length (remove_key R (repeat false n))).
  assert (L : forall k, length k = n -> length (remove_key R k) = length (remove_key R (repeat false n))).
  { intros k Hk. unfold remove_key. apply remove_key_from_length. rewrite repeat_length. exact Hk. }
  split; [|split; [apply hmap_not_nil; exact Hne|exact L]].
  unfold remove_qubit_indices, hmap. 
  assert (G : forall h acc, uniform n h -> uniform (length (remove_key R (repeat false n))) acc ->
              uniform (length (remove_key R (repeat false n)))
                (fold_left (fun acc kc => hadd (remove_key R (fst kc)) (snd kc) acc) h acc)).
  { clear h Hne Hu. induction h as [|[k c] h IH]; intros acc Hh Ha; simpl; [exact Ha|].
    pose proof (Forall_inv Hh) as H1. pose proof (Forall_inv_tail Hh) as H2. simpl in H1. apply IH; [exact H2|].
    clear IH H2 Hh. induction acc as [|[k0 c0] acc IHa]; simpl.
    - constructor; [simpl; apply L; exact H1|constructor].
    - pose proof (Forall_inv Ha) as A1. pose proof (Forall_inv_tail Ha) as A2. destruct (key_eqb (remove_key R k) k0).
      + constructor; [exact A1|exact A2].
      + constructor; [exact A1|apply IHa; exact A2]. }
  apply G; [exact Hu|constructor].
Qed.

Lemma oneterm_ok : forall t f n, f <> [] -> uniform n f -> (forall q, In q t -> (q < n)%nat) ->
  oneterm t f = Ok (expect t f).
Proof.
  intros t f n Hne Hu Ht. destruct f as [|[k0 c0] f]; [congruence|]. unfold oneterm.
  pose proof (Forall_inv Hu) as H1. simpl in H1.
  assert (E1 : existsb (fun q => Nat.leb (length k0) q) t = false).
  { apply not_true_is_false. intro E. apply existsb_exists in E. destruct E as [q [Hq Hl]].
    apply Nat.leb_le in Hl. specialize (Ht q Hq). lia. }
  rewrite E1.
  match goal with |- context [negb ?x] => assert (E2 : x = true) end.
  { apply forallb_forall. intros kc Hkc. apply Nat.eqb_eq.
    unfold uniform in Hu. rewrite Forall_forall in Hu. rewrite H1. apply (Hu kc Hkc). }
  rewrite E2. reflexivity.
Qed.

(* marginalising qubits the term does not act on leaves get_expectation_value_from_frequencies_oneterm unchanged *)
Theorem marginal_keeps_expectation : forall R t t' h n n',
  h <> [] -> uniform n h -> (forall q, In q t -> (q < n)%nat) ->
  renumbered R t t' -> (forall k, length k = n -> length (remove_key R k) = n') -> (forall q, In q t' -> (q < n')%nat) ->
  oneterm t' (remove_qubit_indices R h) = oneterm t h /\ oneterm t h = Ok (expect t h).
Proof.
  intros R t t' h n n' Hne Hu Ht Hr Hlen Ht'.
  destruct (remove_uniform R n h Hne Hu) as [n'' [U [NE L]]].
  assert (n'' = n').
  { destruct h as [|[k c] h]; [congruence|]. pose proof (Forall_inv Hu) as Hk. simpl in Hk. rewrite <- (L k Hk). apply Hlen. exact Hk. }
  subst n''. rewrite (oneterm_ok t h n Hne Hu Ht). rewrite (oneterm_ok t' _ n' NE U Ht').
  split; [|reflexivity]. f_equal. apply marginal_keeps_expect. exact Hr.
Qed.

(* the usual case: the removed qubits (ancillas) come after every qubit of the term — no renumbering *)
Lemma rank_from_below : forall R q i, (forall m, (m < q)%nat -> zmem (Z.of_nat (i + m)) R = false) -> rank_from i R q = q.
Proof.
  induction q as [|q IH]; intros i H; simpl; [reflexivity|].
  rewrite (IH (S i)).
  - specialize (H 0%nat). rewrite Nat.add_0_r in H. rewrite H by lia. reflexivity.
  - intros m Hm. specialize (H (S m)). rewrite Nat.add_succ_r in H. apply H. lia.
Qed.

Lemma rank_from_ge : forall R q i lo, (forall m, (i + m < lo)%nat -> zmem (Z.of_nat (i + m)) R = false) ->
  (lo <= i + q)%nat -> (lo <= i + rank_from i R q)%nat.
Proof.
  induction q as [|q IH]; intros i lo H Hq; simpl; [exact Hq|].
  destruct (Nat.le_gt_cases lo i) as [Hi|Hi]; [lia|].
  specialize (H 0%nat) as H0. rewrite Nat.add_0_r in H0. rewrite H0 by exact Hi. simpl.
  specialize (IH (S i) lo). rewrite Nat.add_succ_r. apply IH.
  - intros m Hm. specialize (H (S m)). rewrite Nat.add_succ_r in H. apply H. exact Hm.
  - lia.
Qed.

Lemma nmem_false_ge : forall t lo q, (forall x, In x t -> (x < lo)%nat) -> (lo <= q)%nat -> nmem q t = false.
Proof.
  induction t as [|x t IH]; intros lo q H Hq; simpl; [reflexivity|].
  rewrite (IH lo q) by (try (intros y Hy; apply H; right; exact Hy); exact Hq).
  assert (x < lo)%nat by (apply H; left; reflexivity).
  destruct (Nat.eqb q x) eqn:E; [apply Nat.eqb_eq in E; lia|reflexivity].
Qed.

Lemma zmem_In : forall z l, zmem z l = true <-> In z l.
Proof.
  induction l as [|y l IH]; simpl; [split; [discriminate|tauto]|].
  rewrite orb_true_iff, IH, Z.eqb_eq. split; intros [H|H]; auto.
Qed.

Theorem trailing_renumbered : forall R t lo,
  (forall x, In x t -> (x < lo)%nat) -> (forall r, In r R -> (Z.of_nat lo <= r)%Z) -> renumbered R t t.
Proof.
  intros R t lo Ht HR.
  assert (Hlow : forall m, (m < lo)%nat -> zmem (Z.of_nat m) R = false).
  { intros m Hm. apply not_true_is_false. intro E. apply zmem_In in E. specialize (HR _ E). lia. }
  split.
  - intros q Hq. destruct (Nat.le_gt_cases lo q) as [Hge|Hlt].
    + rewrite (nmem_false_ge t lo q Ht Hge). apply (nmem_false_ge t lo); [exact Ht|].
      unfold rank. apply (rank_from_ge R q 0 lo); simpl; [intros m Hm; apply Hlow; exact Hm|exact Hge].
    + unfold rank. rewrite rank_from_below; [reflexivity|]. intros m Hm. simpl. apply Hlow. lia.
  - intros q Hq. destruct (Nat.le_gt_cases lo q) as [Hge|Hlt]; [apply (nmem_false_ge t lo q Ht Hge)|].
    rewrite Hlow in Hq by exact Hlt. discriminate.
Qed.

(* ---------------------------------------------------------------- the constructor's rounding *)

Lemma this_plus : forall x y : Qc, (this (x + y) == this x + this y)%Q.
Proof. intros. unfold Qcplus, Q2Qc. cbn [this]. apply Qred_correct. Qed.
Lemma this_minus : forall x y : Qc, (this (x - y) == this x - this y)%Q.
Proof. intros. unfold Qcminus. rewrite this_plus. unfold Qcopp, Q2Qc. cbn [this]. rewrite Qred_correct. reflexivity. Qed.
Lemma this_Z2Qc : forall z, (this (Z2Qc z) == inject_Z z)%Q.
Proof. intros. unfold Z2Qc, Q2Qc. cbn [this]. apply Qred_correct. Qed.
Lemma this_half : (this half == 1 # 2)%Q.
Proof. reflexivity. Qed.

Lemma floor_bounds : forall x : Qc, Z2Qc (Qfloor (this x)) <= x /\ x < Z2Qc (Qfloor (this x)) + 1.
Proof.
  intros x. split.
  - unfold Qcle. rewrite this_Z2Qc. apply Qfloor_le.
  - unfold Qclt. rewrite this_plus, this_Z2Qc. pose proof (Qlt_floor (this x)) as H.
    rewrite inject_Z_plus in H. exact H.
Qed.

Lemma round_half_even_bound : forall x : Qc,
  x - half <= Z2Qc (round_half_even x) /\ Z2Qc (round_half_even x) <= x + half.
Proof.
  intros x. unfold round_half_even. destruct (floor_bounds x) as [L U].
  set (f := Qfloor (this x)) in *.
  assert (Hf1 : Z2Qc (f + 1) = Z2Qc f + 1).
  { apply Qc_is_canon. rewrite this_plus, !this_Z2Qc. rewrite inject_Z_plus. reflexivity. }
  unfold Qcle, Qclt in *. rewrite this_plus in U. rewrite this_Z2Qc in L, U. change (this 1) with 1%Q in U.
  destruct (Qccompare (x - Z2Qc f) half) eqn:E.
  - apply Qceq_alt in E.
    assert (E' : (this x - inject_Z f == 1 # 2)%Q).
    { rewrite <- this_Z2Qc, <- this_minus, E. reflexivity. }
    destruct (Z.even f); [|rewrite Hf1]; rewrite ?this_plus, this_minus, ?this_Z2Qc, this_half; simpl (this 1); split; lra.
  - apply Qclt_alt in E. unfold Qclt in E. rewrite this_minus, this_Z2Qc, this_half in E.
    rewrite this_plus, this_minus, this_Z2Qc, this_half. split; lra.
  - apply Qcgt_alt in E. unfold Qclt in E. rewrite this_minus, this_Z2Qc, this_half in E.
    rewrite Hf1. rewrite !this_plus, this_minus, this_Z2Qc, this_half. simpl (this 1). split; lra.
Qed.

Lemma round_half_even_Z : forall z, round_half_even (Z2Qc z) = z.
Proof.
  intros z. unfold round_half_even.
  assert (F : Qfloor (this (Z2Qc z)) = z).
  { rewrite (Qfloor_comp _ _ (this_Z2Qc z)). apply Qfloor_Z. }
  rewrite F. replace (Z2Qc z - Z2Qc z) with 0 by ring. reflexivity.
Qed.

Fixpoint count (h : hist) : Qc := match h with [] => 0 | _ :: r => 1 + count r end.

Lemma round_total_bound : forall n o,
  total o * Z2Qc n - count o * half <= total (to_counts n o) /\ total (to_counts n o) <= total o * Z2Qc n + count o * half.
Proof.
  intros n. induction o as [|[k c] o IH]; unfold total in *; simpl.
  - replace (0 * Z2Qc n - 0 * half) with 0 by ring. replace (0 * Z2Qc n + 0 * half) with 0 by ring.
    split; apply Qcle_refl.
  - destruct IH as [IL IU]. destruct (round_half_even_bound (c * Z2Qc n)) as [RL RU].
    set (T := hsum (fun _ => 1) o) in *. set (S := hsum (fun _ => 1) (to_counts n o)) in *.
    replace ((1 * c + T) * Z2Qc n - (1 + count o) * half) with ((c * Z2Qc n - half) + (T * Z2Qc n - count o * half)) by ring.
    replace ((1 * c + T) * Z2Qc n + (1 + count o) * half) with ((c * Z2Qc n + half) + (T * Z2Qc n + count o * half)) by ring.
    rewrite Qcmult_1_l. split; apply Qcplus_le_compat; assumption.
Qed.

Lemma mk_histogram_shots : forall r o n msq eps h, (0 < n)%Z -> mk_histogram_with r o n msq eps = Ok h ->
  h = (if msq then rev_keys (convert r n o) else convert r n o).
Proof.
  intros r o n msq eps h Hn H. unfold mk_histogram_with in H. destruct (negb (lengths_consistent o)); [discriminate|].
  apply Z.ltb_lt in Hn. rewrite Hn in H. destruct (Qc_gtb (Qc_abs (total o - 1)) eps); [discriminate|].
  simpl in H. injection H as H. subst h. destruct msq; reflexivity.
Qed.

Lemma total_msq : forall (msq : bool) h, total (if msq then rev_keys h else h) = total h.
Proof. intros [|] h; [|reflexivity]. unfold total. apply hsum_rev_keys. Qed.

(* ---- the rule before the repair (per-key rounding): bound, and the refutation of conservation *)
Theorem asis_total_bound : forall o n msq eps h, (0 < n)%Z -> mk_histogram_asis o n msq eps = Ok h ->
  total o * Z2Qc n - count o * half <= total h /\ total h <= total o * Z2Qc n + count o * half.
Proof.
  intros o n msq eps h Hn H. rewrite (mk_histogram_shots RoundPerKey o n msq eps h Hn H), total_msq. apply round_total_bound.
Qed.

Definition integral_at (n : Z) (o : hist) : Prop := Forall (fun kc => exists z, snd kc * Z2Qc n = Z2Qc z) o.

Lemma to_counts_exact : forall n o, integral_at n o -> to_counts n o = scaled n o.
Proof.
  induction o as [|[k c] o IH]; intros Hi; simpl; [reflexivity|].
  pose proof (Forall_inv Hi) as [z Hz]. pose proof (Forall_inv_tail Hi) as Ht. simpl in Hz.
  rewrite Hz, round_half_even_Z. rewrite (IH Ht). reflexivity.
Qed.

Lemma Qc_abs_0 : Qc_abs 0 = 0. Proof. reflexivity. Qed.

Definition third : Qc := Q2Qc (1 # 3).
Definition witness_thirds : hist := [([false; false], third); ([false; true], third); ([true; false], third)].

Theorem asis_total_refuted_at : forall eps, Qc_gtb 0 eps = false ->
  exists h, total witness_thirds = 1 /\ mk_histogram_asis witness_thirds 10 false eps = Ok h /\ total h = Z2Qc 9 /\ total h <> Z2Qc 10.
Proof.
  intros eps He. exists (to_counts 10 witness_thirds).
  assert (T1 : total witness_thirds = 1) by (apply Qc_is_canon; vm_compute; reflexivity).
  assert (T9 : total (to_counts 10 witness_thirds) = Z2Qc 9) by (apply Qc_is_canon; vm_compute; reflexivity).
  split; [exact T1|]. split; [|split; [exact T9|]].
  - unfold mk_histogram_asis, mk_histogram_with. replace (lengths_consistent witness_thirds) with true by reflexivity. simpl negb. cbv iota.
    replace (0 <? 10)%Z with true by reflexivity. rewrite T1. replace (1 - 1) with 0 by ring. rewrite Qc_abs_0, He. reflexivity.
  - rewrite T9. intro E. assert (Q : (this (Z2Qc 9) == this (Z2Qc 10))%Q) by (rewrite E; reflexivity).
    rewrite !this_Z2Qc in Q. assert (9 = 10)%Z by (apply inject_Z_injective; exact Q). discriminate.
Qed.
