(* Packaging.v — the conjunctions stated in coq/props/C18.v, assembled from the lemmas of
   HistogramProofs.v / GroupingProofs.v (no new reasoning). *)
From Coq Require Import String ZArith QArith Qcanon List Bool.
From Tangelo Require Import Post.Histogram Post.Grouping Post.HistogramProofs Post.GroupingProofs.
Import ListNotations.
Local Open Scope Qc_scope.

Lemma pk_remove_indices_is_marginal :
  forall (R : list Z) (h : hist),
    (forall k', hget (remove_qubit_indices R h) k' = mass (fun k => key_eqb k' (remove_key R k)) h)
    /\ (forall w, hsum w (remove_qubit_indices R h) = hsum (fun k => w (remove_key R k)) h)
    /\ distinct_keys (remove_qubit_indices R h).
Proof.
  intros R h. split; [intro k'; exact (remove_indices_is_marginal R h k')|].
  split; [intro w; exact (remove_indices_hsum w R h)|exact (distinct_hmap (remove_key R) h)].
Qed.

Lemma pk_aggregate_conserves :
  forall (hs : list hist) (h : hist), Forall nonneg hs -> aggregate_histograms hs = Ok h ->
    total h = fold_right (fun h s => total h + s) 0 hs
    /\ forall w, hsum w h = sum_over w hs.
Proof.
  intros hs h Hn H. split; [exact (aggregate_conserves hs h Hn H)|intro w; exact (aggregate_hsum w hs h Hn H)].
Qed.

Lemma pk_post_select_keeps_selected :
  forall (exp : outcomes) (h h' : hist), hist_post_select exp h = Ok h' ->
    total h' = mass (selected exp) h
    /\ forall w, hsum w h' = hsum (fun k => if selected exp k then w (remove_key (map fst exp) k) else 0) h.
Proof.
  intros exp h h' H. split; [exact (post_select_total exp h h' H)|intro w; exact (post_select_hsum exp h h' w H)].
Qed.

Lemma pk_post_select_renormalises :
  forall (freqs : hist) (exp : outcomes) (eps : Qc) (f : hist), post_select_fn freqs exp eps = Ok f ->
    (f <> [] -> total f = 1)
    /\ forall w, hsum w f = hsum (fun k => if selected exp k then w (remove_key (map fst exp) k) else 0) freqs
                            / mass (selected exp) freqs.
Proof.
  intros freqs exp eps f H. split; [exact (post_select_fn_normalised freqs exp eps f H)|
                                    intro w; exact (post_select_fn_hsum freqs exp eps f w H)].
Qed.

Lemma pk_frequencies_normalised :
  forall (h f : hist), frequencies h = Ok f -> h <> [] ->
    total f = 1 /\ forall w, hsum w f = hsum w h / total h.
Proof. intros h f H Hne. split; [exact (frequencies_normalised h f H Hne)|intro w; exact (frequencies_hsum h f w H)]. Qed.

Lemma pk_reverse_is_bijection :
  forall (r : conv_rule) (o : hist) (n : Z) (eps : Qc),
    mk_histogram_with r o n true eps = match mk_histogram_with r o n false eps with Ok h => Ok (rev_keys h) | Err e => Err e end
    /\ (forall h, rev_keys (rev_keys h) = h)
    /\ (forall h w, hsum w (rev_keys h) = hsum (fun k => w (rev k)) h)
    /\ (forall h k, hget (rev_keys h) (rev k) = hget h k).
Proof.
  intros r o n eps. split; [exact (mk_histogram_with_msq r o n eps)|]. split; [exact rev_keys_involutive|].
  split; [intros h w; exact (hsum_rev_keys w h)|exact hget_rev_keys].
Qed.

Lemma pk_split_last_n_conserves :
  forall (freqs : hist) (n : Z),
    total (fst (split_last_n freqs n)) = total freqs /\ total (snd (split_last_n freqs n)) = total freqs
    /\ (forall w, hsum w (fst (split_last_n freqs n)) = hsum (fun k => w (firstn (slice_point (length k) n) k)) freqs)
    /\ (forall w, hsum w (snd (split_last_n freqs n)) = hsum (fun k => w (skipn (slice_point (length k) n) k)) freqs).
Proof.
  intros freqs n. destruct (split_last_n_conserves freqs n) as [A B]. split; [exact A|]. split; [exact B|].
  split; intro w; [exact (proj1 (split_last_n_hsum freqs n w))|exact (proj2 (split_last_n_hsum freqs n w))].
Qed.

Lemma pk_openfermion_style_groups_are_diagonal :
  forall (t b : term), sub_term t b = true -> diag_in t b = true /\ check_bases_commute_qwc t b = true.
Proof. intros t b H. split; [exact (sub_term_diag t b H)|exact (sub_term_commutes t b H)]. Qed.
