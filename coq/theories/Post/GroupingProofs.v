(* GroupingProofs.v — lemmas about Grouping.v: a grouping accepted by [is_qwc_partition] gives, for
   histograms of one state measured in each basis, the term-by-term value. *)
From Coq Require Import String ZArith QArith Qcanon List Bool Lia.
From Tangelo Require Import Post.Histogram Post.HistogramProofs Post.Grouping.
Import ListNotations.
Local Open Scope Qc_scope.

(* ---------------------------------------------------------------- decidable equalities *)
Lemma pauli_eqb_eq : forall a b, pauli_eqb a b = true -> a = b.
Proof. intros [] []; simpl; intro H; try discriminate; reflexivity. Qed.
Lemma pauli_eqb_refl : forall a, pauli_eqb a a = true.
Proof. intros []; reflexivity. Qed.

Lemma term_eqb_eq : forall a b, term_eqb a b = true -> a = b.
Proof.
  induction a as [|[q s] a IH]; destruct b as [|[q' s'] b]; simpl; intro H; try discriminate; [reflexivity|].
  apply andb_true_iff in H. destruct H as [H H3]. apply andb_true_iff in H. destruct H as [H1 H2].
  apply Nat.eqb_eq in H1. apply pauli_eqb_eq in H2. subst. f_equal. apply IH. exact H3.
Qed.
Lemma term_eqb_refl : forall a, term_eqb a a = true.
Proof. induction a as [|[q s] a IH]; simpl; [reflexivity|]. rewrite Nat.eqb_refl, pauli_eqb_refl, IH. reflexivity. Qed.

Lemma tc_eqb_eq : forall a b, tc_eqb a b = true -> a = b.
Proof.
  intros [t [c1 c2]] [t' [d1 d2]] H. unfold tc_eqb, coef_eqb in H. simpl in H.
  apply andb_true_iff in H. destruct H as [H1 H]. apply andb_true_iff in H. destruct H as [H2 H3].
  apply term_eqb_eq in H1. apply Qc_eq_bool_correct in H2. apply Qc_eq_bool_correct in H3. subst. reflexivity.
Qed.

(* ---------------------------------------------------------------- sums of coefficients *)
Definition csum (F : term * coef -> coef) (l : qop) : coef := fold_right (fun tc acc => cadd (F tc) acc) czero l.

Lemma cadd_comm : forall a b, cadd a b = cadd b a.
Proof. intros [a1 a2] [b1 b2]. unfold cadd. simpl. f_equal; ring. Qed.
Lemma cadd_assoc : forall a b c, cadd a (cadd b c) = cadd (cadd a b) c.
Proof. intros [a1 a2] [b1 b2] [c1 c2]. unfold cadd. simpl. f_equal; ring. Qed.
Lemma cadd_zero_r : forall a, cadd a czero = a.
Proof. intros [a1 a2]. unfold cadd, czero. simpl. f_equal; ring. Qed.
Lemma cadd_zero_l : forall a, cadd czero a = a.
Proof. intros. rewrite cadd_comm. apply cadd_zero_r. Qed.

Lemma csum_app : forall F a b, csum F (a ++ b) = cadd (csum F a) (csum F b).
Proof.
  induction a as [|x a IH]; intros b; simpl; [rewrite cadd_zero_l; reflexivity|].
  rewrite IH. apply cadd_assoc.
Qed.

Lemma csum_ext : forall F G l, (forall x, In x l -> F x = G x) -> csum F l = csum G l.
Proof.
  induction l as [|x l IH]; intros H; simpl; [reflexivity|].
  rewrite (H x) by (left; reflexivity). rewrite IH; [reflexivity|]. intros y Hy. apply H. right. exact Hy.
Qed.

Lemma remove_first_sum : forall F x l l', remove_first x l = Some l' -> csum F l = cadd (F x) (csum F l').
Proof.
  induction l as [|y l IH]; intros l' H; simpl in H; [discriminate|].
  destruct (tc_eqb x y) eqn:E.
  - injection H as H. subst l'. apply tc_eqb_eq in E. subst y. reflexivity.
  - destruct (remove_first x l) as [r|] eqn:Er; [|discriminate]. injection H as H. subst l'.
    simpl. rewrite (IH r eq_refl). rewrite !cadd_assoc. f_equal. apply cadd_comm.
Qed.

Lemma remove_first_In : forall x l l', remove_first x l = Some l' -> In x l /\ (forall y, In y l' -> In y l).
Proof.
  induction l as [|y l IH]; intros l' H; simpl in H; [discriminate|].
  destruct (tc_eqb x y) eqn:E.
  - injection H as H. subst l'. apply tc_eqb_eq in E. subst y. split; [left; reflexivity|intros z Hz; right; exact Hz].
  - destruct (remove_first x l) as [r|] eqn:Er; [|discriminate]. injection H as H. subst l'.
    destruct (IH r eq_refl) as [I1 I2]. split; [right; exact I1|].
    intros z [Hz|Hz]; [left; exact Hz|right; apply I2; exact Hz].
Qed.

(* "each term exactly once with its coefficient": the two lists are equal as multisets, so every sum
   over one equals the sum over the other, and they have the same elements *)
Lemma same_multiset_sum : forall F a b, same_multiset a b = true -> csum F a = csum F b.
Proof.
  induction a as [|x a IH]; intros b H; simpl in H.
  - destruct b; [reflexivity|discriminate].
  - destruct (remove_first x b) as [b'|] eqn:E; [|discriminate].
    simpl. rewrite (IH b' H). symmetry. apply remove_first_sum. exact E.
Qed.

Lemma same_multiset_In : forall a b, same_multiset a b = true -> forall x, In x a -> In x b.
Proof.
  induction a as [|y a IH]; intros b H x Hx; [destruct Hx|]. simpl in H.
  destruct (remove_first y b) as [b'|] eqn:E; [|discriminate]. destruct (remove_first_In _ _ _ E) as [I1 I2].
  destruct Hx as [Hx|Hx]; [subst; exact I1|]. apply I2. apply (IH b' H x Hx).
Qed.

Lemma same_multiset_length : forall a b, same_multiset a b = true -> length a = length b.
Proof.
  induction a as [|y a IH]; intros b H; simpl in H.
  - destruct b; [reflexivity|discriminate].
  - destruct (remove_first y b) as [b'|] eqn:E; [|discriminate]. simpl. rewrite (IH b' H).
    clear -E. revert b' E. induction b as [|z b IHb]; intros b' E; simpl in E; [discriminate|].
    destruct (tc_eqb y z); [injection E as E; subst; reflexivity|].
    destruct (remove_first y b) as [r|]; [|discriminate]. injection E as E. subst b'. simpl. rewrite (IHb r eq_refl). reflexivity.
Qed.

(* ---------------------------------------------------------------- bases *)
Lemma incr_from_lb : forall t lo q s, incr_from lo t = true -> In (q, s) t -> (lo <= q)%nat.
Proof.
  induction t as [|[q0 s0] t IH]; intros lo q s H Hin; [destruct Hin|]. simpl in H.
  apply andb_true_iff in H. destruct H as [H1 H2]. apply Nat.leb_le in H1.
  destruct Hin as [Hin|Hin]; [injection Hin as -> ->; exact H1|]. specialize (IH (S q0) q s H2 Hin). lia.
Qed.

(* a well-formed term, read as a measurement basis, measures each of its qubits along its own letter *)
Lemma eff_self : forall t q s, term_wf t = true -> In (q, s) t -> eff t q = s.
Proof.
  unfold term_wf, eff. intros t. generalize 0%nat. induction t as [|[q0 s0] t IH]; intros lo q s H Hin; [destruct Hin|].
  simpl in H. apply andb_true_iff in H. destruct H as [H1 H2]. simpl.
  destruct Hin as [Hin|Hin].
  - injection Hin as -> ->. rewrite Nat.eqb_refl. reflexivity.
  - pose proof (incr_from_lb t (S q0) q s H2 Hin) as Hlb.
    destruct (Nat.eqb q q0) eqn:E; [apply Nat.eqb_eq in E; lia|]. apply (IH (S q0) q s H2 Hin).
Qed.

Lemma diag_in_eff : forall t b q s, diag_in t b = true -> In (q, s) t -> eff b q = s.
Proof.
  intros t b q s H Hin. unfold diag_in in H. rewrite forallb_forall in H. specialize (H (q, s) Hin). simpl in H.
  apply pauli_eqb_eq in H. exact H.
Qed.

(* what openfermion's grouping provides (every factor of the term is in the basis) implies both the
   diagonality used here and Tangelo's check_bases_commute_qwc *)
Lemma sub_term_diag : forall t b, sub_term t b = true -> diag_in t b = true.
Proof.
  intros t b H. unfold sub_term, diag_in in *. rewrite forallb_forall in *. intros [q s] Hin. specialize (H (q, s) Hin).
  simpl in *. unfold eff. destruct (lookup b q) as [s'|]; [|discriminate]. apply pauli_eqb_eq in H. subst. apply pauli_eqb_refl.
Qed.
Lemma sub_term_commutes : forall t b, sub_term t b = true -> check_bases_commute_qwc t b = true.
Proof.
  intros t b H. unfold sub_term, check_bases_commute_qwc in *. rewrite forallb_forall in *. intros [q s] Hin. specialize (H (q, s) Hin).
  simpl in *. destruct (lookup b q); [exact H|reflexivity].
Qed.

(* ---------------------------------------------------------------- one state, several bases *)
Definition depends_only_on (S : list nat) (w : key -> Qc) : Prop :=
  forall k k', length k = length k' -> (forall q, In q S -> nth q k false = nth q k' false) -> w k = w k'.

(* the histograms [hist_of b] come from one state: bases that measure the qubits of S along the same
   axes give the same distribution of the bits in S, i.e. the same mean of every function of those bits *)
Definition consistent (hist_of : term -> hist) : Prop :=
  forall b1 b2 S w, (forall q, In q S -> eff b1 q = eff b2 q) -> depends_only_on S w ->
                    hsum w (hist_of b1) = hsum w (hist_of b2).

Lemma nmem_In : forall q l, nmem q l = true -> In q l.
Proof.
  induction l as [|y l IH]; simpl; intro H; [discriminate|]. apply orb_true_iff in H.
  destruct H as [H|H]; [left; symmetry; apply Nat.eqb_eq; exact H|right; apply IH; exact H].
Qed.

Lemma par_from_ext : forall t k k' i, length k = length k' ->
  (forall m, In (i + m)%nat t -> nth m k false = nth m k' false) -> par_from i t k = par_from i t k'.
Proof.
  induction k as [|b k IH]; destruct k' as [|b' k']; intros i Hl H; simpl in *; try discriminate; [reflexivity|].
  injection Hl as Hl. f_equal.
  - destruct (nmem i t) eqn:E; [|reflexivity]. simpl. apply nmem_In in E. specialize (H 0%nat). rewrite Nat.add_0_r in H. apply H. exact E.
  - apply IH; [exact Hl|]. intros m Hm. apply (H (S m)). rewrite Nat.add_succ_r. exact Hm.
Qed.

Lemma sign_depends_only_on : forall t, depends_only_on t (fun k => sgn (par_from 0 t k)).
Proof. intros t k k' Hl H. f_equal. apply par_from_ext; [exact Hl|]. intros m Hm. apply H. exact Hm. Qed.

Lemma expect_in_group_basis : forall hist_of t b, consistent hist_of -> term_wf t = true -> diag_in t b = true ->
  expect (supp t) (hist_of b) = expect (supp t) (hist_of t).
Proof.
  intros hist_of t b Hc Hwf Hd. unfold expect. apply (Hc b t (supp t)); [|apply sign_depends_only_on].
  intros q Hq. unfold supp in Hq. apply in_map_iff in Hq. destruct Hq as [[q' s] [E Hin]]. simpl in E. subst q'.
  rewrite (diag_in_eff t b q s Hd Hin). rewrite (eff_self t q s Hwf Hin). reflexivity.
Qed.

(* ---------------------------------------------------------------- the assembled value *)
Definition fits (n : nat) (ops : qop) : Prop := forall tc q, In tc ops -> In q (supp (fst tc)) -> (q < n)%nat.
Definition hist_ok (n : nat) (f : hist) : Prop := f <> [] /\ uniform n f.

Lemma sum_terms_ok : forall n f ops acc, hist_ok n f -> fits n ops ->
  sum_terms ops f acc = Ok (cadd acc (csum (fun tc => cscale (expect (supp (fst tc)) f) (snd tc)) ops)).
Proof.
  intros n f. induction ops as [|[t c] ops IH]; intros acc [Hne Hu] Hf; simpl.
  - rewrite cadd_zero_r. reflexivity.
  - rewrite (oneterm_ok (supp t) f n Hne Hu) by (intros q Hq; apply (Hf (t, c) q); [left; reflexivity|exact Hq]).
    simpl. rewrite IH; [|split; assumption|intros tc q H1 H2; apply (Hf tc q); [right; exact H1|exact H2]].
    rewrite cadd_assoc. reflexivity.
Qed.

Lemma glookup_distinct : forall g bo, terms_distinct (map fst g) = true -> In bo g -> glookup g (fst bo) = Some (snd bo).
Proof.
  induction g as [|[b ops] g IH]; intros bo Hd Hin; [destruct Hin|]. simpl in Hd. apply andb_true_iff in Hd. destruct Hd as [D1 D2].
  simpl. destruct Hin as [Hin|Hin].
  - subst bo. simpl. rewrite term_eqb_refl. reflexivity.
  - destruct (term_eqb (fst bo) b) eqn:E.
    + apply term_eqb_eq in E. subst b. exfalso. apply negb_true_iff in D1.
      assert (X : existsb (term_eqb (fst bo)) (map fst g) = true).
      { apply existsb_exists. exists (fst bo). split; [apply in_map; exact Hin|apply term_eqb_refl]. }
      congruence.
    + apply IH; assumption.
Qed.

Definition group_value (hist_of : term -> hist) (bo : term * qop) : coef :=
  csum (fun tc => cscale (expect (supp (fst tc)) (hist_of (fst bo))) (snd tc)) (snd bo).

Lemma exp_value_loop_ok : forall n hist_of g g2 acc,
  terms_distinct (map fst g) = true -> (forall bo, In bo g2 -> In bo g) ->
  (forall b, hist_ok n (hist_of b)) -> (forall bo, In bo g -> fits n (snd bo)) ->
  exp_value_loop g (map (fun bo => (fst bo, hist_of (fst bo))) g2) acc
  = Ok (fold_left (fun a bo => cadd a (group_value hist_of bo)) g2 acc).
Proof.
  intros n hist_of g. induction g2 as [|bo g2 IH]; intros acc Hd Hsub Hok Hfit; simpl; [reflexivity|].
  rewrite (glookup_distinct g bo Hd) by (apply Hsub; left; reflexivity).
  rewrite (sum_terms_ok n (hist_of (fst bo)) (snd bo) acc (Hok (fst bo))) by (apply Hfit; apply Hsub; left; reflexivity).
  simpl. apply IH; try assumption. intros bo' H'. apply Hsub. right. exact H'.
Qed.

Lemma fold_groups : forall F g acc,
  fold_left (fun a (bo : term * qop) => cadd a (csum F (snd bo))) g acc = cadd acc (csum F (all_terms g)).
Proof.
  induction g as [|bo g IH]; intros acc; simpl.
  - unfold all_terms. simpl. rewrite cadd_zero_r. reflexivity.
  - rewrite IH. unfold all_terms. simpl. rewrite csum_app. rewrite cadd_assoc. reflexivity.
Qed.

Definition term_value (hist_of : term -> hist) (tc : term * coef) : coef :=
  cscale (expect (supp (fst tc)) (hist_of (fst tc))) (snd tc).

Lemma termwise_csum : forall H hist_of, termwise H hist_of = csum (term_value hist_of) H.
Proof. reflexivity. Qed.

Theorem qwc_partition_gives_termwise : forall n (hist_of : term -> hist) (H : qop) (g : grouping),
  consistent hist_of -> (forall b, hist_ok n (hist_of b)) -> fits n H ->
  is_qwc_partition H g = true ->
  exp_value_from_measurement_bases g (map (fun bo => (fst bo, hist_of (fst bo))) g) = Ok (termwise H hist_of).
Proof.
  intros n hist_of H g Hc Hok HfitH Hp. unfold is_qwc_partition in Hp.
  repeat (apply andb_true_iff in Hp; destruct Hp as [Hp ?]).
  rename H0 into Hdiag, H1 into Hms, H2 into Hdg, H3 into HdH, H4 into Hwfg. rename Hp into HwfH.
  assert (Hfit : forall bo, In bo g -> fits n (snd bo)).
  { intros bo Hbo tc q Htc Hq. apply (HfitH tc q); [|exact Hq]. apply (same_multiset_In _ _ Hms).
    unfold all_terms. apply in_concat. exists (snd bo). split; [apply in_map; exact Hbo|exact Htc]. }
  unfold exp_value_from_measurement_bases.
  rewrite (exp_value_loop_ok n hist_of g g czero Hdg (fun bo Hb => Hb) Hok Hfit). f_equal.
  (* inside its group's basis every term has the value it has in its own basis *)
  assert (Hgv : forall bo, In bo g -> group_value hist_of bo = csum (term_value hist_of) (snd bo)).
  { intros bo Hbo. unfold group_value. apply csum_ext. intros tc Htc. unfold term_value. f_equal.
    apply expect_in_group_basis; [exact Hc| |].
    - rewrite forallb_forall in HwfH. apply HwfH. apply (same_multiset_In _ _ Hms).
      unfold all_terms. apply in_concat. exists (snd bo). split; [apply in_map; exact Hbo|exact Htc].
    - rewrite forallb_forall in Hdiag. specialize (Hdiag bo Hbo). rewrite forallb_forall in Hdiag. apply Hdiag. exact Htc. }
  assert (Hfold : forall g2 acc, (forall bo, In bo g2 -> In bo g) ->
            fold_left (fun a bo => cadd a (group_value hist_of bo)) g2 acc
            = fold_left (fun a (bo : term * qop) => cadd a (csum (term_value hist_of) (snd bo))) g2 acc).
  { induction g2 as [|bo g2 IH]; intros acc Hsub; simpl; [reflexivity|].
    rewrite (Hgv bo) by (apply Hsub; left; reflexivity). apply IH. intros bo' H'. apply Hsub. right. exact H'. }
  rewrite (Hfold g czero (fun bo Hb => Hb)). rewrite fold_groups. rewrite cadd_zero_l.
  rewrite termwise_csum. apply same_multiset_sum. exact Hms.
Qed.

(* each term of H occurs in exactly one place of the grouping, with its coefficient *)
Theorem qwc_partition_each_term_once : forall H g, is_qwc_partition H g = true ->
  length (all_terms g) = length H /\ (forall tc, In tc (all_terms g) <-> In tc H).
Proof.
  intros H g Hp. unfold is_qwc_partition in Hp. repeat (apply andb_true_iff in Hp; destruct Hp as [Hp ?]).
  rename H1 into Hms. split; [apply same_multiset_length; exact Hms|].
  intros tc. split; [apply (same_multiset_In _ _ Hms)|].
  intro Hin. clear -Hms Hin. revert H Hms Hin. generalize (all_terms g) as a.
  induction a as [|x a IH]; intros H Hms Hin; simpl in Hms.
  - destruct H; [destruct Hin|discriminate].
  - destruct (remove_first x H) as [H'|] eqn:E; [|discriminate].
    destruct (tc_eqb tc x) eqn:Ex; [apply tc_eqb_eq in Ex; left; symmetry; exact Ex|].
    right. apply (IH H' Hms). clear -E Hin Ex. revert H' E. induction H as [|y H IHH]; intros H' E; simpl in E; [discriminate|].
    destruct (tc_eqb x y) eqn:Exy.
    + injection E as E. subst H'. apply tc_eqb_eq in Exy. subst y. destruct Hin as [Hin|Hin]; [|exact Hin].
      subst tc. exfalso. destruct x as [t [c1 c2]]. unfold tc_eqb, coef_eqb in Ex. simpl in Ex. rewrite term_eqb_refl in Ex.
      unfold Qc_eq_bool in Ex. destruct (Qc_eq_dec c1 c1); [|congruence]. destruct (Qc_eq_dec c2 c2); [|congruence]. discriminate.
    + destruct (remove_first x H) as [r|] eqn:Er; [|discriminate]. injection E as E. subst H'.
      destruct Hin as [Hin|Hin]; [left; exact Hin|right; apply (IHH Hin r eq_refl)].
Qed.

(* ---------------------------------------------------------------- a concrete consistent family (non-vacuity) *)
(* one qubit in the state |+>: measured along X the outcome is 0 with certainty, along Y or Z it is uniform *)
Definition plus_state (b : term) : hist :=
  match eff b 0 with
  | PX => [([false], 1)]
  | _ => [([false], half); ([true], half)]
  end.

Lemma half_half : half + half = 1.
Proof. apply Qc_is_canon. reflexivity. Qed.

Lemma plus_state_consistent : consistent plus_state.
Proof.
  intros b1 b2 S w Hagree Hw. unfold plus_state.
  destruct (in_dec Nat.eq_dec 0%nat S) as [Hin|Hnin].
  - rewrite (Hagree 0%nat Hin). reflexivity.
  - assert (E : w [true] = w [false]).
    { apply Hw; [reflexivity|]. intros q Hq. destruct q as [|q]; [contradiction|]. destruct q; reflexivity. }
    assert (U : hsum w [([false], half); ([true], half)] = hsum w [([false], 1)]).
    { simpl. rewrite E. replace (w [false] * half + (w [false] * half + 0)) with (w [false] * (half + half)) by ring.
      rewrite half_half. ring. }
    destruct (eff b1 0), (eff b2 0); try reflexivity; try exact U; symmetry; exact U.
Qed.

Lemma plus_state_ok : forall b, hist_ok 1 (plus_state b).
Proof.
  intros b. unfold plus_state, hist_ok, uniform. destruct (eff b 0); (split; [discriminate|repeat constructor]).
Qed.
