(* ResampleProofs.v — the chunk sizes of get_resampled_frequencies add up to the requested number of
   samples, for every number of samples and every positive chunk size. *)
From Coq Require Import ZArith List Lia.
From Tangelo Require Import Post.Resample.
Import ListNotations.

Lemma zsum_app : forall a b, zsum (a ++ b) = (zsum a + zsum b)%Z.
Proof. induction a as [|x a IH]; intros b; simpl; [reflexivity|]. rewrite IH. lia. Qed.

Lemma full_chunks : forall (c r : Z) (n m : nat), (m <= n)%nat ->
  zsum (map (fun i => if Nat.eqb i n then r else c) (seq 0 m)) = (Z.of_nat m * c)%Z.
Proof.
  intros c r n. induction m as [|m IH]; intros Hm; [reflexivity|].
  rewrite seq_S, map_app, zsum_app. rewrite IH by lia. rewrite Nat2Z.inj_succ. unfold zsum. cbn [map fold_right Nat.add].
  destruct (Nat.eqb m n) eqn:E; [apply Nat.eqb_eq in E; lia|]. lia.
Qed.

Theorem resample_chunks_sum : forall ncount chunk_size : Z, (0 < chunk_size)%Z -> (0 <= ncount)%Z ->
  zsum (chunk_sizes ncount chunk_size) = ncount.
Proof.
  intros ncount c Hc Hn. unfold chunk_sizes. set (n := Z.to_nat (ncount / c)).
  rewrite seq_S, map_app, zsum_app. rewrite full_chunks by lia. unfold zsum. cbn [map fold_right Nat.add]. rewrite Nat.eqb_refl.
  assert (Hq : (0 <= ncount / c)%Z) by (apply Z.div_pos; lia).
  unfold n. rewrite Z2Nat.id by exact Hq. pose proof (Z.div_mod ncount c ltac:(lia)). lia.
Qed.

(* every chunk is a legal sample size *)
Theorem resample_chunks_nonneg : forall ncount chunk_size : Z, (0 < chunk_size)%Z ->
  Forall (fun s => (0 <= s)%Z) (chunk_sizes ncount chunk_size).
Proof.
  intros ncount c Hc. unfold chunk_sizes. apply Forall_forall. intros s Hs. apply in_map_iff in Hs.
  destruct Hs as [i [E _]]. destruct (Nat.eqb i _); subst s; [apply Z.mod_pos_bound; exact Hc|lia].
Qed.
