"""Regenerate gen/MultiformTables.v from tangelo/toolboxes/operators/multiformoperator.py (C16, shared with C14).

Extracted, by ast pattern matching only (nothing is imported or executed), fail closed:
  * the 4x4 phase table `c_calc` of MultiformOperator.__mul__ as Gaussian integers (re, im);
  * how it is indexed (c_calc[self.integer[i], other.integer]: row = left factor), that the words are combined
    with `^`, and the name of the numpy product function used (np.product / np.prod);
  * the ConvertPauli table `pauli_translation` (letter, integer, (x, z));
  * the bit arithmetic of integer_to_binary (x = integer >> 1, z = integer mod 2);
  * the reduction of do_commute when term_resolved is False (`not np.all(term_bool)` as written,
    `not np.any(term_bool)` when repaired) and with term_resolved (np.logical_not(term_bool)).
"""
import ast
from .common import parse, find_def, local_assign, TranslateError

SRC = "tangelo/toolboxes/operators/multiformoperator.py"
LETTERS = {"I": 0, "Z": 1, "X": 2, "Y": 3}


def _gauss(node):
    """int / complex constant, optionally negated -> (re, im) integers."""
    sign = 1
    if isinstance(node, ast.UnaryOp) and isinstance(node.op, ast.USub):
        sign, node = -1, node.operand
    if not (isinstance(node, ast.Constant) and isinstance(node.value, (int, float, complex))
            and not isinstance(node.value, bool)):
        raise TranslateError("c_calc: entry is not a numeric constant: %s" % ast.dump(node)[:80])
    v = complex(node.value) * sign
    if v.real != int(v.real) or v.imag != int(v.imag):
        raise TranslateError("c_calc: entry %r is not a Gaussian integer" % (v,))
    return int(v.real), int(v.imag)


def _attr_chain(node):
    """self.integer -> 'self.integer';  other_operator.integer -> 'other_operator.integer'"""
    parts = []
    while isinstance(node, ast.Attribute):
        parts.append(node.attr)
        node = node.value
    if isinstance(node, ast.Name):
        parts.append(node.id)
        return ".".join(reversed(parts))
    return None


def _sec_mul(tree, t):
    mul = find_def(tree, "__mul__", cls="MultiformOperator")
    other = mul.args.args[1].arg if len(mul.args.args) == 2 else None
    if other is None:
        raise TranslateError("MultiformOperator.__mul__: expected (self, other)")
    # ---- c_calc = np.array([[...]*4]*4, dtype=complex)
    cc = local_assign(mul, "c_calc")
    if not (isinstance(cc, ast.Call) and isinstance(cc.func, ast.Attribute) and cc.func.attr == "array"
            and cc.args and isinstance(cc.args[0], ast.List)):
        raise TranslateError("c_calc is not np.array([[...]])")
    rows = cc.args[0].elts
    if len(rows) != 4 or any(not isinstance(r, ast.List) or len(r.elts) != 4 for r in rows):
        raise TranslateError("c_calc is not a 4x4 literal")
    t["c_calc"] = [[_gauss(e) for e in r.elts] for r in rows]
    # ---- new_cs = c_calc[self.integer[term_i], other.integer]
    ncs = local_assign(mul, "new_cs")
    ok = (isinstance(ncs, ast.Subscript) and isinstance(ncs.value, ast.Name) and ncs.value.id == "c_calc"
          and isinstance(ncs.slice, ast.Tuple) and len(ncs.slice.elts) == 2)
    if ok:
        left, right = ncs.slice.elts
        ok = (isinstance(left, ast.Subscript) and _attr_chain(left.value) == "self.integer"
              and _attr_chain(right) == other + ".integer")
    if not ok:
        raise TranslateError("__mul__: new_cs is not c_calc[self.integer[i], other.integer]")
    # ---- product rows: integer ^ other.integer ; factors: self.factors[i] * other.factors * np.<prod>(new_cs, axis=1)
    xors = [n for n in ast.walk(mul) if isinstance(n, ast.BinOp) and isinstance(n.op, ast.BitXor)]
    if len(xors) != 1 or not (isinstance(xors[0].left, ast.Name) and _attr_chain(xors[0].right) == other + ".integer"):
        raise TranslateError("__mul__: expected exactly one `integer ^ other.integer`")
    loops = [n for n in ast.walk(mul) if isinstance(n, ast.For)]
    if len(loops) != 1 or not (isinstance(loops[0].iter, ast.Call) and isinstance(loops[0].iter.func, ast.Name)
                               and loops[0].iter.func.id == "enumerate"
                               and _attr_chain(loops[0].iter.args[0]) == "self.integer"):
        raise TranslateError("__mul__: expected one loop over enumerate(self.integer)")
    prods = [n for n in ast.walk(mul) if isinstance(n, ast.Call) and isinstance(n.func, ast.Attribute)
             and n.func.attr in ("product", "prod") and n.args and isinstance(n.args[0], ast.Name)
             and n.args[0].id == "new_cs"]
    if len(prods) != 1:
        raise TranslateError("__mul__: expected exactly one np.prod(new_cs, ...)")
    kw = {k.arg: k.value for k in prods[0].keywords}
    if not ("axis" in kw and isinstance(kw["axis"], ast.Constant) and kw["axis"].value == 1):
        raise TranslateError("__mul__: the phase product is not taken over axis=1")
    t["prod_name"] = prods[0].func.attr
    calls = [n for n in ast.walk(mul) if isinstance(n, ast.Call) and isinstance(n.func, ast.Attribute)
             and n.func.attr == "collapse"]
    if len(calls) != 1:
        raise TranslateError("__mul__: expected one call of collapse")
    # ---- collapse: drops abs(factors) > 0 only
    col = find_def(tree, "collapse", cls="MultiformOperator")
    cmp_ = [n for n in ast.walk(col) if isinstance(n, ast.Compare) and isinstance(n.ops[0], ast.Gt)
            and isinstance(n.comparators[0], ast.Constant) and n.comparators[0].value == 0
            and isinstance(n.left, ast.Call) and isinstance(n.left.func, ast.Name) and n.left.func.id == "abs"]
    if len(cmp_) != 1:
        raise TranslateError("collapse: expected the filter abs(factors) > 0")


def _sec_convert(tree, t):
    init = find_def(tree, "__init__", cls="ConvertPauli")
    pt = local_assign(init, "pauli_translation")
    if not isinstance(pt, ast.List) or len(pt.elts) != 4:
        raise TranslateError("pauli_translation is not a list of four rows")
    table = []
    for r in pt.elts:
        if not (isinstance(r, ast.List) and len(r.elts) == 3 and isinstance(r.elts[0], ast.Constant)
                and r.elts[0].value in LETTERS and isinstance(r.elts[1], ast.Constant)
                and type(r.elts[1].value) is int and isinstance(r.elts[2], ast.Tuple) and len(r.elts[2].elts) == 2
                and all(isinstance(b, ast.Constant) and b.value in (0, 1) for b in r.elts[2].elts)):
            raise TranslateError("pauli_translation: unexpected row %s" % ast.dump(r)[:100])
        if r.elts[1].value < 0:
            raise TranslateError("pauli_translation: negative integer code")
        table.append((r.elts[0].value, r.elts[1].value, tuple(int(b.value) for b in r.elts[2].elts)))
    t["pauli_translation"] = table


def _sec_binary(tree, t):
    itb = find_def(tree, "integer_to_binary")
    arg = itb.args.args[0].arg
    bx = local_assign(itb, "binary_x")
    bz = local_assign(itb, "binary_z")

    def strip_astype(n):
        if isinstance(n, ast.Call) and isinstance(n.func, ast.Attribute) and n.func.attr == "astype":
            return n.func.value
        return n
    bx, bz = strip_astype(bx), strip_astype(bz)
    if not (isinstance(bx, ast.BinOp) and isinstance(bx.op, ast.RShift) and isinstance(bx.left, ast.Name)
            and bx.left.id == arg and isinstance(bx.right, ast.Constant) and bx.right.value == 1):
        raise TranslateError("integer_to_binary: binary_x is not integer >> 1")
    if not (isinstance(bz, ast.Call) and isinstance(bz.func, ast.Attribute) and bz.func.attr == "mod"
            and isinstance(bz.args[0], ast.Name) and bz.args[0].id == arg
            and isinstance(bz.args[1], ast.Constant) and bz.args[1].value == 2):
        raise TranslateError("integer_to_binary: binary_z is not np.mod(integer, 2)")
    conc = [n for n in ast.walk(itb) if isinstance(n, ast.Call) and isinstance(n.func, ast.Attribute)
            and n.func.attr == "concatenate"]
    if len(conc) != 1 or not (isinstance(conc[0].args[0], ast.Tuple)
                              and [getattr(e, "id", None) for e in conc[0].args[0].elts] == ["binary_x", "binary_z"]):
        raise TranslateError("integer_to_binary: expected concatenate((binary_x, binary_z))")


def _sec_commute(tree, t):
    dc = find_def(tree, "do_commute")
    rets = [n for n in ast.walk(dc) if isinstance(n, ast.Return)]
    if len(rets) != 2:
        raise TranslateError("do_commute: expected two return statements")
    red = None
    resolved = None
    for r in rets:
        v = r.value
        if isinstance(v, ast.UnaryOp) and isinstance(v.op, ast.Not) and isinstance(v.operand, ast.Call) \
                and isinstance(v.operand.func, ast.Attribute) and v.operand.func.attr in ("all", "any") \
                and len(v.operand.args) == 1 and isinstance(v.operand.args[0], ast.Name) \
                and v.operand.args[0].id == "term_bool":
            red = v.operand.func.attr
        elif isinstance(v, ast.Call) and isinstance(v.func, ast.Attribute) and v.func.attr == "logical_not" \
                and isinstance(v.args[0], ast.Name) and v.args[0].id == "term_bool":
            resolved = "logical_not"
    if red is None or resolved is None:
        raise TranslateError("do_commute: return expressions not recognised")
    t["commute_reduction"] = red
    # term_bool[index] = np.logical_or.reduce(np.logical_xor.reduce(term & b.binary, axis=1)) over a.binary_swap
    src = ast.unparse(dc)
    for needle in ("binary_swap", "logical_or.reduce", "logical_xor.reduce", ".binary"):
        if needle not in src:
            raise TranslateError("do_commute: %s not found" % needle)


_INDEX_DTYPE_MAX = {"int8": 2 ** 7 - 1, "uint8": 2 ** 8 - 1, "int16": 2 ** 15 - 1, "uint16": 2 ** 16 - 1,
                    "int32": 2 ** 31 - 1, "uint32": 2 ** 32 - 1, "short": 2 ** 15 - 1, "byte": 2 ** 7 - 1, "ubyte": 2 ** 8 - 1}
_INDEX_DTYPE_WIDE = {"int", "int64", "intp", "int_", "uint64", "longlong"}


def _sec_collapse(tree, t):
    """collapse appends the row number as an extra column before sorting:
         all_terms = np.concatenate((operator, np.linspace(0, len(operator) - 1, len(operator), dtype=D).reshape(...)), axis=1)
       and uses it to index `factors`.  D decides how many rows can be numbered: Python int / 64-bit -> no bound below
       anything numpy can hold (None); a small fixed dtype -> its maximum; the dtype of the argument -> 127 (the array form
       is documented and produced as int8, the smallest dtype the function accepts)."""
    col = find_def(tree, "collapse", cls="MultiformOperator")
    arg = col.args.args[0].arg
    at = local_assign(col, "all_terms")
    lins = [n for n in ast.walk(at) if isinstance(n, ast.Call) and isinstance(n.func, ast.Attribute) and n.func.attr in ("linspace", "arange")]
    if not (isinstance(at, ast.Call) and isinstance(at.func, ast.Attribute) and at.func.attr == "concatenate" and len(lins) == 1):
        raise TranslateError("collapse: all_terms is not np.concatenate((operator, <row numbers>), axis=1)")
    kw = {k.arg: k.value for k in lins[0].keywords}
    if "dtype" not in kw:
        raise TranslateError("collapse: the row-number column has no explicit dtype (linspace would give floats)")
    d = kw["dtype"]
    name = d.id if isinstance(d, ast.Name) else (d.attr if isinstance(d, ast.Attribute) else
                                                  (d.value if isinstance(d, ast.Constant) and isinstance(d.value, str) else None))
    if isinstance(d, ast.Attribute) and d.attr == "dtype" and _attr_chain(d) == arg + ".dtype":
        t["collapse_index_max"] = 2 ** 7 - 1
        t["collapse_index_dtype"] = arg + ".dtype"
    elif name in _INDEX_DTYPE_WIDE:
        t["collapse_index_max"] = None
        t["collapse_index_dtype"] = name
    elif name in _INDEX_DTYPE_MAX:
        t["collapse_index_max"] = _INDEX_DTYPE_MAX[name]
        t["collapse_index_dtype"] = name
    else:
        raise TranslateError("collapse: dtype of the row-number column not recognised: %s" % ast.unparse(d))
    # the column must be what indexes the factors
    src = ast.unparse(col)
    if "factors[sorted_terms[:, -1]]" not in src:
        raise TranslateError("collapse: factors are no longer picked through the row-number column (sorted_terms[:, -1])")


def _assigned_self_attrs(fn):
    out = []
    for n in ast.walk(fn):
        tg = n.targets if isinstance(n, ast.Assign) else ([n.target] if isinstance(n, ast.AugAssign) else [])
        for t_ in tg:
            for e in (t_.elts if isinstance(t_, (ast.Tuple, ast.List)) else [t_]):
                if isinstance(e, ast.Attribute) and isinstance(e.value, ast.Name) and e.value.id == "self":
                    out.append((e.attr, n.value))
    return out


def _sec_inplace(tree, t):
    """The in-place methods of MultiformOperator keep several redundant forms (factors, integer, binary, binary_swap,
    terms).  Extracted: for remove_terms, the attributes that receive a SHORTENED array -- self.X = np.delete(self.X, idx,
    axis=0) or self.X = self.X[mask] -- plus `terms` when it is rebuilt from (self.integer, self.factors); for _update,
    the attributes it assigns.  props/C16.v requires all forms to be in these lists."""
    rt = find_def(tree, "remove_terms", cls="MultiformOperator")
    upd = []
    for attr, v in _assigned_self_attrs(rt):
        ok = False
        if isinstance(v, ast.Call) and isinstance(v.func, ast.Attribute) and v.func.attr == "delete" and v.args \
                and _attr_chain(v.args[0]) == "self." + attr:
            kw = {k.arg: k.value for k in v.keywords}
            ok = "axis" in kw and isinstance(kw["axis"], ast.Constant) and kw["axis"].value == 0
        elif isinstance(v, ast.Subscript) and _attr_chain(v.value) == "self." + attr:
            ok = True
        elif attr == "terms" and isinstance(v, ast.Call) and isinstance(v.func, ast.Name) \
                and v.func.id == "integer_to_qubit_terms" and [_attr_chain(a) for a in v.args] == ["self.integer", "self.factors"]:
            ok = True
        if not ok:
            raise TranslateError("remove_terms: unexpected assignment to self.%s: %s" % (attr, ast.unparse(v)[:80]))
        upd.append(attr)
    t["remove_terms_updates"] = sorted(set(upd))
    up = find_def(tree, "_update", cls="MultiformOperator")
    t["update_assigns"] = sorted(set(a for a, _ in _assigned_self_attrs(up)))
    cp = find_def(tree, "compress", cls="MultiformOperator")
    if "self._update(" not in ast.unparse(cp):
        raise TranslateError("compress no longer calls self._update")


SECTIONS = [("__mul__", _sec_mul), ("collapse", _sec_collapse), ("in-place methods", _sec_inplace), ("ConvertPauli", _sec_convert), ("integer_to_binary", _sec_binary),
            ("do_commute", _sec_commute)]

# last known good content of every section (tree at the `fix:` commits for C16); used ONLY to keep the
# search going when a section is no longer recognised -- the check reports the translator failure and
# labels everything computed from these values as "fallback" in the evidence
FALLBACK = {
    "c_calc": [[(1, 0), (1, 0), (1, 0), (1, 0)], [(1, 0), (1, 0), (0, 1), (0, -1)],
               [(1, 0), (0, -1), (1, 0), (0, 1)], [(1, 0), (0, 1), (0, -1), (1, 0)]],
    "prod_name": "prod",
    "pauli_translation": [("I", 0, (0, 0)), ("Z", 1, (0, 1)), ("X", 2, (1, 0)), ("Y", 3, (1, 1))],
    "commute_reduction": "any",
    "collapse_index_max": None,
    "collapse_index_dtype": "int",
    "remove_terms_updates": ["binary", "binary_swap", "factors", "integer", "terms"],
    "update_assigns": ["binary", "binary_swap", "factors", "integer", "kernel", "n_qubits"],
}


def extract(repo):
    """Strict: any unrecognised section raises TranslateError."""
    tree = parse(repo / SRC)
    t = {}
    for _, f in SECTIONS:
        f(tree, t)
    return t


def extract_lenient(repo):
    """(tables, [(section, message)]): sections that are not recognised are filled from FALLBACK."""
    errors = []
    t = {}
    try:
        tree = parse(repo / SRC)
    except TranslateError as e:
        return dict(FALLBACK), [("parse", str(e))]
    for name, f in SECTIONS:
        part = {}
        try:
            f(tree, part)
            t.update(part)
        except TranslateError as e:
            errors.append((name, str(e)))
        except Exception as e:       # an ast shape the matcher did not anticipate: still fail closed
            errors.append((name, "unexpected source shape: %r" % (e,)))
    for k, v in FALLBACK.items():
        t.setdefault(k, v)
    return t, errors


def emit(t, fallback=()):
    def g(p):
        return "(%d, %d)%%Z" % p
    L = ["(* GENERATED by translator/multiform_tables.py from %s — do not edit%s *)" % (
        SRC, "; FALLBACK (last known good) values for: " + ", ".join(fallback) if fallback else ""),
         "From Coq Require Import ZArith NArith List String.",
         "Import ListNotations.", "",
         "(* c_calc[a][b] of MultiformOperator.__mul__ as Gaussian integers (re, im); row = left factor *)",
         "Definition c_calc_tab : list (list (Z * Z)) :=",
         "  [" + ";\n   ".join("[" + "; ".join(g(e) for e in row) + "]" for row in t["c_calc"]) + "].", "",
         "(* ConvertPauli.pauli_translation: (letter I=0 Z=1 X=2 Y=3, integer, (x bit, z bit)) *)",
         "Definition pauli_translation : list (nat * N * (bool * bool)) :=",
         "  [" + "; ".join("(%d%%nat, %d%%N, (%s, %s))" % (LETTERS[l], n, "true" if b[0] else "false",
                                                            "true" if b[1] else "false")
                           for (l, n, b) in t["pauli_translation"]) + "].", "",
         "(* `not np.all(term_bool)` (true) or `not np.any(term_bool)` (false) in do_commute *)",
         "Definition do_commute_reduces_with_all : bool := %s." % ("true" if t["commute_reduction"] == "all" else "false"),
         'Definition phase_product_function : string := "%s"%%string.' % t["prod_name"], "",
         "(* largest row number the index column of MultiformOperator.collapse can hold (dtype %s); None = no bound *)" % t["collapse_index_dtype"],
         "(* attributes shortened / rebuilt by remove_terms, attributes assigned by _update *)",
         "Definition remove_terms_updates : list string := [%s]%%string." % "; ".join('"%s"' % a for a in t["remove_terms_updates"]),
         "Definition update_assigns : list string := [%s]%%string." % "; ".join('"%s"' % a for a in t["update_assigns"]),
         "Definition collapse_index_max : option N := %s." % (
             "None" if t["collapse_index_max"] is None else "Some %d%%N" % t["collapse_index_max"])]
    return "\n".join(L) + "\n"
