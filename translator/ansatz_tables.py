"""Facts about tangelo/toolboxes/ansatz_generator/vsqs.py that select the Coq model variant of C07 (DESIGN §4.1, §5.2).

Parsed with `ast` only (nothing is imported or executed), fail closed:

  vsqs_build_drops         do the VARIATIONAL pieces of VSQS.build_circuit (the calls inside `for i in range(self.intervals-1)`)
                           go through a function that omits terms with a negligible angle?
                             get_exponentiated_qubit_operator_circuit(..., variational=True, ...)   -> True, provided that
                                 function still guards exp_pauliword_to_gates with `if abs(np.real(coef)) > <const>`
                             self._variational_evolution(...) whose body is
                                 timed = recursive_trotter_suzuki_decomposition(qu_op_list, self.trotter_order, time)
                                 return Circuit([gate for pauli_word, coef in timed for gate in exp_pauliword_to_gates(pauli_word, coef, variational=True)])
                                 (no filter in the comprehension)                                   -> False
  vsqs_update_size_test    does VSQS.update_var_params start with self.set_var_params(var_params)?
  vsqs_update_offsets_ref  are the block offsets counted from
                             n_ref = len(self.circuit._variational_gates) - self.n_var_gates * (self.intervals - 1)   -> True
                           or from gate 0 (`self.n_var_gates * i + ...`)                                               -> False

emit() writes Gen.AnsatzFacts.  FALLBACK holds the facts of the tree this check was last adapted to; the check uses it
(after reporting the translator failure) so that the implementation-only oracles still run.
"""
import ast

from translator.common import TranslateError, parse, find_def

VSQS = "tangelo/toolboxes/ansatz_generator/vsqs.py"
UTILS = "tangelo/toolboxes/ansatz_generator/ansatz_utils.py"

FALLBACK = {"vsqs_build_drops": False, "vsqs_update_size_test": True, "vsqs_update_offsets_ref": True}


def _u(node):
    return ast.unparse(node).replace(" ", "")


def _utils_guard(repo):
    """get_exponentiated_qubit_operator_circuit omits negligible terms: `if abs(np.real(coef)) > c:` around exp_pauliword_to_gates."""
    fn = find_def(parse(repo / UTILS), "get_exponentiated_qubit_operator_circuit")
    for n in ast.walk(fn):
        if isinstance(n, ast.If) and _u(n.test).startswith("abs(np.real(coef))>") and "exp_pauliword_to_gates" in _u(n):
            return True
    return False


def _helper_emits_all(tree, name):
    fn = find_def(tree, name, cls="VSQS")
    body = [s for s in fn.body if not (isinstance(s, ast.Expr) and isinstance(s.value, ast.Constant))]
    if len(body) != 2 or not isinstance(body[0], ast.Assign) or not isinstance(body[1], ast.Return):
        raise TranslateError("VSQS.%s: expected `x = recursive_trotter_suzuki_decomposition(...)` then `return Circuit([...])`" % name)
    if not _u(body[0].value).startswith("recursive_trotter_suzuki_decomposition("):
        raise TranslateError("VSQS.%s: first statement is %s" % (name, ast.unparse(body[0])))
    ret = body[1].value
    if not (isinstance(ret, ast.Call) and _u(ret.func) == "Circuit" and len(ret.args) == 1 and isinstance(ret.args[0], ast.ListComp)):
        raise TranslateError("VSQS.%s: return value is not Circuit([<comprehension>])" % name)
    comp = ret.args[0]
    if any(g.ifs for g in comp.generators):
        raise TranslateError("VSQS.%s: the gate comprehension filters terms (%s): emitted-gate count unknown" % (name, ast.unparse(comp)))
    if len(comp.generators) != 2 or "exp_pauliword_to_gates(" not in _u(comp.generators[1].iter) or "variational=True" not in _u(comp.generators[1].iter):
        raise TranslateError("VSQS.%s: unexpected comprehension %s" % (name, ast.unparse(comp)))
    return True


def _build_drops(repo):
    tree = parse(repo / VSQS)
    fn = find_def(tree, "build_circuit", cls="VSQS")
    loops = [n for n in fn.body if isinstance(n, ast.For) and _u(n.iter) == "range(self.intervals-1)"]
    if len(loops) != 1:
        raise TranslateError("VSQS.build_circuit: loop `for i in range(self.intervals-1)` not found exactly once")
    calls = [n.value for n in ast.walk(loops[0]) if isinstance(n, ast.AugAssign) and isinstance(n.op, ast.Add) and isinstance(n.value, ast.Call)]
    if len(calls) != 3:
        raise TranslateError("VSQS.build_circuit: expected 3 `vsqs_circuit += <call>` in the interval loop, found %d" % len(calls))
    kinds = set()
    for c in calls:
        f = _u(c.func)
        if f == "get_exponentiated_qubit_operator_circuit":
            if not any(k.arg == "variational" and isinstance(k.value, ast.Constant) and k.value.value is True for k in c.keywords):
                raise TranslateError("VSQS.build_circuit: non-variational piece inside the interval loop: %s" % ast.unparse(c))
            kinds.add("generic")
        elif f.startswith("self.") and isinstance(c.func, ast.Attribute):
            _helper_emits_all(tree, c.func.attr)
            kinds.add("helper")
        else:
            raise TranslateError("VSQS.build_circuit: unrecognised builder of a variational piece: %s" % ast.unparse(c))
    if len(kinds) != 1:
        raise TranslateError("VSQS.build_circuit: variational pieces are built in different ways: %s" % sorted(kinds))
    if kinds == {"helper"}:
        return False
    return _utils_guard(repo)


def _update_facts(repo):
    fn = find_def(parse(repo / VSQS), "update_var_params", cls="VSQS")
    body = [s for s in fn.body if not (isinstance(s, ast.Expr) and isinstance(s.value, ast.Constant))]
    size_test = bool(body) and "self.set_var_params(var_params)" in _u(body[0]) and isinstance(body[0], (ast.Expr, ast.Assign))
    if any("set_var_params" in _u(s) for s in body[1:]):
        raise TranslateError("VSQS.update_var_params: set_var_params is called but not first")
    nref = [s for s in body if isinstance(s, ast.Assign) and _u(s.targets[0]) == "n_ref"]
    calls = [n for n in ast.walk(fn) if isinstance(n, ast.Call) and _u(n.func) == "self._update_gate_params_for_qu_op"]
    if len(calls) != 3 or any(len(c.args) != 4 for c in calls):
        raise TranslateError("VSQS.update_var_params: expected 3 calls of _update_gate_params_for_qu_op with 4 arguments")
    starts = [_u(c.args[1]) for c in calls]
    if nref:
        if len(nref) != 1 or _u(nref[0].value) != "len(self.circuit._variational_gates)-self.n_var_gates*(self.intervals-1)":
            raise TranslateError("VSQS.update_var_params: unexpected n_ref: %s" % ast.unparse(nref[0]))
        ns = [s for s in ast.walk(fn) if isinstance(s, ast.Assign) and _u(s.targets[0]) == "n_start"]
        if len(ns) != 1 or _u(ns[0].value) != "n_ref+self.n_var_gates*i":
            raise TranslateError("VSQS.update_var_params: n_start is not n_ref + self.n_var_gates * i")
        exp = ["n_start", "n_start+self.n_h_init*self.trotter_order", "n_start+(self.n_h_init+self.n_h_final)*self.trotter_order"]
        if starts != exp:
            raise TranslateError("VSQS.update_var_params: block offsets %s" % starts)
        return size_test, True
    exp = ["self.n_var_gates*i", "self.n_var_gates*i+self.n_h_init*self.trotter_order",
           "self.n_var_gates*i+(self.n_h_init+self.n_h_final)*self.trotter_order"]
    if starts != exp:
        raise TranslateError("VSQS.update_var_params: block offsets %s" % starts)
    return size_test, False


def extract(repo):
    st, off = _update_facts(repo)
    return {"vsqs_build_drops": _build_drops(repo), "vsqs_update_size_test": st, "vsqs_update_offsets_ref": off}


def emit(facts):
    b = lambda x: "true" if x else "false"
    return ("(* generated by translator/ansatz_tables.py from tangelo/toolboxes/ansatz_generator/vsqs.py — do not edit *)\n"
            "Definition vsqs_build_drops : bool := %s.\n"
            "Definition vsqs_update_size_test : bool := %s.\n"
            "Definition vsqs_update_offsets_ref : bool := %s.\n" % (
                b(facts["vsqs_build_drops"]), b(facts["vsqs_update_size_test"]), b(facts["vsqs_update_offsets_ref"])))
