"""Regenerate gen/SymmetryTables.v (C12) from
     tangelo/toolboxes/ansatz_generator/_general_unitary_cc.py   get_spin_ordered: index expressions
     tangelo/toolboxes/ansatz_generator/fermionic_operators.py   term patterns + coefficients of N, Sz, S^2
   and check (fail closed) the shapes of penalty_terms.py and operators.squared_normal_ordered that the
   hand-written model coq/theories/Fermion/Penalty.v relies on.

Nothing is imported or executed; the Python text is parsed with `ast`.  A pattern is a list of slots
(second orbital variable?, spin down?, creation?) with a coefficient +-(1/2)^k.
"""
import ast
from fractions import Fraction

from .common import parse, find_def, TranslateError

GUCC = "tangelo/toolboxes/ansatz_generator/_general_unitary_cc.py"
FOPS = "tangelo/toolboxes/ansatz_generator/fermionic_operators.py"
PEN = "tangelo/toolboxes/ansatz_generator/penalty_terms.py"
OPS = "tangelo/toolboxes/operators/operators.py"


def _d(n):
    return ast.dump(n)[:160]


# ------------------------------------------------------------------------------- get_spin_ordered
def _index_expr(node, pname, nname):
    """Python index expression over {pname, nname, int constants, +, *} -> Coq N expression text."""
    if isinstance(node, ast.Name):
        if node.id == pname:
            return "p"
        if node.id == nname:
            return "n"
        raise TranslateError("get_spin_ordered: unexpected name %s in index expression" % node.id)
    if isinstance(node, ast.Constant) and type(node.value) is int and node.value >= 0:
        return str(node.value)
    if isinstance(node, ast.BinOp) and isinstance(node.op, (ast.Add, ast.Mult)):
        op = "+" if isinstance(node.op, ast.Add) else "*"
        a, b = _index_expr(node.left, pname, nname), _index_expr(node.right, pname, nname)
        # Python precedence is already in the tree; parenthesise products inside sums only where needed
        if op == "*":
            a = "(%s)" % a if isinstance(node.left, ast.BinOp) else a
            b = "(%s)" % b if isinstance(node.right, ast.BinOp) else b
        else:
            b = "(%s)" % b if isinstance(node.right, ast.BinOp) and isinstance(node.right.op, ast.Add) else b
        return "%s %s %s" % (a, op, b)
    raise TranslateError("get_spin_ordered: unsupported index expression %s" % _d(node))


def extract_spin_ordered(tree):
    fn = find_def(tree, "get_spin_ordered")
    args = [a.arg for a in fn.args.args]
    if args[:6] != ["n_orbs", "pp", "qq", "rr", "ss", "up_down"]:
        raise TranslateError("get_spin_ordered: unexpected signature %s" % args)
    params = args[1:5]
    ifs = [n for n in fn.body if isinstance(n, ast.If) and isinstance(n.test, ast.Name) and n.test.id == "up_down"]
    if len(ifs) != 1:
        raise TranslateError("get_spin_ordered: `if up_down:` not found exactly once")

    def branch(stmts, which):
        out = {}
        for st in stmts:
            if not (isinstance(st, ast.Assign) and len(st.targets) == 1 and isinstance(st.targets[0], ast.Name)
                    and st.targets[0].id in ("up", "down") and isinstance(st.value, ast.Tuple) and len(st.value.elts) == 4):
                raise TranslateError("get_spin_ordered: unexpected statement in %s branch: %s" % (which, _d(st)))
            exprs = [_index_expr(e, params[k], "n_orbs") for k, e in enumerate(st.value.elts)]
            if len(set(exprs)) != 1:
                raise TranslateError("get_spin_ordered: %s is not the same expression for every index: %s" % (st.targets[0].id, exprs))
            out[st.targets[0].id] = exprs[0]
        if sorted(out) != ["down", "up"]:
            raise TranslateError("get_spin_ordered: %s branch does not assign exactly up and down" % which)
        return out
    t = {"ud": branch(ifs[0].body, "up_down"), "il": branch(ifs[0].orelse, "interleaved")}
    # two-index form: `if rr < 0: return up[:2], down[:2]`
    ok = False
    for n in fn.body:
        if isinstance(n, ast.If) and isinstance(n.test, ast.Compare) and isinstance(n.test.left, ast.Name) \
                and n.test.left.id == "rr" and isinstance(n.test.ops[0], ast.Lt) and len(n.body) == 1 \
                and isinstance(n.body[0], ast.Return) and ast.unparse(n.body[0].value) == _norm("(up[:2], down[:2])"):
            ok = True
    if not ok:
        raise TranslateError("get_spin_ordered: two-index return `up[:2], down[:2]` not found")
    dflt = dict(zip(args[-len(fn.args.defaults):], fn.args.defaults))
    for nm in ("rr", "ss"):
        v = dflt.get(nm)
        if not (isinstance(v, ast.UnaryOp) and isinstance(v.op, ast.USub) and isinstance(v.operand, ast.Constant)):
            raise TranslateError("get_spin_ordered: default of %s is not negative" % nm)
    # the last `return up, down`
    last = fn.body[-1]
    if not (isinstance(last, ast.Return) and ast.unparse(last.value) == _norm("(up, down)")):
        raise TranslateError("get_spin_ordered: final `return up, down` not found")
    return t


# ------------------------------------------------------------------------------- term patterns
def _coef(node):
    def ev(n):
        if isinstance(n, ast.Constant) and type(n.value) in (int, float):
            return Fraction(n.value)
        if isinstance(n, ast.UnaryOp) and isinstance(n.op, ast.USub):
            return -ev(n.operand)
        if isinstance(n, ast.BinOp) and isinstance(n.op, ast.Div):
            b = ev(n.right)
            if b == 0:
                raise TranslateError("division by zero in coefficient")
            return ev(n.left) / b
        if isinstance(n, ast.BinOp) and isinstance(n.op, ast.Mult):
            return ev(n.left) * ev(n.right)
        raise TranslateError("unsupported coefficient expression %s" % _d(n))
    v = ev(node)
    k, x = 0, abs(v)
    while x != 1 and k < 16:
        x *= 2
        k += 1
    if x != 1:
        raise TranslateError("coefficient %s is not of the form +-(1/2)^k" % v)
    return (v < 0, k)


def _spin_assign(st, env, loopvars):
    """`a, b = get_spin_ordered(n_orbs, v0, v1, up_down=up_then_down)` -> env[a] = (down?, [v0, v1])"""
    if not (isinstance(st, ast.Assign) and len(st.targets) == 1 and isinstance(st.targets[0], ast.Tuple)
            and len(st.targets[0].elts) == 2 and all(isinstance(e, ast.Name) for e in st.targets[0].elts)
            and isinstance(st.value, ast.Call) and isinstance(st.value.func, ast.Name)
            and st.value.func.id == "get_spin_ordered"):
        raise TranslateError("expected `up, dn = get_spin_ordered(...)`, got %s" % _d(st))
    c = st.value
    if len(c.args) != 3 or not (isinstance(c.args[0], ast.Name) and c.args[0].id == "n_orbs"):
        raise TranslateError("get_spin_ordered call: expected (n_orbs, i, j, up_down=...), got %s" % ast.unparse(c))
    vs = []
    for a in c.args[1:]:
        if not (isinstance(a, ast.Name) and a.id in loopvars):
            raise TranslateError("get_spin_ordered call: index %s is not a loop variable" % ast.unparse(a))
        vs.append(a.id)
    kw = {k.arg: k.value for k in c.keywords}
    if list(kw) != ["up_down"] or not (isinstance(kw["up_down"], ast.Name) and kw["up_down"].id == "up_then_down"):
        raise TranslateError("get_spin_ordered call: expected up_down=up_then_down")
    up, dn = st.targets[0].elts
    env[up.id] = (False, vs)
    env[dn.id] = (True, vs)


def _extend_patterns(st, env, loopvars):
    """`all_terms.extend([[((x[k], a), ...), coef], ...])` -> list of (slots, coef)"""
    if not (isinstance(st, ast.Expr) and isinstance(st.value, ast.Call) and isinstance(st.value.func, ast.Attribute)
            and st.value.func.attr == "extend" and isinstance(st.value.func.value, ast.Name)
            and st.value.func.value.id == "all_terms" and len(st.value.args) == 1
            and isinstance(st.value.args[0], ast.List)):
        raise TranslateError("expected all_terms.extend([...]), got %s" % _d(st))
    pats = []
    for item in st.value.args[0].elts:
        if not (isinstance(item, ast.List) and len(item.elts) == 2 and isinstance(item.elts[0], ast.Tuple)):
            raise TranslateError("term is not [ (ladders...), coefficient ]: %s" % _d(item))
        slots = []
        for lad in item.elts[0].elts:
            if not (isinstance(lad, ast.Tuple) and len(lad.elts) == 2 and isinstance(lad.elts[0], ast.Subscript)
                    and isinstance(lad.elts[0].value, ast.Name) and isinstance(lad.elts[0].slice, ast.Constant)
                    and lad.elts[0].slice.value in (0, 1)
                    and isinstance(lad.elts[1], ast.Constant) and lad.elts[1].value in (0, 1)):
                raise TranslateError("ladder is not (name[0|1], 0|1): %s" % _d(lad))
            nm = lad.elts[0].value.id
            if nm not in env:
                raise TranslateError("ladder uses %s which is not bound by get_spin_ordered" % nm)
            down, vs = env[nm]
            var = vs[lad.elts[0].slice.value]
            slots.append((loopvars.index(var) == 1, down, lad.elts[1].value == 1))
        pats.append((slots, _coef(item.elts[1])))
    return pats


def _range_loop(st, what):
    if not (isinstance(st, ast.For) and isinstance(st.target, ast.Name) and isinstance(st.iter, ast.Call)
            and isinstance(st.iter.func, ast.Name) and st.iter.func.id == "range" and len(st.iter.args) == 1
            and isinstance(st.iter.args[0], ast.Name) and st.iter.args[0].id == "n_orbs" and not st.orelse):
        raise TranslateError("%s: expected `for v in range(n_orbs):`, got %s" % (what, _d(st)))
    return st.target.id


def _list_fn_frame(fn):
    """all_terms = list(); <for>; return all_terms   (docstring allowed) -> the for statement"""
    body = [s for s in fn.body if not (isinstance(s, ast.Expr) and isinstance(s.value, ast.Constant))]
    if [a.arg for a in fn.args.args] != ["n_orbs", "up_then_down"]:
        raise TranslateError("%s: unexpected signature" % fn.name)
    if len(body) != 3 or ast.unparse(body[0]) != "all_terms = list()" or ast.unparse(body[2]) != "return all_terms":
        raise TranslateError("%s: expected `all_terms = list(); for ...; return all_terms`" % fn.name)
    return body[1]


def extract_single(tree, name):
    fn = find_def(tree, name)
    loop = _list_fn_frame(fn)
    i = _range_loop(loop, name)
    if len(loop.body) != 2:
        raise TranslateError("%s: loop body is not [get_spin_ordered; extend]" % name)
    env = {}
    _spin_assign(loop.body[0], env, [i])
    return _extend_patterns(loop.body[1], env, [i])


def extract_spin2(tree):
    name = "spin2_operator_list"
    fn = find_def(tree, name)
    loop = _list_fn_frame(fn)
    i = _range_loop(loop, name)
    if len(loop.body) != 3:
        raise TranslateError("%s: outer loop body is not [get_spin_ordered; extend; for j]" % name)
    env = {}
    _spin_assign(loop.body[0], env, [i])
    same = _extend_patterns(loop.body[1], env, [i])
    inner = loop.body[2]
    j = _range_loop(inner, name + " (inner)")
    if j == i:
        raise TranslateError("%s: inner loop reuses the outer loop variable" % name)
    if not (len(inner.body) == 1 and isinstance(inner.body[0], ast.If) and not inner.body[0].orelse):
        raise TranslateError("%s: inner loop body is not a single `if`" % name)
    cond = inner.body[0]
    t = cond.test
    if not (isinstance(t, ast.Compare) and len(t.ops) == 1 and isinstance(t.ops[0], ast.NotEq)
            and isinstance(t.left, ast.Name) and isinstance(t.comparators[0], ast.Name)
            and {t.left.id, t.comparators[0].id} == {i, j}):
        raise TranslateError("%s: inner condition is not `i != j`: %s" % (name, ast.unparse(t)))
    if len(cond.body) != 2:
        raise TranslateError("%s: inner `if` body is not [get_spin_ordered; extend]" % name)
    _spin_assign(cond.body[0], env, [i, j])
    cross = _extend_patterns(cond.body[1], env, [i, j])
    return same, cross


def check_wrappers(tree):
    """number_operator etc.: list -> list_to_fermionoperator -> normal_ordered"""
    for nm in ("number_operator", "spinz_operator", "spin2_operator"):
        fn = find_def(tree, nm)
        body = [s for s in fn.body if not (isinstance(s, ast.Expr) and isinstance(s.value, ast.Constant))]
        src = [ast.unparse(s) for s in body]
        if len(src) != 3 or src[0] != "all_terms = %s_list(n_orbs, up_then_down)" % nm \
                or not src[1].endswith("= list_to_fermionoperator(all_terms)") \
                or not (src[2].startswith("return normal_ordered(") and src[2][len("return normal_ordered("):-1] == src[1].split(" = ")[0]):
            raise TranslateError("%s: expected list -> list_to_fermionoperator -> normal_ordered, got %s" % (nm, src))


def _norm(src):
    """source text -> the running interpreter's ast.unparse normal form"""
    return ast.unparse(ast.parse(src))


def check_penalties(pen, ops):
    shapes = {"number_operator_penalty": ("n_electrons", "number_operator_list"),
              "spin_operator_penalty": ("sz", "spinz_operator_list"),
              "spin2_operator_penalty": ("s2", "spin2_operator_list")}
    for nm, (tgt, lst) in shapes.items():
        fn = find_def(pen, nm)
        if [a.arg for a in fn.args.args] != ["n_orbs", tgt, "mu", "up_then_down"]:
            raise TranslateError("%s: unexpected signature" % nm)
        body = [ast.unparse(s) for s in fn.body if not (isinstance(s, ast.Expr) and isinstance(s.value, ast.Constant))]
        want = [_norm("all_terms = [[(), -%s]] + %s(n_orbs, up_then_down)" % (tgt, lst)),
                "return mu * squared_normal_ordered(all_terms)"]
        if body != want:
            raise TranslateError("%s: expected %s, got %s" % (nm, want, body))
    sq = find_def(ops, "squared_normal_ordered")
    body = [ast.unparse(s) for s in sq.body if not (isinstance(s, ast.Expr) and isinstance(s.value, ast.Constant))]
    if body != ["fe_op = list_to_fermionoperator(all_terms)", "fe_op *= fe_op", "return normal_ordered(fe_op)"]:
        raise TranslateError("squared_normal_ordered: unexpected body %s" % body)
    l2f = find_def(ops, "list_to_fermionoperator")
    body = [ast.unparse(s) for s in l2f.body if not (isinstance(s, ast.Expr) and isinstance(s.value, ast.Constant))]
    if body != ["fe_op = FermionOperator()", "for item in all_terms:\n    fe_op += FermionOperator(item[0], item[1])",
                "return fe_op"]:
        raise TranslateError("list_to_fermionoperator: unexpected body %s" % body)
    # combined_penalty: each part enters iff its prefactor is > 0, with (prefactor, value) = entry[:]
    cp = find_def(pen, "combined_penalty")
    parts = []
    for st in cp.body:
        if isinstance(st, ast.If) and isinstance(st.test, ast.Compare) and isinstance(st.test.ops[0], ast.Gt):
            parts.append((ast.unparse(st.test), [ast.unparse(s) for s in st.body]))
    want = []
    for key, tgt, f in (("N", "n_electrons", "number_operator_penalty"), ("Sz", "sz", "spin_operator_penalty"),
                        ("S^2", "s2", "spin2_operator_penalty")):
        want.append((_norm("penalty_terms['%s'][0] > 0" % key),
                     [_norm("prefactor, %s = penalty_terms['%s'][:]" % (tgt, key)),
                      _norm("pen_ferm += %s(n_orbs, %s, mu=prefactor, up_then_down=up_then_down)" % (f, tgt))]))
    if parts != want:
        raise TranslateError("combined_penalty: unexpected structure %s" % parts)


def extract(repo):
    g = parse(repo / GUCC)
    f = parse(repo / FOPS)
    t = {"index": extract_spin_ordered(g)}
    t["number"] = extract_single(f, "number_operator_list")
    t["spinz"] = extract_single(f, "spinz_operator_list")
    t["spin2_same"], t["spin2_cross"] = extract_spin2(f)
    check_wrappers(f)
    check_penalties(parse(repo / PEN), parse(repo / OPS))
    return t


# ------------------------------------------------------------------------------- emit
def _b(x):
    return "true" if x else "false"


def _pats(ps):
    items = []
    for slots, (neg, k) in ps:
        items.append("([%s], (%s, %d))" % ("; ".join("(%s, %s, %s)" % (_b(a), _b(b), _b(c)) for a, b, c in slots), _b(neg), k))
    return "[ " + ";\n      ".join(items) + " ]"


def emit(t):
    ix = t["index"]
    L = ["(* GENERATED by translator/symmetry_tables.py from _general_unitary_cc.py (get_spin_ordered) and",
         "   fermionic_operators.py (number/spinz/spin2_operator_list) - do not edit *)",
         "From Coq Require Import NArith List Bool.",
         "From Tangelo Require Import Fermion.Symmetry.",
         "Import ListNotations.", "",
         "Definition gen_up (ud : bool) (n p : N) : N := if ud then (%s)%%N else (%s)%%N." % (ix["ud"]["up"], ix["il"]["up"]),
         "Definition gen_dn (ud : bool) (n p : N) : N := if ud then (%s)%%N else (%s)%%N." % (ix["ud"]["down"], ix["il"]["down"]),
         "", "Definition symtab_gen : symtab := {|", "  sx_up := gen_up;", "  sx_dn := gen_dn;",
         "  pat_number :=\n    %s;" % _pats(t["number"]),
         "  pat_spinz :=\n    %s;" % _pats(t["spinz"]),
         "  pat_spin2_same :=\n    %s;" % _pats(t["spin2_same"]),
         "  pat_spin2_cross :=\n    %s" % _pats(t["spin2_cross"]),
         "|}."]
    return "\n".join(L) + "\n"
