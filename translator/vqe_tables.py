"""Fail-closed extractor for the facts of tangelo/algorithms/variational/vqe_solver.py that the C08
theorems quantify over (DESIGN §4.1).  Nothing is imported or executed: the source is parsed with `ast`.

Hard facts (an unrecognised shape raises TranslateError):
  sym_table            the if/elif chain `operator == "<name>"` of operator_expectation: name -> builder
                       function and the value of its up_then_down keyword (Some b for a literal, None else)
  opexp_map_args       keyword arguments of the fermion_to_qubit_mapping call of operator_expectation
  build_map_args, build_pen_args   the same for the two calls of build() (Hamiltonian, penalty)
  energy_compose_ok    energy_estimation composes  ansatz | reference + ansatz  on `self.ref_state is None`
                       and appends the projective circuit
  defl_sim_order_ok    the deflation loop simulates  circ + circuit.inverse()  (directly or through a local name)
  defl_key_is_ansatz_width  the looked-up key is "0" * self.ansatz.circuit.width (True) or "0" * <simulated circuit>.width
                            (False); any other width expression is refused
Facts with two recognised values (they select the as-written or the repaired variant of the model; the
property theorems of props/C08.v are stated for the value found on the current tree, so a regression breaks
the proof step and the oracle then looks for the failing input):
  restore_in_finally        every restoring assignment of operator_expectation sits in a `finally:` body
  opexp_uses_reference      operator_expectation prepares (self.reference_circuit if ref_state is None else ref_state) +
                            ansatz with default ref_state=None (True), or ref_state + ansatz with default Circuit()
                            (False); any other shape is refused
  scbk_case_sensitive       the scbk test is `self.qubit_mapping == "scbk"` (no lower()/upper())
  defaults_guarded_by_scbk  the molecule's active-space data are taken as defaults only inside the scbk test

FALLBACK: the facts of the tree this check was last adapted to; used by the harness (labelled in the evidence)
when the translator refuses the source, so that the proof step and the model correspondence still run.
"""
import ast

from translator.common import TranslateError, parse, find_def

SRC = "tangelo/algorithms/variational/vqe_solver.py"


def _src(n):
    return ast.unparse(n)


def _kwargs(call, what):
    if call.args:
        raise TranslateError("%s: positional arguments in the fermion_to_qubit_mapping call" % what)
    out = []
    for k in call.keywords:
        if k.arg is None:
            raise TranslateError("%s: **kwargs in the fermion_to_qubit_mapping call" % what)
        out.append((k.arg, _src(k.value)))
    return out


def _mapping_calls(fn):
    return [n for n in ast.walk(fn) if isinstance(n, ast.Call) and isinstance(n.func, ast.Name)
            and n.func.id == "fermion_to_qubit_mapping"]


def _is_self_attr(n, attr):
    return isinstance(n, ast.Attribute) and isinstance(n.value, ast.Name) and n.value.id == "self" and n.attr == attr


def _sym_chain(fn):
    """every `if operator == "<const>": exp_op = <...>.<builder>(<arg>, up_then_down=<v>)`"""
    entries = []
    for node in ast.walk(fn):
        if not isinstance(node, ast.If):
            continue
        t = node.test
        if not (isinstance(t, ast.Compare) and isinstance(t.left, ast.Name) and t.left.id == "operator"
                and len(t.ops) == 1 and isinstance(t.ops[0], ast.Eq)
                and isinstance(t.comparators[0], ast.Constant) and isinstance(t.comparators[0].value, str)):
            continue
        name = t.comparators[0].value
        if len(node.body) != 1 or not isinstance(node.body[0], ast.Assign):
            raise TranslateError("operator_expectation: branch for %r is not a single assignment" % name)
        a = node.body[0]
        if not (len(a.targets) == 1 and isinstance(a.targets[0], ast.Name) and a.targets[0].id == "exp_op"
                and isinstance(a.value, ast.Call) and isinstance(a.value.func, (ast.Attribute, ast.Name))):
            raise TranslateError("operator_expectation: branch for %r does not assign exp_op = builder(...)" % name)
        call = a.value
        builder = call.func.attr if isinstance(call.func, ast.Attribute) else call.func.id
        if len(call.args) != 1 or _src(call.args[0]) != "n_active_mos":
            raise TranslateError("operator_expectation: builder for %r is not called with n_active_mos" % name)
        flag = "None"
        kws = {k.arg: k.value for k in call.keywords}
        if set(kws) - {"up_then_down"}:
            raise TranslateError("operator_expectation: unexpected keywords for %r: %s" % (name, sorted(kws)))
        if "up_then_down" in kws:
            v = kws["up_then_down"]
            if isinstance(v, ast.Constant) and isinstance(v.value, bool):
                flag = "(Some %s)" % ("true" if v.value else "false")
        else:
            flag = "(Some false)"          # the builders' default is up_then_down=False
        entries.append((name, builder, flag))
    if not entries:
        raise TranslateError("operator_expectation: no `operator == \"...\"` branch found")
    names = [e[0] for e in entries]
    if len(set(names)) != len(names):
        raise TranslateError("operator_expectation: duplicate operator names %s" % names)
    return entries


def _restore_facts(fn):
    restores, in_finally = 0, 0
    fin_nodes = set()
    for n in ast.walk(fn):
        if isinstance(n, ast.Try):
            for s in n.finalbody:
                for m in ast.walk(s):
                    fin_nodes.add(id(m))
    saved = None
    for n in ast.walk(fn):
        if isinstance(n, ast.Assign) and len(n.targets) == 1:
            if isinstance(n.targets[0], ast.Name) and _is_self_attr(n.value, "qubit_hamiltonian"):
                saved = n.targets[0].id
    if saved is None:
        raise TranslateError("operator_expectation: the attribute qubit_hamiltonian is never saved to a local")
    for n in ast.walk(fn):
        if (isinstance(n, ast.Assign) and len(n.targets) == 1 and _is_self_attr(n.targets[0], "qubit_hamiltonian")
                and isinstance(n.value, ast.Name) and n.value.id == saved):
            restores += 1
            if id(n) in fin_nodes:
                in_finally += 1
    if restores == 0:
        raise TranslateError("operator_expectation: no assignment restoring self.qubit_hamiltonian")
    return in_finally == restores


def _defaults_guard(fn):
    """Is `n_active_electrons = ...self.molecule.n_active_electrons...` only reached under a test mentioning scbk?"""
    found = []

    def visit(node, tests):
        for child in ast.iter_child_nodes(node):
            if isinstance(node, ast.If) and child in node.body:
                visit(child, tests + [_src(node.test)])
            elif isinstance(node, ast.If) and child in node.orelse:
                visit(child, tests + ["not (%s)" % _src(node.test)])
            else:
                visit(child, tests)
        if (isinstance(node, ast.Assign) and len(node.targets) == 1 and isinstance(node.targets[0], ast.Name)
                and node.targets[0].id == "n_active_electrons" and "self.molecule.n_active_electrons" in _src(node.value)):
            found.append(tests)
    visit(fn, [])
    if len(found) != 1:
        raise TranslateError("operator_expectation: expected one default `n_active_electrons = self.molecule.n_active_electrons...`, "
                             "found %d" % len(found))
    tests = found[0]
    if not any(x.replace(" ", "") in ("self.molecule", "bool(self.molecule)") for x in tests):
        raise TranslateError("operator_expectation: the molecule defaults are not under `if self.molecule`: %s" % tests)
    return any("scbk" in x.lower() and not x.startswith("not (") for x in tests)


FALLBACK = {
    "sym_table": [("N", "number_operator", "(Some false)"), ("Sz", "spinz_operator", "(Some false)"), ("S^2", "spin2_operator", "(Some false)")],
    "opexp_map_args": [("fermion_operator", "exp_op"), ("mapping", "self.qubit_mapping"), ("n_spinorbitals", "n_active_sos"),
                       ("n_electrons", "n_active_electrons"), ("up_then_down", "self.up_then_down"), ("spin", "spin")],
    "build_map_args": [("fermion_operator", "self.molecule.fermionic_hamiltonian"), ("mapping", "self.qubit_mapping"),
                       ("n_spinorbitals", "self.molecule.n_active_sos"), ("n_electrons", "self.molecule.n_active_electrons"),
                       ("up_then_down", "self.up_then_down"), ("spin", "self.molecule.active_spin")],
    "build_pen_args": [("fermion_operator", "pen_ferm"), ("mapping", "self.qubit_mapping"),
                       ("n_spinorbitals", "self.molecule.n_active_sos"), ("n_electrons", "self.molecule.n_active_electrons"),
                       ("up_then_down", "self.up_then_down"), ("spin", "self.molecule.active_spin")],
    "restore_in_finally": True, "opexp_uses_reference": True, "defl_key_is_ansatz_width": False, "scbk_case_sensitive": False,
    "defaults_guarded_by_scbk": False, "energy_compose_ok": True, "defl_sim_order_ok": True,
    "opexp_circuit": "(self.reference_circuit if ref_state is None else ref_state) + self.ansatz.circuit",
    "opexp_ref_default": "None", "defl_key_width": "overlap_circuit.width",
    "defl_sim": "circ + circuit.inverse()", "scbk_test": "self.qubit_mapping.lower() == 'scbk'",
}


def extract(repo):
    tree = parse("%s/%s" % (repo, SRC))
    t = {}
    # ---------------------------------------------------------------- operator_expectation
    fn = find_def(tree, "operator_expectation", cls="VQESolver")
    t["sym_table"] = _sym_chain(fn)
    calls = _mapping_calls(fn)
    if len(calls) != 1:
        raise TranslateError("operator_expectation: expected one fermion_to_qubit_mapping call, found %d" % len(calls))
    t["opexp_map_args"] = _kwargs(calls[0], "operator_expectation")
    t["restore_in_finally"] = _restore_facts(fn)
    circ = [n for n in ast.walk(fn) if isinstance(n, ast.Assign) and len(n.targets) == 1
            and isinstance(n.targets[0], ast.Name) and n.targets[0].id == "circuit"]
    if len(circ) != 1:
        raise TranslateError("operator_expectation: expected one assignment to `circuit`, found %d" % len(circ))
    t["opexp_circuit"] = _src(circ[0].value)
    # default of the ref_state argument
    names = [a.arg for a in fn.args.args]
    if "ref_state" not in names:
        raise TranslateError("operator_expectation: no ref_state argument")
    k = names.index("ref_state") - (len(names) - len(fn.args.defaults))
    if k < 0:
        raise TranslateError("operator_expectation: ref_state has no default")
    t["opexp_ref_default"] = _src(fn.args.defaults[k])
    asis = (t["opexp_circuit"] == "ref_state + self.ansatz.circuit" and t["opexp_ref_default"] == "Circuit()")
    repaired = (t["opexp_circuit"] == "(self.reference_circuit if ref_state is None else ref_state) + self.ansatz.circuit"
                and t["opexp_ref_default"] == "None")
    if not (asis or repaired):
        raise TranslateError("operator_expectation: unrecognised state preparation `circuit = %s` with default ref_state=%s"
                             % (t["opexp_circuit"], t["opexp_ref_default"]))
    t["opexp_uses_reference"] = repaired
    scbk = [n for n in ast.walk(fn) if isinstance(n, ast.Compare) and len(n.ops) == 1 and isinstance(n.ops[0], ast.Eq)
            and isinstance(n.comparators[0], ast.Constant) and isinstance(n.comparators[0].value, str)
            and n.comparators[0].value.lower() == "scbk"]
    if len(scbk) != 1:
        raise TranslateError("operator_expectation: expected one comparison with 'scbk', found %d" % len(scbk))
    t["scbk_case_sensitive"] = _is_self_attr(scbk[0].left, "qubit_mapping")
    t["scbk_test"] = _src(scbk[0])
    t["defaults_guarded_by_scbk"] = _defaults_guard(fn)
    # ---------------------------------------------------------------- energy_estimation
    fe = find_def(tree, "energy_estimation", cls="VQESolver")
    circ = [n for n in fe.body if isinstance(n, ast.Assign) and len(n.targets) == 1
            and isinstance(n.targets[0], ast.Name) and n.targets[0].id == "circuit"]
    if len(circ) != 1 or not isinstance(circ[0].value, ast.IfExp):
        raise TranslateError("energy_estimation: `circuit = A if C else B` not found")
    ie = circ[0].value
    ok = (_src(ie.test) == "self.ref_state is None" and _src(ie.body) == "self.ansatz.circuit"
          and _src(ie.orelse) == "self.reference_circuit + self.ansatz.circuit")
    if not ok:
        raise TranslateError("energy_estimation: unexpected composition %s" % _src(ie))
    proj = [n for n in fe.body if isinstance(n, ast.If) and _src(n.test) == "self.projective_circuit"]
    if len(proj) != 1 or len(proj[0].body) != 1 or _src(proj[0].body[0]) != "circuit += self.projective_circuit" or proj[0].orelse:
        raise TranslateError("energy_estimation: projective circuit is not appended as `circuit += self.projective_circuit`")
    t["energy_compose_ok"] = True
    loops = [n for n in fe.body if isinstance(n, ast.For) and _src(n.iter) == "self.deflation_circuits"]
    if len(loops) != 1 or not isinstance(loops[0].target, ast.Name):
        raise TranslateError("energy_estimation: deflation loop not found")
    lv = loops[0].target.id
    sims = [n for n in ast.walk(loops[0]) if isinstance(n, ast.Call) and _src(n.func) == "self.backend.simulate"]
    if len(sims) != 1 or len(sims[0].args) != 1:
        raise TranslateError("energy_estimation: deflation loop does not call self.backend.simulate(<circuit>) once")
    want = "%s + circuit.inverse()" % lv
    # local names bound (once) inside the loop to the simulated circuit
    bound = {}
    for n in ast.walk(loops[0]):
        if isinstance(n, ast.Assign) and len(n.targets) == 1 and isinstance(n.targets[0], ast.Name):
            if n.targets[0].id in bound:
                raise TranslateError("energy_estimation: %s assigned twice in the deflation loop" % n.targets[0].id)
            bound[n.targets[0].id] = _src(n.value)
    arg = sims[0].args[0]
    simname = None
    if isinstance(arg, ast.Name) and bound.get(arg.id) == want:
        simname = arg.id
        t["defl_sim"] = want
    else:
        t["defl_sim"] = _src(arg)
    if t["defl_sim"] != want:
        raise TranslateError("energy_estimation: deflation loop simulates %s" % t["defl_sim"])
    t["defl_sim_order_ok"] = True
    augs = [n for n in ast.walk(loops[0]) if isinstance(n, ast.AugAssign) and isinstance(n.op, ast.Add)
            and isinstance(n.target, ast.Name) and n.target.id == "energy"]
    if len(augs) != 1:
        raise TranslateError("energy_estimation: deflation loop does not do `energy += ...` once")
    v = augs[0].value
    if not (isinstance(v, ast.BinOp) and isinstance(v.op, ast.Mult) and _src(v.left) == "self.deflation_coeff"
            and isinstance(v.right, ast.Call) and isinstance(v.right.func, ast.Attribute) and v.right.func.attr == "get"
            and len(v.right.args) == 2 and _src(v.right.args[1]) == "0"):
        raise TranslateError("energy_estimation: deflation term is not coeff * f_dict.get(key, 0): %s" % _src(v))
    key = v.right.args[0]
    if not (isinstance(key, ast.BinOp) and isinstance(key.op, ast.Mult) and _src(key.left) == "'0'"):
        raise TranslateError("energy_estimation: deflation key is not '0' * width: %s" % _src(key))
    t["defl_key_width"] = _src(key.right)
    simulated = ["(%s).width" % want] + (["%s.width" % simname] if simname else [])
    if t["defl_key_width"] == "self.ansatz.circuit.width":
        t["defl_key_is_ansatz_width"] = True
    elif t["defl_key_width"] in simulated:
        t["defl_key_is_ansatz_width"] = False
    else:
        raise TranslateError("energy_estimation: deflation key width %s is neither the ansatz circuit's nor the simulated "
                             "circuit's" % t["defl_key_width"])
    # ---------------------------------------------------------------- build
    fb = find_def(tree, "build", cls="VQESolver")
    calls = _mapping_calls(fb)
    if len(calls) != 2:
        raise TranslateError("build: expected two fermion_to_qubit_mapping calls, found %d" % len(calls))
    a0, a1 = _kwargs(calls[0], "build"), _kwargs(calls[1], "build")
    d0, d1 = dict(a0), dict(a1)
    if d0.get("fermion_operator") == "self.molecule.fermionic_hamiltonian":
        t["build_map_args"], t["build_pen_args"] = a0, a1
    elif d1.get("fermion_operator") == "self.molecule.fermionic_hamiltonian":
        t["build_map_args"], t["build_pen_args"] = a1, a0
    else:
        raise TranslateError("build: no call maps self.molecule.fermionic_hamiltonian")
    return t


def _cs(s):
    return '"' + s.replace('"', '""') + '"'


def _ckw(k):
    return "[" + "; ".join("(%s, %s)" % (_cs(a), _cs(b)) for a, b in k) + "]"


def _cb(b):
    return "true" if b else "false"


def emit(t):
    lines = ["(* generated by translator/vqe_tables.py from %s — do not edit *)" % SRC,
             "From Coq Require Import String List Bool.",
             "From Tangelo Require Import Chem.Vqe.",
             "Import ListNotations.",
             "Open Scope string_scope.",
             "Definition sym_table : list sym_entry := [%s]." % "; ".join(
                 "(%s, (%s, %s))" % (_cs(n), _cs(b), f) for n, b, f in t["sym_table"]),
             "Definition opexp_map_args : kwargs := %s." % _ckw(t["opexp_map_args"]),
             "Definition build_map_args : kwargs := %s." % _ckw(t["build_map_args"]),
             "Definition build_pen_args : kwargs := %s." % _ckw(t["build_pen_args"]),
             "Definition restore_in_finally : bool := %s." % _cb(t["restore_in_finally"]),
             "Definition opexp_uses_reference : bool := %s." % _cb(t["opexp_uses_reference"]),
             "Definition defl_key_is_ansatz_width : bool := %s." % _cb(t["defl_key_is_ansatz_width"]),
             "Definition scbk_case_sensitive : bool := %s." % _cb(t["scbk_case_sensitive"]),
             "Definition defaults_guarded_by_scbk : bool := %s." % _cb(t["defaults_guarded_by_scbk"]),
             "Definition energy_compose_ok : bool := %s." % _cb(t["energy_compose_ok"]),
             "Definition defl_sim_order_ok : bool := %s." % _cb(t["defl_sim_order_ok"]),
             "Definition opexp_circuit_src : string := %s." % _cs(t["opexp_circuit"]),
             "Definition defl_key_width_src : string := %s." % _cs(t["defl_key_width"]),
             ""]
    return "\n".join(lines)


if __name__ == "__main__":
    import sys
    print(emit(extract(sys.argv[1] if len(sys.argv) > 1 else "/repo")))
