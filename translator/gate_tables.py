"""Regenerate gen/GateTables.v from tangelo/linq/gate.py and tangelo/linq/circuit.py."""
import ast
from .common import (parse, module_assign, find_def, local_assign, str_collection, pi_multiple,
                     coq_string_list, units_of_pi8, TranslateError)


def extract(repo):
    g = parse(repo / "tangelo/linq/gate.py")
    c = parse(repo / "tangelo/linq/circuit.py")
    t = {}
    for py, field in [("ONE_TARGET_GATES", "one_target"), ("TWO_TARGET_GATES", "two_target"),
                      ("PARAMETERIZED_GATES", "parameterized"), ("INVERTIBLE_GATES", "invertible"),
                      ("CLIFFORD_GATES", "clifford")]:
        t[field] = sorted(str_collection(module_assign(g, py), py))
    t["rot_small"] = sorted(str_collection(local_assign(find_def(c, "remove_small_rotations"), "rot_gates"),
                                           "remove_small_rotations.rot_gates"))
    t["rot_merge"] = sorted(str_collection(local_assign(find_def(c, "merge_rotations"), "rot_gates"),
                                           "merge_rotations.rot_gates"))
    # Gate.inverse: `new_parameter = -pi / 2 if self.name == "S" else -pi / 4` under `if self.name in {"T","S"}`
    inv = find_def(g, "inverse", cls="Gate")
    st = None
    for n in ast.walk(inv):
        if isinstance(n, ast.If) and isinstance(n.test, ast.Compare) and isinstance(n.test.ops[0], ast.In) \
                and isinstance(n.test.comparators[0], (ast.Set, ast.List, ast.Tuple)) \
                and sorted(str_collection(n.test.comparators[0])) == ["S", "T"]:
            st = n
    if st is None:
        raise TranslateError("Gate.inverse: the S/T branch was not found")
    asg = [n for n in st.body if isinstance(n, ast.Assign)]
    if len(asg) != 1 or not isinstance(asg[0].value, ast.IfExp):
        raise TranslateError("Gate.inverse: unexpected S/T parameter assignment")
    ife = asg[0].value
    tst = ife.test
    if not (isinstance(tst, ast.Compare) and isinstance(tst.ops[0], ast.Eq)
            and isinstance(tst.comparators[0], ast.Constant) and tst.comparators[0].value in ("S", "T")):
        raise TranslateError("Gate.inverse: unexpected S/T test")
    a, pa = pi_multiple(ife.body)
    b, pb = pi_multiple(ife.orelse)
    if not (pa and pb):
        raise TranslateError("Gate.inverse: S/T parameters are not multiples of pi")
    if tst.comparators[0].value == "S":
        t["inv_S"], t["inv_T"] = a, b
    else:
        t["inv_T"], t["inv_S"] = a, b
    ret = [n for n in st.body if isinstance(n, ast.Return)]
    if len(ret) != 1 or not (isinstance(ret[0].value, ast.Call) and isinstance(ret[0].value.args[0], ast.Constant)):
        raise TranslateError("Gate.inverse: unexpected S/T return")
    t["inv_ST_name"] = ret[0].value.args[0].value
    # Gate.__eq__:  period = <long> if ds["name"] in {...} else <short>;  round(p % period, 7) twice
    eq = find_def(g, "__eq__", cls="Gate")
    per = [n for n in ast.walk(eq) if isinstance(n, ast.Assign) and len(n.targets) == 1
           and isinstance(n.targets[0], ast.Name) and n.targets[0].id == "period"]
    if len(per) != 1 or not isinstance(per[0].value, ast.IfExp):
        raise TranslateError("Gate.__eq__: expected `period = A if name in {...} else B`")
    ife = per[0].value
    tst = ife.test
    if not (isinstance(tst, ast.Compare) and isinstance(tst.ops[0], ast.In)
            and isinstance(tst.left, ast.Subscript) and isinstance(tst.left.value, ast.Name) and tst.left.value.id == "ds"
            and isinstance(tst.left.slice, ast.Constant) and tst.left.slice.value == "name"):
        raise TranslateError("Gate.__eq__: unexpected period test")
    t["eq_long"] = sorted(str_collection(tst.comparators[0], "__eq__ long-period names"))
    rl, hl = pi_multiple(ife.body)
    rs_, hs = pi_multiple(ife.orelse)
    if not (hl and hs):
        raise TranslateError("Gate.__eq__: periods are not multiples of pi")
    t["eq_modulus_long"], t["eq_modulus"] = rl, rs_
    rounds = []
    for n in ast.walk(eq):
        if isinstance(n, ast.Call) and isinstance(n.func, ast.Name) and n.func.id == "round":
            if not (len(n.args) == 2 and isinstance(n.args[0], ast.BinOp) and isinstance(n.args[0].op, ast.Mod)
                    and isinstance(n.args[0].right, ast.Name) and n.args[0].right.id == "period"
                    and isinstance(n.args[1], ast.Constant)):
                raise TranslateError("Gate.__eq__: unexpected round(...) shape")
            rounds.append(n.args[1].value)
    if len(rounds) != 2 or rounds[0] != rounds[1]:
        raise TranslateError("Gate.__eq__: expected two identical round(p %% period, d) calls, got %s" % rounds)
    t["eq_digits"] = rounds[0]
    # remove_small_rotations: abs(g.parameter) % ((L if g.name in ctrl_rot_gates else S)*np.pi) < param_threshold
    rs = find_def(c, "remove_small_rotations")
    t["small_long"] = sorted(str_collection(local_assign(rs, "ctrl_rot_gates"), "remove_small_rotations.ctrl_rot_gates"))
    found = []
    for n in ast.walk(rs):
        if isinstance(n, ast.Compare) and isinstance(n.ops[0], ast.Lt) and isinstance(n.left, ast.BinOp) \
                and isinstance(n.left.op, ast.Mod):
            lhs = n.left.left
            if not (isinstance(lhs, ast.Call) and isinstance(lhs.func, ast.Name) and lhs.func.id == "abs"):
                raise TranslateError("remove_small_rotations: expected abs(parameter) %% m < threshold")
            m = n.left.right
            if not (isinstance(m, ast.BinOp) and isinstance(m.op, ast.Mult) and isinstance(m.left, ast.IfExp)):
                raise TranslateError("remove_small_rotations: expected (L if name in ctrl_rot_gates else S)*pi")
            tt = m.left.test
            if not (isinstance(tt, ast.Compare) and isinstance(tt.ops[0], ast.In) and isinstance(tt.comparators[0], ast.Name)
                    and tt.comparators[0].id == "ctrl_rot_gates" and isinstance(tt.left, ast.Attribute) and tt.left.attr == "name"):
                raise TranslateError("remove_small_rotations: unexpected period test")
            rl2, h1 = pi_multiple(ast.BinOp(left=m.left.body, op=ast.Mult(), right=m.right))
            rs2, h2 = pi_multiple(ast.BinOp(left=m.left.orelse, op=ast.Mult(), right=m.right))
            if not (h1 and h2):
                raise TranslateError("remove_small_rotations: periods are not multiples of pi")
            found.append((rl2, rs2))
    if len(found) != 1:
        raise TranslateError("remove_small_rotations: comparison not found exactly once")
    t["small_modulus_long"], t["small_modulus"] = found[0]
    return t


def emit(t):
    L = ["(* GENERATED by translator/gate_tables.py from tangelo/linq/gate.py and circuit.py — do not edit *)",
         "From Coq Require Import String List ZArith.",
         "From Tangelo Require Import Linq.GateModel.",
         "Import ListNotations.", "Open Scope string_scope.", "",
         "Definition gtables : tables := {|"]
    fields = ["one_target", "two_target", "parameterized", "invertible", "clifford", "rot_small", "rot_merge",
              "eq_long", "small_long"]
    L.append(";\n".join("  %s := %s" % (f, coq_string_list(t[f])) for f in fields))
    L.append("|}.")
    L.append("(* angles in units of pi/8 *)")
    L.append("Definition inv_S_units : Z := (%d)%%Z." % units_of_pi8(t["inv_S"], "inverse of S"))
    L.append("Definition inv_T_units : Z := (%d)%%Z." % units_of_pi8(t["inv_T"], "inverse of T"))
    L.append('Definition inv_ST_name : string := "%s".' % t["inv_ST_name"])
    L.append("Definition eq_modulus_units : Z := (%d)%%Z." % units_of_pi8(t["eq_modulus"], "__eq__ modulus"))
    L.append("Definition eq_modulus_long_units : Z := (%d)%%Z." % units_of_pi8(t["eq_modulus_long"], "__eq__ long modulus"))
    L.append("Definition eq_digits : Z := (%d)%%Z." % t["eq_digits"])
    L.append("Definition small_modulus_long_units : Z := (%d)%%Z." % units_of_pi8(t["small_modulus_long"], "small-rotation long modulus"))
    L.append("Definition small_modulus_units : Z := (%d)%%Z." % units_of_pi8(t["small_modulus"], "small-rotation modulus"))
    return "\n".join(L) + "\n"
