"""Regenerate gen/EncodingTables.v from the table-like pieces of
tangelo/toolboxes/qubit_mappings/jkmn.py   (sigma_map, the node-value formula, the base of the ternary tree)
tangelo/toolboxes/qubit_mappings/combinatorial.py (base case of recursive_mapping, bit pairs of int_to_tuple).

Nothing is imported or executed: the source is parsed with `ast`, matched against a fixed shape and
emitted as Coq text.  Any other shape raises TranslateError (fail closed)."""
import ast
from .common import parse, module_assign, find_def, TranslateError

PAULI = {"X": "PX", "Y": "PY", "Z": "PZ"}


def _no_doc(fn):
    body = list(fn.body)
    if body and isinstance(body[0], ast.Expr) and isinstance(body[0].value, ast.Constant) \
            and isinstance(body[0].value.value, str):
        body = body[1:]
    return body


def _dump(n):
    """ast.dump without the empty-keywords noise that differs between Python versions"""
    return ast.dump(n).replace(", keywords=[]", "")


def _int(n, what):
    if isinstance(n, ast.Constant) and type(n.value) is int:
        return n.value
    raise TranslateError("%s: expected an integer literal, got %s" % (what, ast.dump(n)[:80]))


def _name(n, ident):
    return isinstance(n, ast.Name) and n.id == ident


def _off_expr(n, var, what):
    """(B**var - S)//D  ->  (B, S, D)"""
    if not (isinstance(n, ast.BinOp) and isinstance(n.op, ast.FloorDiv)):
        raise TranslateError("%s: expected (B**%s - S)//D" % (what, var))
    num = n.left
    if not (isinstance(num, ast.BinOp) and isinstance(num.op, ast.Sub) and isinstance(num.left, ast.BinOp)
            and isinstance(num.left.op, ast.Pow) and _name(num.left.right, var)):
        raise TranslateError("%s: expected (B**%s - S)//D, got %s" % (what, var, ast.dump(n)[:120]))
    return _int(num.left.left, what), _int(num.right, what), _int(n.right, what)


def extract_jkmn(repo):
    t = parse(repo / "tangelo/toolboxes/qubit_mappings/jkmn.py")
    out = {}
    sm = module_assign(t, "sigma_map")
    if not isinstance(sm, ast.Dict):
        raise TranslateError("sigma_map is not a dict literal")
    d = {}
    for k, v in zip(sm.keys, sm.values):
        if not (isinstance(k, ast.Constant) and isinstance(k.value, str) and k.value.isdigit()
                and isinstance(v, ast.Constant) and v.value in PAULI):
            raise TranslateError("sigma_map: unexpected entry %s" % ast.dump(k)[:60])
        d[int(k.value)] = v.value
    if sorted(d) != list(range(len(d))):
        raise TranslateError("sigma_map: keys are not the digits 0..%d" % (len(d) - 1))
    out["sigma"] = [d[i] for i in range(len(d))]

    # _node_value(p, l):  nv = (B**l - S)//D ; for j in range(l): nv += B**(l-1-j)*int(p[j]) ; return nv
    nvf = find_def(t, "_node_value")
    if [a.arg for a in nvf.args.args] != ["p", "l"]:
        raise TranslateError("_node_value: unexpected arguments")
    body = _no_doc(nvf)
    if len(body) != 3 or not isinstance(body[0], ast.Assign) or not isinstance(body[1], ast.For) \
            or not isinstance(body[2], ast.Return):
        raise TranslateError("_node_value: unexpected statement sequence")
    if not (_name(body[0].targets[0], "nv") and _name(body[2].value, "nv")):
        raise TranslateError("_node_value: result variable is not nv")
    B, S, D = _off_expr(body[0].value, "l", "_node_value")
    loop = body[1]
    if not (_name(loop.target, "j") and isinstance(loop.iter, ast.Call) and _name(loop.iter.func, "range")
            and len(loop.iter.args) == 1 and _name(loop.iter.args[0], "l") and len(loop.body) == 1):
        raise TranslateError("_node_value: unexpected loop header")
    st = loop.body[0]
    expected = "AugAssign(target=Name(id='nv', ctx=Store()), op=Add(), value=BinOp(left=BinOp(left=Constant(value=%d), " \
               "op=Pow(), right=BinOp(left=BinOp(left=Name(id='l', ctx=Load()), op=Sub(), right=Constant(value=1)), " \
               "op=Sub(), right=Name(id='j', ctx=Load()))), op=Mult(), right=Call(func=Name(id='int', ctx=Load()), " \
               "args=[Subscript(value=Name(id='p', ctx=Load()), slice=Name(id='j', ctx=Load()), ctx=Load())]" % B
    if not _dump(st).startswith(expected):
        raise TranslateError("_node_value: unexpected loop body %s" % ast.dump(st)[:200])
    out["base"], out["sub"], out["div"] = B, S, D

    # _jkmn_list: range(B**h), np.base_repr(i, base=B).rjust(h, '0'), _node_value(terstring, ch), sigma_map[terstring[ch]]
    lf = find_def(t, "_jkmn_list")
    src = _dump(ast.Module(body=_no_doc(lf), type_ignores=[]))
    need = [
        "iter=Call(func=Name(id='range', ctx=Load()), args=[BinOp(left=Constant(value=%d), op=Pow(), right=Name(id='h', ctx=Load()))]" % B,
        "keywords=[keyword(arg='base', value=Constant(value=%d))]" % B,
        "attr='rjust', ctx=Load()), args=[Name(id='h', ctx=Load()), Constant(value='0')]",
        "Call(func=Name(id='_node_value', ctx=Load()), args=[Name(id='terstring', ctx=Load()), Name(id='ch', ctx=Load())]",
        "Subscript(value=Name(id='sigma_map', ctx=Load()), slice=Subscript(value=Name(id='terstring', ctx=Load()), slice=Name(id='ch', ctx=Load())",
        "iter=Call(func=Name(id='range', ctx=Load()), args=[Name(id='h', ctx=Load())]",
    ]
    for pat in need:
        if pat not in src:
            raise TranslateError("_jkmn_list: expected construct not found: %s" % pat[:100])

    # _jkmn_dict: height, number of branched leaves, node index of a branched leaf, branching factor
    df = find_def(t, "_jkmn_dict")
    found = {}
    for n in ast.walk(df):
        if isinstance(n, ast.Assign) and len(n.targets) == 1 and isinstance(n.targets[0], ast.Name):
            found.setdefault(n.targets[0].id, []).append(n.value)
    for var in ("h", "n_leaves_to_qubit", "nv"):
        if len(found.get(var, [])) != 1:
            raise TranslateError("_jkmn_dict: expected exactly one assignment to %s" % var)
    hexp = "Call(func=Name(id='int', ctx=Load()), args=[BinOp(left=Call(func=Attribute(value=Name(id='np', ctx=Load()), " \
           "attr='log10', ctx=Load()), args=[BinOp(left=BinOp(left=Constant(value=2), op=Mult(), right=Name(id='n_qubits', " \
           "ctx=Load())), op=Add(), right=Constant(value=1))]), op=Div(), right=Call(func=Attribute(value=Name(id='np', " \
           "ctx=Load()), attr='log10', ctx=Load()), args=[Constant(value=%d)]))])" % B
    if _dump(found["h"][0]) != hexp:
        raise TranslateError("_jkmn_dict: unexpected height expression %s" % ast.dump(found["h"][0])[:200])
    nl = found["n_leaves_to_qubit"][0]
    if not (isinstance(nl, ast.BinOp) and isinstance(nl.op, ast.Sub) and _name(nl.left, "n_qubits")
            and _off_expr(nl.right, "h", "n_leaves_to_qubit") == (B, S, D)):
        raise TranslateError("_jkmn_dict: unexpected n_leaves_to_qubit expression")
    nv = found["nv"][0]
    if not (isinstance(nv, ast.BinOp) and isinstance(nv.op, ast.Add) and _name(nv.right, "j")
            and _off_expr(nv.left, "h", "_jkmn_dict.nv") == (B, S, D)):
        raise TranslateError("_jkmn_dict: unexpected node index of a branched leaf")
    branch = [n for n in ast.walk(df) if isinstance(n, ast.For) and _name(n.target, "i")
              and isinstance(n.iter, ast.Call) and _name(n.iter.func, "range") and len(n.iter.args) == 1
              and isinstance(n.iter.args[0], ast.Constant)]
    if len(branch) != 1 or _int(branch[0].iter.args[0], "branching") != len(out["sigma"]):
        raise TranslateError("_jkmn_dict: branching loop `for i in range(%d)` not found" % len(out["sigma"]))
    if B != len(out["sigma"]):
        raise TranslateError("tree base %d differs from the size of sigma_map" % B)
    # the Hadamard re-labelling and the pair re-assignment: literal Pauli letters used in the comparisons
    src = _dump(df)
    for pat in ["comparators=[Constant(value='X')]", "comparators=[Constant(value='Z')]", "comparators=[Constant(value='Y')]",
                "Tuple(elts=[Subscript(value=Name(id='tup', ctx=Load()), slice=Constant(value=0), ctx=Load()), Constant(value='Y')]",
                "Tuple(elts=[Subscript(value=Name(id='tup', ctx=Load()), slice=Constant(value=0), ctx=Load()), Constant(value='X')]",
                "UnaryOp(op=USub(), operand=Subscript(value=Name(id='tjkmn_map', ctx=Load())"]:
        if pat not in src:
            raise TranslateError("_jkmn_dict: expected construct not found: %s" % pat[:100])
    return out


def extract_comb(repo):
    t = parse(repo / "tangelo/toolboxes/qubit_mappings/combinatorial.py")
    out = {}
    rm = find_def(t, "recursive_mapping")
    res = [n.value for n in ast.walk(rm) if isinstance(n, ast.Assign) and len(n.targets) == 1
           and _name(n.targets[0], "res")]
    if len(res) != 1 or not isinstance(res[0], ast.Dict):
        raise TranslateError("recursive_mapping: base-case dictionary `res = {...}` not found")

    def entry(n, what):
        if not (isinstance(n, ast.Subscript) and _name(n.value, "M") and isinstance(n.slice, ast.Tuple)
                and len(n.slice.elts) == 2):
            raise TranslateError("%s: expected M[i,j]" % what)
        return _int(n.slice.elts[0], what), _int(n.slice.elts[1], what)
    base = []
    for k, v in zip(res[0].keys, res[0].values):
        key = _int(k, "recursive_mapping base key")
        if not (isinstance(v, ast.BinOp) and isinstance(v.op, ast.Mult) and isinstance(v.left, ast.Constant)
                and isinstance(v.right, ast.BinOp) and isinstance(v.right.op, (ast.Add, ast.Sub))):
            raise TranslateError("recursive_mapping: unexpected base-case entry for key %d" % key)
        c = v.left.value
        if c == 0.5:
            imag = False
        elif c == 0.5j:
            imag = True
        else:
            raise TranslateError("recursive_mapping: coefficient %r is not 0.5 or 0.5j" % (c,))
        base.append((key, imag, entry(v.right.left, "base entry"), isinstance(v.right.op, ast.Sub),
                     entry(v.right.right, "base entry")))
    out["base"] = base
    # int_to_tuple: (x_term, z_term) == (1,0) -> X, (0,1) -> Z, (0,0) -> skip, else -> Y
    it = find_def(t, "int_to_tuple")
    pairs = {}
    for n in ast.walk(it):
        if isinstance(n, ast.If) and isinstance(n.test, ast.Compare) and isinstance(n.test.left, ast.Tuple) \
                and [getattr(e, "id", None) for e in n.test.left.elts] == ["x_term", "z_term"]:
            cmpv = n.test.comparators[0]
            if not isinstance(cmpv, ast.Tuple):
                raise TranslateError("int_to_tuple: unexpected comparison")
            key = tuple(_int(e, "int_to_tuple") for e in cmpv.elts)
            st = n.body[0]
            if isinstance(st, ast.Continue):
                pairs[key] = "I"
            else:
                lit = [c.value for c in ast.walk(st) if isinstance(c, ast.Constant) and c.value in PAULI]
                if len(lit) != 1:
                    raise TranslateError("int_to_tuple: unexpected branch body")
                pairs[key] = lit[0]
            if n.orelse and not isinstance(n.orelse[0], ast.If):
                lit = [c.value for s in n.orelse for c in ast.walk(s) if isinstance(c, ast.Constant) and c.value in PAULI]
                if len(lit) != 1:
                    raise TranslateError("int_to_tuple: unexpected else branch")
                pairs["else"] = lit[0]
    if set(pairs) != {(0, 0), (1, 0), (0, 1), "else"}:
        raise TranslateError("int_to_tuple: unexpected set of branches %s" % sorted(map(str, pairs)))
    out["pairs"] = pairs
    shifts = [_dump(n.value) for n in ast.walk(it) if isinstance(n, ast.Assign) and _name(n.targets[0], "shift_x")]
    if shifts != ["BinOp(left=Constant(value=2), op=Mult(), right=BinOp(left=Name(id='i', ctx=Load()), op=Sub(), right=Constant(value=1)))"]:
        raise TranslateError("int_to_tuple: unexpected shift_x")
    return out


def _lin(n, what):
    """integer linear combination of e_sei[..] / e_tei[..] accesses with index variables i, j
    -> [(multiplier, tensor, (vars...))]; anything else (a re-used local name, another variable) fails closed"""
    def access(a):
        if not (isinstance(a, ast.Subscript) and isinstance(a.value, ast.Name) and a.value.id in ("e_sei", "e_tei")
                and isinstance(a.slice, ast.Tuple)):
            raise TranslateError("%s: expected e_sei[...] or e_tei[...], got %s" % (what, _dump(a)[:120]))
        idx = []
        for e in a.slice.elts:
            if not (isinstance(e, ast.Name) and e.id in ("i", "j")):
                raise TranslateError("%s: index %s is not i or j" % (what, _dump(e)[:60]))
            idx.append(e.id)
        want = 2 if a.value.id == "e_sei" else 4
        if len(idx) != want:
            raise TranslateError("%s: %s accessed with %d indices" % (what, a.value.id, len(idx)))
        return a.value.id, tuple(idx)

    def term(t, sign):
        if isinstance(t, ast.BinOp) and isinstance(t.op, ast.Mult) and isinstance(t.left, ast.Constant):
            return [(sign * _int(t.left, what),) + access(t.right)]
        if isinstance(t, ast.BinOp) and isinstance(t.op, ast.Mult) and isinstance(t.right, ast.Constant):
            return [(sign * _int(t.right, what),) + access(t.left)]
        return [(sign,) + access(t)]

    def expr(e, sign):
        if isinstance(e, ast.BinOp) and isinstance(e.op, (ast.Add, ast.Sub)):
            return expr(e.left, sign) + expr(e.right, sign if isinstance(e.op, ast.Add) else -sign)
        if isinstance(e, ast.UnaryOp) and isinstance(e.op, ast.USub):
            return expr(e.operand, -sign)
        return term(e, sign)
    return expr(n, 1)


def _affine(n, what):
    """2*p  or  2*q+1  ->  (multiplier, variable, offset)"""
    off = 0
    if isinstance(n, ast.BinOp) and isinstance(n.op, ast.Add):
        off = _int(n.right, what)
        n = n.left
    if isinstance(n, ast.BinOp) and isinstance(n.op, ast.Mult) and isinstance(n.right, ast.Name):
        return _int(n.left, what), n.right.id, off
    if isinstance(n, ast.Name):
        return 1, n.id, off
    raise TranslateError("%s: index expression %s is not m*v+o" % (what, _dump(n)[:100]))


def extract_hcb(repo):
    t = parse(repo / "tangelo/toolboxes/qubit_mappings/hcb.py")
    f = find_def(t, "hard_core_boson_operator")
    out = {}
    scale = [n for n in ast.walk(f) if isinstance(n, ast.AugAssign) and _name(n.target, "e_tei")]
    if len(scale) != 1 or not isinstance(scale[0].op, ast.Mult):
        raise TranslateError("hard_core_boson_operator: `e_tei *= <int>` not found exactly once")
    out["tei_scale"] = _int(scale[0].value, "e_tei scale")
    got = [_dump(n.value) for n in ast.walk(f) if isinstance(n, ast.Assign) and isinstance(n.targets[0], ast.Tuple)]
    if got != ["Call(func=Attribute(value=Name(id='ferm_op', ctx=Load()), attr='get_coeffs', ctx=Load()), args=[], "
               "keywords=[keyword(arg='spatial', value=Constant(value=True))])"]:
        raise TranslateError("hard_core_boson_operator: the integrals are not read by ferm_op.get_coeffs(spatial=True)")
    branch = [n for n in ast.walk(f) if isinstance(n, ast.If) and isinstance(n.test, ast.Compare)
              and _name(n.test.left, "i") and isinstance(n.test.ops[0], ast.Eq) and _name(n.test.comparators[0], "j")]
    if len(branch) != 1:
        raise TranslateError("hard_core_boson_operator: the branch `if i == j` was not found exactly once")

    def block(stmts, what):
        """alternating  name = <linear expr> ; boson_op += BosonOperator(f"...", name)  ->  {template: linear expr}"""
        res, env = {}, {}
        for st in stmts:
            if isinstance(st, ast.Assign) and len(st.targets) == 1 and isinstance(st.targets[0], ast.Name):
                env[st.targets[0].id] = _lin(st.value, "%s.%s" % (what, st.targets[0].id))
            elif isinstance(st, ast.AugAssign) and _name(st.target, "boson_op") and isinstance(st.op, ast.Add) \
                    and isinstance(st.value, ast.Call) and _name(st.value.func, "BosonOperator") and len(st.value.args) == 2 \
                    and isinstance(st.value.args[0], ast.JoinedStr) and isinstance(st.value.args[1], ast.Name):
                tpl = ""
                for part in st.value.args[0].values:
                    if isinstance(part, ast.Constant):
                        tpl += part.value
                    elif isinstance(part, ast.FormattedValue) and isinstance(part.value, ast.Name):
                        tpl += "{%s}" % part.value.id
                    else:
                        raise TranslateError("%s: unexpected f-string part" % what)
                if st.value.args[1].id not in env:
                    raise TranslateError("%s: coefficient %s is not assigned in the same block" % (what, st.value.args[1].id))
                res[tpl] = env[st.value.args[1].id]
            else:
                raise TranslateError("%s: unexpected statement %s" % (what, _dump(st)[:120]))
        return res
    d = block(branch[0].body, "i==j")
    o = block(branch[0].orelse, "i!=j")
    if set(d) != {"{i}^ {i}"} or set(o) != {"{i}^ {j}", "{i}^ {i} {j}^ {j}"}:
        raise TranslateError("hard_core_boson_operator: unexpected boson terms %s / %s" % (sorted(d), sorted(o)))
    out["diag"], out["hop"], out["rep"] = d["{i}^ {i}"], o["{i}^ {j}"], o["{i}^ {i} {j}^ {j}"]

    # spatial_from_spinorb: one_body_integrals[p, q] = one_body_coefficients[2*p, 2*q];
    #                       two_body_integrals[p, q, r, s] = two_body_coefficients[2*p, 2*q+1, 2*r+1, 2*s]
    c = parse(repo / "tangelo/toolboxes/molecular_computation/coefficients.py")
    sf = find_def(c, "spatial_from_spinorb")
    pats = {}
    for n in ast.walk(sf):
        if isinstance(n, ast.Assign) and isinstance(n.targets[0], ast.Subscript) and isinstance(n.value, ast.Subscript) \
                and isinstance(n.targets[0].value, ast.Name) and isinstance(n.value.value, ast.Name):
            tv = [getattr(e, "id", None) for e in n.targets[0].slice.elts]
            aff = [_affine(e, "spatial_from_spinorb") for e in n.value.slice.elts]
            if [v for _, v, _ in aff] != tv:
                raise TranslateError("spatial_from_spinorb: source indices %s do not follow the target order %s" % (aff, tv))
            pats[(n.targets[0].value.id, n.value.value.id)] = [(m, o) for m, _, o in aff]
    want = {("one_body_integrals", "one_body_coefficients"): 2, ("two_body_integrals", "two_body_coefficients"): 4}
    if set(pats) != set(want) or any(len(pats[k]) != v for k, v in want.items()):
        raise TranslateError("spatial_from_spinorb: unexpected tensor assignments %s" % sorted(pats))
    out["one"] = pats[("one_body_integrals", "one_body_coefficients")]
    out["two"] = pats[("two_body_integrals", "two_body_coefficients")]
    return out



# last-known-good table constants (the values extracted from /repo when the check was built).  Used ONLY when the
# translator no longer recognises the source, so that the correspondence and the oracles still run; the evidence
# then says so.  On a recognised source everything is regenerated from /repo.
FALLBACK = {"jkmn": {"sigma": ["X", "Y", "Z"], "base": 3, "sub": 1, "div": 2},
            "comb": {"base": [(0, False, (0, 0), False, (1, 1)), (1, False, (0, 1), False, (1, 0)),
                              (2, False, (0, 0), True, (1, 1)), (3, True, (0, 1), True, (1, 0))],
                     "pairs": {(0, 0): "I", (1, 0): "X", (0, 1): "Z", "else": "Y"}},
            "hcb": {"tei_scale": 2,
                    "diag": [(2, "e_sei", ("i", "i")), (1, "e_tei", ("i", "i", "i", "i"))],
                    "hop": [(1, "e_tei", ("i", "i", "j", "j"))],
                    "rep": [(2, "e_tei", ("i", "j", "j", "i")), (-1, "e_tei", ("i", "j", "i", "j"))],
                    "one": [(2, 0), (2, 0)], "two": [(2, 0), (2, 1), (2, 1), (2, 0)]}}


def extract(repo):
    return {"jkmn": extract_jkmn(repo), "comb": extract_comb(repo), "hcb": extract_hcb(repo)}


def extract_parts(repo):
    """each source file separately: (tables with FALLBACK entries where a part failed, {part: error})"""
    out, errors = {}, {}
    for part, fn in (("jkmn", extract_jkmn), ("comb", extract_comb), ("hcb", extract_hcb)):
        try:
            out[part] = fn(repo)
        except Exception as e:
            out[part] = FALLBACK[part]
            errors[part] = str(e)
    return out, errors


def emit(t):
    j, c, h = t["jkmn"], t["comb"], t["hcb"]

    def lin(l):
        return "[%s]" % "; ".join("((%d)%%Z, %s %s)" % (m, "ASei" if ten == "e_sei" else "ATei",
                                                       " ".join("II" if v == "i" else "JJ" for v in idx))
                                   for m, ten, idx in l)

    def pat(l):
        return "[%s]" % "; ".join("(%d%%N, %d%%N)" % (m, o) for m, o in l)
    lines = ["(* generated by translator/encoding_tables.py from jkmn.py and combinatorial.py — do not edit *)",
             "From Coq Require Import NArith List Bool.",
             "From Coq Require Import ZArith.",
             "From Tangelo Require Import Pauli.Word Fermion.JKMN Fermion.Comb Fermion.HCB.",
             "Import ListNotations.",
             "Definition jkmn_tab_gen : jkmn_tab := mkJT [%s] %d%%N %d%%N %d%%N." % (
                 "; ".join(PAULI[x] for x in j["sigma"]), j["base"], j["sub"], j["div"]),
             "(* recursive_mapping base case: (key, coefficient is 0.5j?, first entry, minus?, second entry) *)",
             "Definition comb_base_gen : list comb_base_entry := [%s]." % "; ".join(
                 "(%d%%N, %s, (%d%%N, %d%%N), %s, (%d%%N, %d%%N))" % (
                     k, "true" if im else "false", a[0], a[1], "true" if minus else "false", b[0], b[1])
                 for (k, im, a, minus, b) in c["base"]),
             "(* int_to_tuple: Pauli for the bit pair (x, z) = (1,0), (0,1), (1,1) *)",
             "Definition comb_pairs_gen : pauli * pauli * pauli := (%s, %s, %s)." % (
                 PAULI[c["pairs"][(1, 0)]], PAULI[c["pairs"][(0, 1)]], PAULI[c["pairs"]["else"]]),
             "(* hcb.py hard_core_boson_operator + coefficients.py spatial_from_spinorb: every tensor access *)",
             "Definition hcb_tab_gen : hcb_tab := mkHT (%d)%%Z %s %s %s %s %s." % (
                 h["tei_scale"], lin(h["diag"]), lin(h["hop"]), lin(h["rep"]), pat(h["one"]), pat(h["two"])),
             ""]
    return "\n".join(lines)
