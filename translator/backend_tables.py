"""Regenerate gen/BackendTables.v (property C01) from

    tangelo/linq/translator/translate_cirq.py    gate dispatch of translate_c_to_cirq, GATE_CIRQ,
                                                 exponent / global_shift expressions of ZPowGate / XXPowGate
    tangelo/linq/translator/translate_sympy.py   gate dispatch of translate_c_to_sympy, GATE_SYMPY, the four
                                                 hand-written rotation matrices, iteration / product order
    tangelo/linq/target/target_cirq.py, target_sympy.py     the advertised statevector_order

Pure `ast` pattern matching, no import or execution of Tangelo; every shape that is not recognised raises
TranslateError (fail closed).  The emitted definitions use the vocabulary of coq/theories/Linq/Backend.v.
"""
import ast
from fractions import Fraction

from .common import parse, find_def, str_collection, coq_string_list, TranslateError


# ------------------------------------------------------------------------------------------ helpers
def _is_gate_attr(n, attr):
    return isinstance(n, ast.Attribute) and n.attr == attr and isinstance(n.value, ast.Name) and n.value.id == "gate"


def _name_test(test, fn):
    """`gate.name in {...}` [and gate.parameter == ""]  ->  (names, needs_noparam)."""
    needs = False
    if isinstance(test, ast.BoolOp) and isinstance(test.op, ast.And) and len(test.values) == 2:
        t2 = test.values[1]
        if not (isinstance(t2, ast.Compare) and len(t2.ops) == 1 and isinstance(t2.ops[0], ast.Eq)
                and _is_gate_attr(t2.left, "parameter") and isinstance(t2.comparators[0], ast.Constant)
                and t2.comparators[0].value == ""):
            raise TranslateError("%s: unexpected second condition of a branch test: %s" % (fn, ast.unparse(test)))
        needs = True
        test = test.values[0]
    if not (isinstance(test, ast.Compare) and len(test.ops) == 1 and isinstance(test.ops[0], ast.In)
            and _is_gate_attr(test.left, "name")):
        raise TranslateError("%s: branch test is not `gate.name in {...}`: %s" % (fn, ast.unparse(test)))
    return sorted(str_collection(test.comparators[0], fn + " branch names")), needs


def _branch_usage(body, fn, names):
    """How a branch body uses gate.control / gate.target / gate.parameter."""
    used_all_list = used_all_num = used_first = used_whole = False
    targets = set()
    param = False
    parents = {}
    for st in body:
        for n in ast.walk(st):
            for ch in ast.iter_child_nodes(n):
                parents[ch] = n
    for st in body:
        for n in ast.walk(st):
            if isinstance(n, ast.Name) and n.id == "control_list":
                p = parents.get(n)
                if not isinstance(p, ast.Starred):
                    raise TranslateError("%s %s: control_list used other than as *control_list" % (fn, names))
                used_all_list = True
            elif isinstance(n, ast.Name) and n.id == "num_controls":
                p = parents.get(n)
                if not (isinstance(p, ast.Call) and isinstance(p.func, ast.Attribute) and p.func.attr == "controlled"
                        and len(p.args) == 1 and p.args[0] is n):
                    raise TranslateError("%s %s: num_controls used other than as .controlled(num_controls)" % (fn, names))
                used_all_num = True
            elif _is_gate_attr(n, "control"):
                p = parents.get(n)
                if isinstance(p, ast.Subscript) and p.value is n and isinstance(p.slice, ast.Constant) and p.slice.value == 0:
                    used_first = True
                elif isinstance(p, ast.Call) and isinstance(p.func, ast.Name) and p.func.id in ("tuple", "list") \
                        and len(p.args) == 1 and p.args[0] is n and not p.keywords:
                    used_whole = True           # the whole control list is handed on: tuple(gate.control)
                else:
                    raise TranslateError("%s %s: gate.control used other than as gate.control[0] / tuple(gate.control): %s"
                                         % (fn, names, ast.unparse(p) if p is not None else "?"))
            elif _is_gate_attr(n, "target"):
                p = parents.get(n)
                if not (isinstance(p, ast.Subscript) and p.value is n and isinstance(p.slice, ast.Constant)
                        and isinstance(p.slice.value, int)):
                    raise TranslateError("%s %s: gate.target used other than as gate.target[k]" % (fn, names))
                targets.add(p.slice.value)
            elif _is_gate_attr(n, "parameter"):
                param = True
    if used_all_list != used_all_num:
        raise TranslateError("%s %s: *control_list and .controlled(num_controls) must be used together" % (fn, names))
    if (used_all_list or used_whole) and used_first:
        raise TranslateError("%s %s: mixes the whole control list and gate.control[0]" % (fn, names))
    if targets not in ({0}, {0, 1}):
        raise TranslateError("%s %s: reads gate.target at indices %s" % (fn, names, sorted(targets)))
    ctrl = "CAll" if (used_all_list or used_whole) else ("CFirst" if used_first else "CNone")
    return ctrl, len(targets), param


def _if_chain(node, fn):
    """if/elif/.../else chain -> list of (test, body), else-body."""
    out = []
    while True:
        out.append((node.test, node.body))
        if len(node.orelse) == 1 and isinstance(node.orelse[0], ast.If):
            node = node.orelse[0]
            continue
        return out, node.orelse


def _check_else_raises(orelse, fn):
    if not (len(orelse) == 1 and isinstance(orelse[0], ast.Raise) and isinstance(orelse[0].exc, ast.Call)
            and isinstance(orelse[0].exc.func, ast.Name) and orelse[0].exc.func.id == "ValueError"):
        raise TranslateError("%s: the final else of the dispatch does not raise ValueError" % fn)


def _gate_loop(fdef, fn):
    loops = [n for n in fdef.body if isinstance(n, ast.For) and isinstance(n.target, ast.Name) and n.target.id == "gate"]
    if len(loops) != 1:
        raise TranslateError("%s: expected exactly one `for gate in ...` loop" % fn)
    return loops[0]


def _gate_map(tree, getter, var):
    """GATE_X["NAME"] = <expr> assignments of get_x_gates -> list of (name, source text), last wins."""
    f = find_def(tree, getter)
    out = {}
    order = []
    for st in f.body:
        if isinstance(st, ast.Assign) and len(st.targets) == 1 and isinstance(st.targets[0], ast.Subscript) \
                and isinstance(st.targets[0].value, ast.Name) and st.targets[0].value.id == var:
            k = st.targets[0].slice
            if not (isinstance(k, ast.Constant) and isinstance(k.value, str)):
                raise TranslateError("%s: non-literal key in %s[...]" % (getter, var))
            if k.value not in out:
                order.append(k.value)
            out[k.value] = ast.unparse(st.value)
    if not out:
        raise TranslateError("%s: no %s[...] assignment found" % (getter, var))
    return [(k, out[k]) for k in order]


# ------------------------------------------------------------------------------------------ cirq
def _extract_cirq(tree):
    fn = "translate_c_to_cirq"
    f = find_def(tree, fn)
    # `from math import pi`
    has_pi = any(isinstance(n, ast.ImportFrom) and n.module == "math" and any(a.name == "pi" and a.asname is None for a in n.names)
                 for n in tree.body)
    loop = _gate_loop(f, fn)
    if ast.unparse(loop.iter) != "source_circuit._gates":
        raise TranslateError("%s: the gate loop does not iterate over source_circuit._gates in order: %s" % (fn, ast.unparse(loop.iter)))
    # classify the statements of the loop body: the control preamble, the name dispatch, and statements that
    # cannot influence the translated gate (assignments to other names; the noise section, property C19)
    protected = {"gate", "num_controls", "control_list", "qubit_list", "target_circuit", "GATE_CIRQ"}
    pre = dispatch_if = None
    no_control_rejected = []
    for st in loop.body:
        if isinstance(st, ast.If) and ast.unparse(st.test) == "gate.control is not None":
            if pre is not None or dispatch_if is not None:
                raise TranslateError("%s: unexpected position of `if gate.control is not None:`" % fn)
            if st.orelse:
                # elif gate.name in {...}: raise ValueError(...)   -- "C..." names are refused when the gate has no control
                e = st.orelse
                if not (len(e) == 1 and isinstance(e[0], ast.If) and not e[0].orelse and len(e[0].body) == 1):
                    raise TranslateError("%s: unexpected else-part of `if gate.control is not None:`" % fn)
                rej_names, rej_needs = _name_test(e[0].test, fn)
                _check_else_raises(e[0].body, fn)
                if rej_needs:
                    raise TranslateError("%s: unexpected test in the no-control rejection" % fn)
                no_control_rejected = rej_names
            pre = st
        elif isinstance(st, ast.If) and ast.unparse(st.test).startswith("gate.name in"):
            if dispatch_if is not None or pre is None:
                raise TranslateError("%s: expected one gate-name dispatch after the control preamble" % fn)
            dispatch_if = st
        elif isinstance(st, ast.If) and ast.unparse(st.test).startswith("noise_model and") and dispatch_if is not None:
            continue
        elif isinstance(st, ast.Assign) and len(st.targets) == 1 and isinstance(st.targets[0], ast.Name) \
                and st.targets[0].id not in protected:
            continue
        else:
            raise TranslateError("%s: unexpected statement in the gate loop: %s" % (fn, ast.unparse(st)[:80]))
    if pre is None or dispatch_if is None:
        raise TranslateError("%s: control preamble or gate-name dispatch not found" % fn)
    renames = []
    seen = set()
    for st in pre.body:
        src = ast.unparse(st)
        if src == "num_controls = len(gate.control)":
            seen.add("num")
        elif src == "control_list = [qubit_list[c] for c in gate.control]":
            seen.add("list")
        elif isinstance(st, ast.If):
            t = st.test
            if not (isinstance(t, ast.BoolOp) and isinstance(t.op, ast.And) and len(t.values) == 2
                    and isinstance(t.values[0], ast.Compare) and isinstance(t.values[0].ops[0], ast.Eq)
                    and _is_gate_attr(t.values[0].left, "name") and isinstance(t.values[0].comparators[0], ast.Constant)
                    and ast.unparse(t.values[1]) == "num_controls > 1" and not st.orelse):
                raise TranslateError("%s: unexpected statement in the control preamble: %s" % (fn, src))
            frm = t.values[0].comparators[0].value
            to = None
            for s2 in st.body:
                s2src = ast.unparse(s2)
                if s2src == "gate = copy.copy(gate)":
                    continue
                if isinstance(s2, ast.Assign) and len(s2.targets) == 1 and _is_gate_attr(s2.targets[0], "name") \
                        and isinstance(s2.value, ast.Constant) and isinstance(s2.value.value, str):
                    to = s2.value.value
                    continue
                raise TranslateError("%s: unexpected statement in the renaming branch: %s" % (fn, s2src))
            if to is None:
                raise TranslateError("%s: renaming branch does not assign gate.name" % fn)
            renames.append((frm, to))
        else:
            raise TranslateError("%s: unexpected statement in the control preamble: %s" % (fn, src))
    if seen != {"num", "list"}:
        raise TranslateError("%s: num_controls / control_list are not both defined from gate.control" % fn)
    # 2. dispatch chain
    chain, orelse = _if_chain(dispatch_if, fn)
    _check_else_raises(orelse, fn)
    gmap = dict(_gate_map(tree, "get_cirq_gates", "GATE_CIRQ"))
    branches, pow_uses, plain_param = [], [], []
    for test, bbody in chain:
        names, needs = _name_test(test, fn)
        ctrl, ntargets, param = _branch_usage(bbody, fn, names)
        branches.append((names, ctrl, ntargets, param, needs))
        if param:
            # the constructor call GATE_CIRQ[gate.name](<args>) that receives the parameter
            calls = [n for st in bbody for n in ast.walk(st)
                     if isinstance(n, ast.Call) and ast.unparse(n.func) == "GATE_CIRQ[gate.name]"]
            if len(calls) != 1:
                raise TranslateError("%s %s: expected one GATE_CIRQ[gate.name](...) call" % (fn, names))
            c = calls[0]
            if len(c.args) == 1 and not c.keywords and _is_gate_attr(c.args[0], "parameter"):
                plain_param.extend(names)
            elif not c.args and c.keywords:
                kw = {k.arg: k.value for k in c.keywords}
                if set(kw) - {"exponent", "global_shift"} or "exponent" not in kw:
                    raise TranslateError("%s %s: unexpected keywords %s" % (fn, names, sorted(kw)))
                e = kw["exponent"]
                if isinstance(e, ast.BinOp) and isinstance(e.op, ast.Div) and _is_gate_attr(e.left, "parameter") \
                        and isinstance(e.right, ast.Name) and e.right.id == "pi" and has_pi:
                    pexp = "PEParamOverPi"
                else:
                    pexp = "PEOther"
                shift = Fraction(0)
                if "global_shift" in kw:
                    try:
                        shift = Fraction(ast.literal_eval(kw["global_shift"])).limit_denominator(10 ** 6)
                    except Exception:
                        raise TranslateError("%s %s: global_shift is not a numeric literal" % (fn, names))
                if (shift * 2).denominator != 1:
                    raise TranslateError("%s %s: global_shift %s is not a multiple of 1/2" % (fn, names, shift))
                for nm in names:
                    if nm not in gmap:
                        raise TranslateError("%s: %s has no GATE_CIRQ entry" % (fn, nm))
                    pow_uses.append((nm, gmap[nm], pexp, int(shift * 2)))
            else:
                raise TranslateError("%s %s: unexpected use of gate.parameter: %s" % (fn, names, ast.unparse(c)))
    # 3. identity on every qubit of the declared width (informational)
    src_f = ast.unparse(f)
    ident = ("qubit_list = cirq.LineQubit.range(source_circuit.width)" in src_f
             and "target_circuit.append(cirq.I.on_each(qubit_list))" in src_f)
    return {"branches": branches, "renames": renames, "gate_map": list(gmap.items()), "pow_uses": pow_uses,
            "plain_param": sorted(plain_param), "identity_on_each": ident, "no_control_rejected": no_control_rejected}


# ------------------------------------------------------------------------------------------ sympy
class _Expr:
    """Translation of the entries of the hand-written sympy matrices to Coq terms over a KS `S`."""

    def __init__(self, fn, env, theta):
        self.fn, self.env, self.theta = fn, env, theta

    def monomial(self, n):
        """c * I^a * theta^b -> (Fraction c, a, b)."""
        if isinstance(n, ast.Constant) and isinstance(n.value, (int, float)) and not isinstance(n.value, bool):
            return (Fraction(n.value).limit_denominator(10 ** 6), 0, 0)
        if isinstance(n, ast.Name) and n.id == "I":
            return (Fraction(1), 1, 0)
        if isinstance(n, ast.Name) and n.id == self.theta:
            return (Fraction(1), 0, 1)
        if isinstance(n, ast.UnaryOp) and isinstance(n.op, ast.USub):
            c, a, b = self.monomial(n.operand)
            return (-c, a, b)
        if isinstance(n, ast.BinOp) and isinstance(n.op, ast.Mult):
            c1, a1, b1 = self.monomial(n.left)
            c2, a2, b2 = self.monomial(n.right)
            return (c1 * c2, a1 + a2, b1 + b2)
        if isinstance(n, ast.BinOp) and isinstance(n.op, ast.Div):
            c1, a1, b1 = self.monomial(n.left)
            c2, a2, b2 = self.monomial(n.right)
            if c2 == 0 or a2 or b2:
                raise TranslateError("%s: unsupported divisor %s" % (self.fn, ast.unparse(n.right)))
            return (c1 / c2, a1, b1)
        raise TranslateError("%s: unsupported argument expression %s" % (self.fn, ast.unparse(n)))

    def tr(self, n):
        if isinstance(n, ast.Constant) and isinstance(n.value, int) and not isinstance(n.value, bool):
            if n.value == 0:
                return "k0"
            if n.value == 1:
                return "k1"
            raise TranslateError("%s: unsupported integer %r in a matrix entry" % (self.fn, n.value))
        if isinstance(n, ast.Name):
            if n.id == "I":
                return "ki"
            if n.id in self.env:
                return self.env[n.id]
            raise TranslateError("%s: unknown name %s in a matrix entry" % (self.fn, n.id))
        if isinstance(n, ast.UnaryOp) and isinstance(n.op, ast.USub):
            return "(kopp %s)" % self.tr(n.operand)
        if isinstance(n, ast.BinOp) and isinstance(n.op, (ast.Mult, ast.Add, ast.Sub)):
            op = {ast.Mult: "kmul", ast.Add: "kadd", ast.Sub: "ksub"}[type(n.op)]
            return "(%s %s %s)" % (op, self.tr(n.left), self.tr(n.right))
        if isinstance(n, ast.Call) and isinstance(n.func, ast.Name) and len(n.args) == 1 and not n.keywords:
            f = n.func.id
            c, a, b = self.monomial(n.args[0])
            if f in ("cos", "sin"):
                if (c, a, b) != (Fraction(1, 2), 0, 1):
                    raise TranslateError("%s: %s(...) of something other than theta/2: %s" % (self.fn, f, ast.unparse(n)))
                return "(%s S theta)" % ("cosh_" if f == "cos" else "sinh_")
            if f == "exp":
                if a != 1 or b != 1 or (c * 2).denominator != 1:
                    raise TranslateError("%s: exp(...) of something other than (k/2)*I*theta: %s" % (self.fn, ast.unparse(n)))
                return "(cis_z S theta (%d)%%Z)" % int(c * 2)
        raise TranslateError("%s: unsupported matrix entry %s" % (self.fn, ast.unparse(n)))


def _sympy_matrix(tree, fname):
    f = find_def(tree, fname)
    args = [a.arg for a in f.args.args]
    if len(args) != 2 or args[0] != "target":
        raise TranslateError("%s: expected parameters (target, theta)" % fname)
    theta = args[1]
    env = {}
    ex = _Expr(fname, env, theta)
    matrix = None
    ret = None
    for st in f.body:
        if isinstance(st, ast.Expr) and isinstance(st.value, ast.Constant):
            continue                                    # docstring
        if isinstance(st, (ast.Import, ast.ImportFrom)):
            if isinstance(st, ast.ImportFrom) and st.module in ("sympy", "sympy.physics.quantum.gate") \
                    and all(a.asname is None for a in st.names):
                continue
            raise TranslateError("%s: unexpected import %s" % (fname, ast.unparse(st)))
        if isinstance(st, ast.Assign) and len(st.targets) == 1 and isinstance(st.targets[0], ast.Name):
            nm = st.targets[0].id
            v = st.value
            if isinstance(v, ast.Call) and isinstance(v.func, ast.Name) and v.func.id == "ImmutableMatrix":
                if not (len(v.args) == 1 and isinstance(v.args[0], ast.List) and len(v.args[0].elts) == 2
                        and all(isinstance(r, ast.List) and len(r.elts) == 2 for r in v.args[0].elts)):
                    raise TranslateError("%s: matrix is not a 2x2 list literal" % fname)
                matrix = (nm, [[ex.tr(e) for e in r.elts] for r in v.args[0].elts])
            else:
                env[nm] = ex.tr(v)
            continue
        if isinstance(st, ast.Return):
            ret = st
            continue
        raise TranslateError("%s: unexpected statement %s" % (fname, ast.unparse(st)))
    if matrix is None or ret is None or ast.unparse(ret.value) != "UGate(target, %s)" % matrix[0]:
        raise TranslateError("%s: does not return UGate(target, <its 2x2 matrix>)" % fname)
    return matrix[1]


def _extract_sympy(tree):
    fn = "translate_c_to_sympy"
    f = find_def(tree, fn)
    loop = _gate_loop(f, fn)
    it = ast.unparse(loop.iter)
    if it == "reversed(source_circuit._gates)":
        iter_reversed = True
    elif it == "source_circuit._gates":
        iter_reversed = False
    else:
        raise TranslateError("%s: unexpected iteration %s" % (fn, it))
    init = [st for st in f.body if isinstance(st, ast.Assign) and ast.unparse(st.targets[0]) == "target_circuit"]
    if len(init) != 1 or ast.unparse(init[0].value) != "1":
        raise TranslateError("%s: target_circuit is not initialised with 1" % fn)
    body = list(loop.body)
    # optional: `if gate.parameter and isinstance(gate.parameter, str): gate = copy.copy(gate); gate.parameter = symbols(...)`
    chains = [st for st in body if isinstance(st, ast.If) and isinstance(st.test, (ast.Compare, ast.BoolOp))
              and "gate.name in" in ast.unparse(st.test)]
    others = [st for st in body if st not in chains]
    for st in others:
        if not (isinstance(st, ast.If) and ast.unparse(st.test) == "gate.parameter and isinstance(gate.parameter, str)"):
            raise TranslateError("%s: unexpected statement in the gate loop: %s" % (fn, ast.unparse(st)[:80]))
    if len(chains) != 1:
        raise TranslateError("%s: expected exactly one gate-name dispatch" % fn)
    chain, orelse = _if_chain(chains[0], fn)
    _check_else_raises(orelse, fn)
    branches = []
    overrides = []          # (name, constructor source) used instead of GATE_SYMPY[name] when there are several controls
    sides = set()

    SINGLE = "len(gate.control) == 1"

    def product(st, names, funcs):
        """`target_circuit *= F(args)` (or `target_circuit = F(args) * target_circuit`) -> the call node."""
        if isinstance(st, ast.AugAssign) and isinstance(st.op, ast.Mult) and ast.unparse(st.target) == "target_circuit":
            sides.add(True)
            call = st.value
        elif isinstance(st, ast.Assign) and ast.unparse(st.targets[0]) == "target_circuit" and isinstance(st.value, ast.BinOp) \
                and isinstance(st.value.op, ast.Mult) and ast.unparse(st.value.right) == "target_circuit":
            sides.add(False)
            call = st.value.left
        else:
            raise TranslateError("%s %s: statement does not multiply target_circuit: %s" % (fn, names, ast.unparse(st)))
        if not (isinstance(call, ast.Call) and ast.unparse(call.func) in funcs and not call.keywords):
            raise TranslateError("%s %s: expected %s(...), got %s" % (fn, names, " / ".join(funcs), ast.unparse(call)[:80]))
        return call

    def args_shape(call, names, ctrl_srcs):
        """(control?, target[0](, target[1]), parameter?) -> (control source or None, number of targets, parameter read)."""
        got = [ast.unparse(a) for a in call.args]
        csrc = None
        if got and got[0] in ctrl_srcs:
            csrc = got.pop(0)
        param = bool(got) and got[-1] == "gate.parameter"
        if param:
            got.pop()
        if got not in (["gate.target[0]"], ["gate.target[0]", "gate.target[1]"]):
            raise TranslateError("%s %s: unexpected constructor arguments %s" % (fn, names, [ast.unparse(a) for a in call.args]))
        return csrc, len(got), param

    for test, bbody in chain:
        names, needs = _name_test(test, fn)
        stmts = [st for st in bbody]
        if len(stmts) == 1 and isinstance(stmts[0], ast.If) and ast.unparse(stmts[0].test) == SINGLE:
            # if len(gate.control) == 1: <product with gate.control[0]>  else: [import]; [F = A if gate.name in {..} else GATE_SYMPY[gate.name]]; <product with tuple(gate.control)>
            node = stmts[0]
            if len(node.body) != 1:
                raise TranslateError("%s %s: single-control arm is not one statement" % (fn, names))
            c1 = product(node.body[0], names, ["GATE_SYMPY[gate.name]"])
            s1 = args_shape(c1, names, ["gate.control[0]"])
            funcs = ["GATE_SYMPY[gate.name]"]
            rest = list(node.orelse)
            while rest and isinstance(rest[0], ast.ImportFrom) and rest[0].module == "sympy.physics.quantum.gate":
                rest.pop(0)
            if len(rest) == 2 and isinstance(rest[0], ast.Assign) and len(rest[0].targets) == 1 and isinstance(rest[0].targets[0], ast.Name) \
                    and isinstance(rest[0].value, ast.IfExp):
                ife = rest[0].value
                t = ife.test
                if not (isinstance(t, ast.Compare) and len(t.ops) == 1 and isinstance(t.ops[0], ast.In) and _is_gate_attr(t.left, "name")
                        and ast.unparse(ife.orelse) == "GATE_SYMPY[gate.name]"):
                    raise TranslateError("%s %s: unexpected choice of the multi-controlled constructor: %s" % (fn, names, ast.unparse(ife)))
                onames = str_collection(t.comparators[0], fn + " multi-control override names")
                if not set(onames) <= set(names):
                    raise TranslateError("%s %s: override names %s are not names of the branch" % (fn, names, onames))
                overrides += [(nm, ast.unparse(ife.body)) for nm in sorted(onames)]
                funcs = [rest[0].targets[0].id]
                rest.pop(0)
            if len(rest) != 1:
                raise TranslateError("%s %s: unexpected statements in the multi-control arm" % (fn, names))
            c2 = product(rest[0], names, funcs)
            s2 = args_shape(c2, names, ["tuple(gate.control)", "list(gate.control)"])
            if s1[0] is None or s2[0] is None or s1[1:] != s2[1:]:
                raise TranslateError("%s %s: the two arms of `if %s` do not pass (controls, same targets, same parameter)" % (fn, names, SINGLE))
            branches.append((names, "CSplit", s1[1], s1[2], needs))
            continue
        ctrl_var = None
        if len(stmts) == 2 and isinstance(stmts[0], ast.Assign) and len(stmts[0].targets) == 1 and isinstance(stmts[0].targets[0], ast.Name):
            # controls = gate.control[0] if len(gate.control) == 1 else tuple(gate.control)
            v = stmts[0].value
            if not (isinstance(v, ast.IfExp) and ast.unparse(v.test) == SINGLE and ast.unparse(v.body) == "gate.control[0]"
                    and ast.unparse(v.orelse) in ("tuple(gate.control)", "list(gate.control)")):
                raise TranslateError("%s %s: unexpected assignment %s" % (fn, names, ast.unparse(stmts[0])))
            ctrl_var = stmts[0].targets[0].id
            stmts = stmts[1:]
        if len(stmts) != 1:
            raise TranslateError("%s %s: branch body is not a single product" % (fn, names))
        call = product(stmts[0], names, ["GATE_SYMPY[gate.name]"])
        csrc, ntargets, param = args_shape(call, names, ["gate.control[0]", "tuple(gate.control)", "list(gate.control)"] + ([ctrl_var] if ctrl_var else []))
        if ctrl_var is not None and csrc != ctrl_var:
            raise TranslateError("%s %s: %s is assigned but not passed as the control argument" % (fn, names, ctrl_var))
        ctrl = "CNone" if csrc is None else ("CSplit" if csrc == ctrl_var else ("CFirst" if csrc == "gate.control[0]" else "CAll"))
        # nothing else in the branch may look at the controls
        u_ctrl, u_nt, u_par = _branch_usage(stmts, fn, names)
        if (u_ctrl == "CNone") != (ctrl == "CNone" or ctrl_var is not None) or u_nt != ntargets or u_par != param:
            raise TranslateError("%s %s: the branch reads gate attributes outside the constructor arguments" % (fn, names))
        branches.append((names, ctrl, ntargets, param, needs))
    if len(sides) != 1:
        raise TranslateError("%s: branches multiply on different sides" % fn)
    mul_right = sides.pop()
    cg = find_def(tree, "controlled_gate")
    inner = [n for n in cg.body if isinstance(n, ast.FunctionDef)]
    if len(inner) != 1 or [a.arg for a in inner[0].args.args] != ["control", "target"] \
            or ast.unparse(inner[0].body[-1]) != "return CGate(control, gate_function(target, *args, **kwargs))":
        raise TranslateError("controlled_gate: unexpected shape")
    mats = {nm: _sympy_matrix(tree, nm) for nm in ("rx_gate", "ry_gate", "rz_gate", "p_gate")}
    return {"branches": branches, "renames": [], "gate_map": _gate_map(tree, "get_sympy_gates", "GATE_SYMPY"),
            "multi_overrides": overrides, "iter_reversed": iter_reversed, "mul_right": mul_right, "matrices": mats}


def _advertised_order(tree, what):
    fs = [n for n in ast.walk(tree) if isinstance(n, ast.FunctionDef) and n.name == "backend_info"]
    if len(fs) != 1:
        raise TranslateError("%s: backend_info not found exactly once" % what)
    rets = [n for n in ast.walk(fs[0]) if isinstance(n, ast.Return)]
    if len(rets) != 1 or not isinstance(rets[0].value, ast.Dict):
        raise TranslateError("%s: backend_info does not return a dict literal" % what)
    d = rets[0].value
    for k, v in zip(d.keys, d.values):
        if isinstance(k, ast.Constant) and k.value == "statevector_order":
            if not (isinstance(v, ast.Constant) and isinstance(v.value, str)):
                raise TranslateError("%s: statevector_order is not a string literal" % what)
            return v.value
    raise TranslateError("%s: backend_info has no statevector_order" % what)


def _sampling_loop(tree):
    """Backend._statevector_to_frequencies, sampled part: the chunk constant and whether the chunk loop still has the
    shape that Backend.chunk_sizes models.  Never raises for a changed loop (the flag goes false and the theorem over it
    fails); raises only when the function itself is gone."""
    f = find_def(tree, "_statevector_to_frequencies", cls="Backend")
    chunk = None
    for n in ast.walk(f):
        if isinstance(n, ast.Assign) and len(n.targets) == 1 and isinstance(n.targets[0], ast.Name) and n.targets[0].id == "chunk_size":
            v = n.value
            try:
                if isinstance(v, ast.BinOp) and isinstance(v.op, ast.Pow) and isinstance(v.left, ast.Constant) and isinstance(v.right, ast.Constant) \
                        and isinstance(v.left.value, int) and isinstance(v.right.value, int) and 0 <= v.right.value <= 12:
                    chunk = v.left.value ** v.right.value
                elif isinstance(v, ast.Constant) and isinstance(v.value, int):
                    chunk = v.value
            except Exception:
                chunk = None
    src = [ast.unparse(n) for n in ast.walk(f) if isinstance(n, (ast.Assign, ast.For))]
    want_assign = ["n_chunks = self.n_shots // chunk_size", "this_chunk = self.n_shots % chunk_size if i == n_chunks else chunk_size"]
    loop = [n for n in ast.walk(f) if isinstance(n, ast.For) and ast.unparse(n.iter) == "range(n_chunks + 1)"]
    ok = chunk is not None and chunk > 0 and all(w in src for w in want_assign) and len(loop) == 1 \
        and any(ast.unparse(st) == "samples = distr.rvs(size=this_chunk)" for st in loop[0].body)
    # key -> integer -> key around the sampler (Backend.sample_value / sample_key)
    calls = [ast.unparse(n) for n in ast.walk(f) if isinstance(n, ast.Call)]
    keys_ok = "xk.append(int(k[::-1], 2))" in calls and "self._int_to_binstr(k, n_qubits, False)" in calls \
        and not any(c.startswith("self._int_to_binstr(k, n_qubits") and c != "self._int_to_binstr(k, n_qubits, False)" for c in calls)
    return {"chunk_size": chunk, "as_modelled": bool(ok), "keys_as_modelled": bool(keys_ok)}



def extract(repo):
    tc = parse(repo / "tangelo/linq/translator/translate_cirq.py")
    ts = parse(repo / "tangelo/linq/translator/translate_sympy.py")
    return {"cirq": _extract_cirq(tc), "sympy": _extract_sympy(ts),
            "cirq_order": _advertised_order(parse(repo / "tangelo/linq/target/target_cirq.py"), "target_cirq.py"),
            "sympy_order": _advertised_order(parse(repo / "tangelo/linq/target/target_sympy.py"), "target_sympy.py"),
            "sampling": _sampling_loop(parse(repo / "tangelo/linq/target/backend.py"))}


# ------------------------------------------------------------------------------------------ emit
def _coq_str(s):
    return '"%s"' % s.replace('"', '""')


def _coq_bool(b):
    return "true" if b else "false"


def _dispatch(d):
    bs = ["Branch %s %s %d %s %s" % (coq_string_list(n), c, k, _coq_bool(p), _coq_bool(q)) for (n, c, k, p, q) in d["branches"]]
    rs = ["Rename %s %s" % (_coq_str(a), _coq_str(b)) for (a, b) in d["renames"]]
    return "Dispatch\n  [ %s ]\n  [ %s ]" % (";\n    ".join(bs), "; ".join(rs))


def _pairs(l):
    return "[ " + ";\n    ".join("(%s, %s)" % (_coq_str(a), _coq_str(b)) for a, b in l) + " ]"


def emit(t):
    c, s = t["cirq"], t["sympy"]
    L = ["(* GENERATED by translator/backend_tables.py from tangelo/linq/translator/translate_cirq.py, translate_sympy.py,",
         "   tangelo/linq/target/target_cirq.py, target_sympy.py — do not edit *)",
         "From Coq Require Import String List ZArith NArith.",
         "From Tangelo Require Import Num.KStruct.",
         "From Tangelo Require Import QSem.State.",
         "From Tangelo Require Import Linq.Backend.",
         "Import ListNotations.", "Open Scope string_scope.", "",
         "Definition cirq_dispatch : dispatch := %s." % _dispatch(c),
         "Definition sympy_dispatch : dispatch := %s." % _dispatch(s),
         "Definition cirq_gate_map : list (string * string) :=\n  %s." % _pairs(c["gate_map"]),
         "Definition sympy_gate_map : list (string * string) :=\n  %s." % _pairs(s["gate_map"]),
         "(* name, constructor, exponent expression, global_shift in halves *)",
         "Definition cirq_pow_uses : list (string * pow_use) :=\n  [ %s ]." % ";\n    ".join(
             "(%s, PowUse %s %s (%d)%%Z)" % (_coq_str(nm), _coq_str(ctor), pe, sh) for (nm, ctor, pe, sh) in c["pow_uses"]),
         "(* constructors used instead of GATE_SYMPY[name] when a gate has several controls, in front of the table *)",
         "Definition sympy_multi_gate_map : list (string * string) :=\n  %s ++ sympy_gate_map." % (_pairs(s.get("multi_overrides", [])) if s.get("multi_overrides") else "[]"),
         "(* 'C...' names translate_c_to_cirq refuses when the gate has no control *)",
         "Definition cirq_no_control_rejected : list string := %s." % coq_string_list(c.get("no_control_rejected", [])),
         "(* names whose branch hands gate.parameter unchanged to the constructor *)",
         "Definition cirq_plain_param : list string := %s." % coq_string_list(c["plain_param"]),
         "Definition cirq_identity_on_each : bool := %s." % _coq_bool(c["identity_on_each"]),
         "Definition cirq_advertised_order : string := %s." % _coq_str(t["cirq_order"]),
         "Definition sympy_advertised_order : string := %s." % _coq_str(t["sympy_order"]),
         "(* sampled part of Backend._statevector_to_frequencies: chunk constant, loop shape = Backend.chunk_sizes *)",
         "Definition sampling_chunk_size : N := %d%%N." % (t.get("sampling", {}).get("chunk_size") or 0),
         "Definition sampling_loop_as_modelled : bool := %s." % _coq_bool(t.get("sampling", {}).get("as_modelled", False)),
         "(* the sampler's labels are int(k[::-1], 2) and are turned back with _int_to_binstr(k, n_qubits, False) *)",
         "Definition sampling_keys_as_modelled : bool := %s." % _coq_bool(t.get("sampling", {}).get("keys_as_modelled", False)),
         "Definition sympy_iter_reversed : bool := %s." % _coq_bool(s["iter_reversed"]),
         "Definition sympy_mul_right : bool := %s." % _coq_bool(s["mul_right"]),
         "",
         "(* the hand-written matrices of translate_sympy.py; cos(theta/2) = cosh_, sin(theta/2) = sinh_,",
         "   exp(k/2 * I * theta) = cis_z theta k  (cis theta = e^{i theta/2}) *)",
         "Section SympyMatrices.", "  Variable S : KS."]
    for py, coq in (("rx_gate", "sympy_rx"), ("ry_gate", "sympy_ry"), ("rz_gate", "sympy_rz"), ("p_gate", "sympy_p")):
        m = s["matrices"][py]
        L.append("  Definition %s (theta : A S) : mat2 S :=\n    Mat2 %s\n         %s\n         %s\n         %s."
                 % (coq, m[0][0], m[0][1], m[1][0], m[1][1]))
    L.append("End SympyMatrices.")
    return "\n".join(L) + "\n"


# ------------------------------------------------------------------------------------------ fallback
# Last-known-good tables (the output of extract() on the tree of 2026-10-01, after the fix: commits f745714, afe2f2a, 042efaa).  Used by harness/props/C01.py ONLY
# when extract() fails closed, so that the implementation-side oracles and the model correspondence still run;
# the evidence then says "FALLBACK constants", never "regenerated from /repo".
FALLBACK = {'cirq': {'branches': [(['H', 'S', 'SDAG', 'T', 'X', 'Y', 'Z'], 'CNone', 1, False, False),
                       (['CH', 'CX', 'CY', 'CZ'], 'CAll', 1, False, False),
                       (['RX', 'RY', 'RZ'], 'CNone', 1, True, False),
                       (['CNOT'], 'CFirst', 1, False, False),
                       (['MEASURE'], 'CNone', 1, False, False),
                       (['CRX', 'CRY', 'CRZ'], 'CAll', 1, True, False),
                       (['XX'], 'CNone', 2, True, False),
                       (['PHASE'], 'CNone', 1, True, False),
                       (['CPHASE'], 'CAll', 1, True, False),
                       (['SWAP'], 'CNone', 2, False, False),
                       (['CSWAP'], 'CAll', 2, False, False)],
          'renames': [('CNOT', 'CX')],
          'gate_map': [('H', 'cirq.H'),
                       ('X', 'cirq.X'),
                       ('Y', 'cirq.Y'),
                       ('Z', 'cirq.Z'),
                       ('CX', 'cirq.X'),
                       ('CY', 'cirq.Y'),
                       ('CZ', 'cirq.Z'),
                       ('S', 'cirq.S'),
                       ('SDAG', 'cirq.ZPowGate(exponent=-0.5)'),
                       ('T', 'cirq.T'),
                       ('CH', 'cirq.H'),
                       ('RX', 'cirq.rx'),
                       ('RY', 'cirq.ry'),
                       ('RZ', 'cirq.rz'),
                       ('CNOT', 'cirq.CNOT'),
                       ('CRZ', 'cirq.rz'),
                       ('CRX', 'cirq.rx'),
                       ('CRY', 'cirq.ry'),
                       ('PHASE', 'cirq.ZPowGate'),
                       ('CPHASE', 'cirq.ZPowGate'),
                       ('XX', 'cirq.XXPowGate'),
                       ('SWAP', 'cirq.SWAP'),
                       ('CSWAP', 'cirq.SWAP'),
                       ('MEASURE', 'cirq.measure'),
                       ('CMEASURE', 'cirq.measure')],
          'pow_uses': [('XX', 'cirq.XXPowGate', 'PEParamOverPi', -1),
                       ('PHASE', 'cirq.ZPowGate', 'PEParamOverPi', 0),
                       ('CPHASE', 'cirq.ZPowGate', 'PEParamOverPi', 0)],
          'plain_param': ['CRX', 'CRY', 'CRZ', 'RX', 'RY', 'RZ'],
          'identity_on_each': True,
          'no_control_rejected': ['CH', 'CNOT', 'CPHASE', 'CRX', 'CRY', 'CRZ', 'CSWAP', 'CX', 'CY', 'CZ']},
 'sympy': {'branches': [(['H', 'X', 'Y', 'Z'], 'CNone', 1, False, False),
                        (['S', 'T'], 'CNone', 1, False, True),
                        (['PHASE', 'RX', 'RY', 'RZ'], 'CNone', 1, True, False),
                        (['CH', 'CNOT', 'CS', 'CT', 'CX', 'CY', 'CZ'], 'CSplit', 1, False, False),
                        (['SWAP'], 'CNone', 2, False, False),
                        (['CPHASE', 'CRX', 'CRY', 'CRZ'], 'CSplit', 1, True, False)],
           'renames': [],
           'gate_map': [('H', 'SYMPYGate.HadamardGate'),
                        ('X', 'SYMPYGate.XGate'),
                        ('Y', 'SYMPYGate.YGate'),
                        ('Z', 'SYMPYGate.ZGate'),
                        ('S', 'SYMPYGate.PhaseGate'),
                        ('T', 'SYMPYGate.TGate'),
                        ('PHASE', 'p_gate'),
                        ('SWAP', 'SYMPYGate.SwapGate'),
                        ('RX', 'rx_gate'),
                        ('RY', 'ry_gate'),
                        ('RZ', 'rz_gate'),
                        ('CH', 'controlled_gate(SYMPYGate.HadamardGate)'),
                        ('CNOT', 'SYMPYGate.CNotGate'),
                        ('CX', 'SYMPYGate.CNotGate'),
                        ('CY', 'controlled_gate(SYMPYGate.YGate)'),
                        ('CZ', 'controlled_gate(SYMPYGate.ZGate)'),
                        ('CRX', 'controlled_gate(rx_gate)'),
                        ('CRY', 'controlled_gate(ry_gate)'),
                        ('CRZ', 'controlled_gate(rz_gate)'),
                        ('CS', 'controlled_gate(SYMPYGate.PhaseGate)'),
                        ('CT', 'controlled_gate(SYMPYGate.TGate)'),
                        ('CPHASE', 'controlled_gate(p_gate)')],
           'multi_overrides': [('CNOT', 'controlled_gate(XGate)'), ('CX', 'controlled_gate(XGate)')],
           'iter_reversed': True,
           'mul_right': True,
           'matrices': {'rx_gate': [['(cosh_ S theta)', '(kmul (kopp ki) (sinh_ S theta))'], ['(kmul (kopp ki) (sinh_ S theta))', '(cosh_ S theta)']],
                        'ry_gate': [['(cosh_ S theta)', '(kopp (sinh_ S theta))'], ['(sinh_ S theta)', '(cosh_ S theta)']],
                        'rz_gate': [['(cis_z S theta (-1)%Z)', 'k0'], ['k0', '(cis_z S theta (1)%Z)']],
                        'p_gate': [['k1', 'k0'], ['k0', '(cis_z S theta (2)%Z)']]}},
 'cirq_order': 'lsq_first',
 'sympy_order': 'msq_first',
 'sampling': {'chunk_size': 10000000, 'as_modelled': True, 'keys_as_modelled': True}}


if __name__ == "__main__":
    import sys
    from pathlib import Path
    print(emit(extract(Path(sys.argv[1] if len(sys.argv) > 1 else "/repo"))))
