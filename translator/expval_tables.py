"""Regenerate gen/ExpvalTables.v from tangelo/linq/helpers/circuits/measurement_basis.py and
tangelo/linq/target/backend.py (C02).  Fail closed: any shape not listed here raises TranslateError.

Extracted
  measurement_basis_gates   the chain  if pauli in {...}: pass / elif pauli == "X": gates.append(Gate(NAME, qubit_index,
                            parameter=ANGLE)) / ... / else: raise   ->  basis_table : Pauli letter -> None | (NAME, ANGLE in pi/8)
  Backend.get_expectation_value
                            the two guards (statevector support, term length vs circuit width), the set of complex
                            types, the condition of the `if` (frequency route) and of the `elif` (statevector route)
                            under `if are_coefficients_real`, and which private method each branch returns
  Backend._get_expectation_value_from_statevector
                            hasattr(self, "expectation_value_from_prepared_state") shortcut, `if not self.n_shots`
  Backend._get_expectation_value_from_frequencies / _get_variance_from_frequencies
                            the condition "simulate the whole circuit for every term"; whether desired_meas_result is
                            passed on to simulate()
  Backend.get_variance      whether the recursive calls of the complex branch pass desired_meas_result on
  Backend.get_standard_error  shape  np.sqrt(variance/self.n_shots) if self.n_shots else 0.
Conditions are emitted as Coq boolean functions of Linq.ExpPaths.cfg.
"""
import ast

from .common import parse, find_def, pi_multiple, units_of_pi8, TranslateError

BACKEND = "tangelo/linq/target/backend.py"
BASIS = "tangelo/linq/helpers/circuits/measurement_basis.py"


# ------------------------------------------------------------------------------------------ conditions -> Coq
def _is_self_attr(n, attr):
    return isinstance(n, ast.Attribute) and isinstance(n.value, ast.Name) and n.value.id == "self" and n.attr == attr


def _is_circ_attr(n, attr):
    return isinstance(n, ast.Attribute) and isinstance(n.value, ast.Name) and n.value.id == "state_prep_circuit" and n.attr == attr


def cond_to_coq(n):
    """Boolean expression over the recognised atoms -> Coq term of type bool with free variable c : cfg."""
    if isinstance(n, ast.BoolOp):
        op = " || " if isinstance(n.op, ast.Or) else " && "
        return "(" + op.join(cond_to_coq(v) for v in n.values) + ")"
    if isinstance(n, ast.UnaryOp) and isinstance(n.op, ast.Not):
        return "negb " + cond_to_coq(n.operand)
    if _is_self_attr(n, "_noise_model"):
        return "(c_noise c)"
    if _is_self_attr(n, "statevector_available"):
        return "(c_sv c)"
    if _is_self_attr(n, "n_shots"):
        return "(shots_truthy c)"
    if _is_circ_attr(n, "is_mixed_state"):
        return "(c_mixed c)"
    if isinstance(n, ast.Compare) and len(n.ops) == 1 and len(n.comparators) == 1:
        l, o, r = n.left, n.ops[0], n.comparators[0]
        if _is_self_attr(l, "n_shots") and isinstance(r, ast.Constant) and r.value is None:
            if isinstance(o, ast.IsNot):
                return "(shots_set c)"
            if isinstance(o, ast.Is):
                return "(negb (shots_set c))"
        if _is_circ_attr(l, "size") and isinstance(o, ast.Eq) and isinstance(r, ast.Constant) and r.value == 0:
            return "(c_size0 c)"
        if isinstance(l, ast.Name) and l.id == "initial_statevector" and isinstance(r, ast.Constant) and r.value is None:
            if isinstance(o, ast.IsNot):
                return "(c_isv c)"
            if isinstance(o, ast.Is):
                return "(negb (c_isv c))"
    raise TranslateError("unrecognised condition: %s" % ast.unparse(n))


def _returned_method(stmts, where):
    """The unique statement list `return self.<method>(...)` -> method name."""
    if len(stmts) != 1 or not isinstance(stmts[0], ast.Return) or not isinstance(stmts[0].value, ast.Call):
        raise TranslateError("%s: expected a single `return self.<method>(...)`" % where)
    f = stmts[0].value.func
    if not (isinstance(f, ast.Attribute) and isinstance(f.value, ast.Name) and f.value.id == "self"):
        raise TranslateError("%s: expected a call of a method of self" % where)
    return f.attr, stmts[0].value


def _kw(call, name):
    for k in call.keywords:
        if k.arg == name:
            return k.value
    return None


def _passes_dmr(call):
    v = _kw(call, "desired_meas_result")
    return isinstance(v, ast.Name) and v.id == "desired_meas_result"


# ------------------------------------------------------------------------------------------ measurement_basis.py
def extract_basis(repo):
    tree = parse(repo / BASIS)
    fn = find_def(tree, "measurement_basis_gates")
    body = [s for s in fn.body if not (isinstance(s, ast.Expr) and isinstance(s.value, ast.Constant))]
    if len(body) != 3 or not isinstance(body[0], ast.Assign) or not isinstance(body[1], ast.For) or not isinstance(body[2], ast.Return):
        raise TranslateError("measurement_basis_gates: expected `gates = []; for ...; return gates`")
    loop = body[1]
    if not (isinstance(loop.target, ast.Tuple) and len(loop.target.elts) == 2 and all(isinstance(e, ast.Name) for e in loop.target.elts)
            and isinstance(loop.iter, ast.Name) and loop.iter.id == fn.args.args[0].arg and not loop.orelse):
        raise TranslateError("measurement_basis_gates: expected `for qubit_index, pauli in term`")
    qvar, pvar = loop.target.elts[0].id, loop.target.elts[1].id
    if len(loop.body) != 1 or not isinstance(loop.body[0], ast.If):
        raise TranslateError("measurement_basis_gates: loop body is not a single if-chain")
    table, else_raises = [], False
    node = loop.body[0]
    while True:
        t = node.test
        if not (isinstance(t, ast.Compare) and isinstance(t.left, ast.Name) and t.left.id == pvar and len(t.ops) == 1):
            raise TranslateError("measurement_basis_gates: unexpected test %s" % ast.unparse(t))
        if isinstance(t.ops[0], ast.In) and isinstance(t.comparators[0], (ast.Set, ast.List, ast.Tuple)):
            letters = []
            for e in t.comparators[0].elts:
                if not (isinstance(e, ast.Constant) and isinstance(e.value, str)):
                    raise TranslateError("measurement_basis_gates: non-string Pauli letter")
                letters.append(e.value)
            letters = sorted(letters)
        elif isinstance(t.ops[0], ast.Eq) and isinstance(t.comparators[0], ast.Constant) and isinstance(t.comparators[0].value, str):
            letters = [t.comparators[0].value]
        else:
            raise TranslateError("measurement_basis_gates: unexpected test %s" % ast.unparse(t))
        if len(node.body) != 1:
            raise TranslateError("measurement_basis_gates: branch for %s has %d statements" % (letters, len(node.body)))
        st = node.body[0]
        if isinstance(st, ast.Pass):
            entry = None
        else:
            if not (isinstance(st, ast.Expr) and isinstance(st.value, ast.Call) and isinstance(st.value.func, ast.Attribute)
                    and st.value.func.attr == "append" and isinstance(st.value.func.value, ast.Name)
                    and st.value.func.value.id == body[0].targets[0].id and len(st.value.args) == 1):
                raise TranslateError("measurement_basis_gates: branch for %s is not `gates.append(Gate(...))`" % letters)
            g = st.value.args[0]
            if not (isinstance(g, ast.Call) and isinstance(g.func, ast.Name) and g.func.id == "Gate" and len(g.args) == 2
                    and isinstance(g.args[0], ast.Constant) and isinstance(g.args[0].value, str)
                    and isinstance(g.args[1], ast.Name) and g.args[1].id == qvar
                    and [k.arg for k in g.keywords] == ["parameter"]):
                raise TranslateError("measurement_basis_gates: expected Gate(NAME, %s, parameter=ANGLE), got %s" % (qvar, ast.unparse(g)))
            r, has_pi = pi_multiple(g.keywords[0].value)
            if not has_pi:
                raise TranslateError("measurement_basis_gates: angle of %s is not a multiple of pi" % letters)
            entry = (g.args[0].value, units_of_pi8(r, "basis angle of %s" % letters))
        for l in letters:
            if l in [x for x, _ in table]:
                raise TranslateError("measurement_basis_gates: letter %s handled twice" % l)
            table.append((l, entry))
        if len(node.orelse) == 1 and isinstance(node.orelse[0], ast.If):
            node = node.orelse[0]
            continue
        if len(node.orelse) == 1 and isinstance(node.orelse[0], ast.Raise):
            else_raises = True
        elif node.orelse:
            raise TranslateError("measurement_basis_gates: unexpected else branch")
        break
    if not (isinstance(body[2].value, ast.Name) and body[2].value.id == body[0].targets[0].id):
        raise TranslateError("measurement_basis_gates: does not return the gate list")
    return {"basis_table": table, "basis_else_raises": else_raises}


# ------------------------------------------------------------------------------------------ backend.py
def _strip_doc(body):
    return [s for s in body if not (isinstance(s, ast.Expr) and isinstance(s.value, ast.Constant) and isinstance(s.value.value, str))]


def _guards(fn, t, prefix):
    """The two leading checks shared by get_expectation_value and get_variance."""
    body = _strip_doc(fn.body)
    g0 = body[0]
    if not (isinstance(g0, ast.If) and len(g0.body) == 1 and isinstance(g0.body[0], ast.Raise) and not g0.orelse):
        raise TranslateError("%s: first statement is not the statevector-support guard" % fn.name)
    t[prefix + "isv_guard"] = cond_to_coq(g0.test)
    loops = [s for s in body if isinstance(s, ast.For)]
    if len(loops) != 1:
        raise TranslateError("%s: expected one loop over the terms before the dispatch" % fn.name)
    ifs = [s for s in loops[0].body if isinstance(s, ast.If)]
    if len(ifs) != 2:
        raise TranslateError("%s: term loop does not consist of the width check and the complex-type check" % fn.name)
    w, cx = ifs
    wt = w.test
    if not (isinstance(wt, ast.Compare) and len(wt.ops) == 1 and isinstance(wt.ops[0], ast.Lt) and _is_circ_attr(wt.left, "width")
            and isinstance(wt.comparators[0], ast.Call) and isinstance(wt.comparators[0].func, ast.Name)
            and wt.comparators[0].func.id == "len" and len(w.body) == 1 and isinstance(w.body[0], ast.Raise)):
        raise TranslateError("%s: width check is not `state_prep_circuit.width < len(term)` -> raise" % fn.name)
    ct = cx.test
    if not (isinstance(ct, ast.Compare) and isinstance(ct.ops[0], ast.In) and isinstance(ct.left, ast.Call)
            and isinstance(ct.left.func, ast.Name) and ct.left.func.id == "type" and isinstance(ct.comparators[0], ast.Set)):
        raise TranslateError("%s: complex-type check is not `type(coef) in {...}`" % fn.name)
    t[prefix + "complex_types"] = sorted(ast.unparse(e) for e in ct.comparators[0].elts)
    top = [s for s in body if isinstance(s, ast.If) and isinstance(s.test, ast.Name) and s.test.id == "are_coefficients_real"]
    if len(top) != 1:
        raise TranslateError("%s: `if are_coefficients_real` not found" % fn.name)
    return top[0]


def extract_backend(repo):
    tree = parse(repo / BACKEND)
    t = {}
    # ---- get_expectation_value
    fn = find_def(tree, "get_expectation_value", cls="Backend")
    top = _guards(fn, t, "e_")
    if len(top.body) != 1 or not isinstance(top.body[0], ast.If):
        raise TranslateError("get_expectation_value: real branch is not a single if/elif")
    d = top.body[0]
    t["freq_cond"] = cond_to_coq(d.test)
    m, _ = _returned_method(d.body, "get_expectation_value/if")
    if m != "_get_expectation_value_from_frequencies":
        raise TranslateError("get_expectation_value: the `if` branch returns %s" % m)
    if len(d.orelse) != 1 or not isinstance(d.orelse[0], ast.If):
        raise TranslateError("get_expectation_value: expected an elif after the frequency branch")
    e = d.orelse[0]
    t["sv_cond"] = cond_to_coq(e.test)
    m, _ = _returned_method(e.body, "get_expectation_value/elif")
    if m != "_get_expectation_value_from_statevector":
        raise TranslateError("get_expectation_value: the `elif` branch returns %s" % m)
    t["dispatch_has_else"] = bool(e.orelse)
    if e.orelse:
        raise TranslateError("get_expectation_value: unexpected else after the statevector branch")
    # complex branch: two recursive calls and  exp_real if (exp_imag == 0.) else exp_real + 1.0j * exp_imag
    rec = [c for s in top.orelse for c in ast.walk(s) if isinstance(c, ast.Call) and isinstance(c.func, ast.Attribute)
           and c.func.attr == "get_expectation_value"]
    if len(rec) != 2:
        raise TranslateError("get_expectation_value: complex branch does not make two recursive calls")
    t["e_split_forwards_dmr"] = all(_passes_dmr(c) for c in rec)
    ret = [s for s in top.orelse if isinstance(s, ast.Return)]
    if len(ret) != 1 or ast.unparse(ret[0].value).replace(" ", "") not in (
            "exp_realifexp_imag==0.0elseexp_real+1j*exp_imag", "exp_realifexp_imag==0.elseexp_real+1.0j*exp_imag"):
        raise TranslateError("get_expectation_value: unexpected combination of the two parts: %s"
                             % (ast.unparse(ret[0].value) if ret else "no return"))
    # ---- get_variance
    fv = find_def(tree, "get_variance", cls="Backend")
    topv = _guards(fv, t, "v_")
    m, call = _returned_method(topv.body, "get_variance/real")
    if m != "_get_variance_from_frequencies":
        raise TranslateError("get_variance: real branch returns %s" % m)
    t["v_real_forwards_dmr"] = _passes_dmr(call)
    rec = [c for s in topv.orelse for c in ast.walk(s) if isinstance(c, ast.Call) and isinstance(c.func, ast.Attribute)
           and c.func.attr == "get_variance"]
    if len(rec) != 2:
        raise TranslateError("get_variance: complex branch does not make two recursive calls")
    t["v_split_forwards_dmr"] = all(_passes_dmr(c) for c in rec)
    # ---- _get_expectation_value_from_statevector
    fs = find_def(tree, "_get_expectation_value_from_statevector", cls="Backend")
    has = [s for s in _strip_doc(fs.body) if isinstance(s, ast.If) and isinstance(s.test, ast.Call)
           and isinstance(s.test.func, ast.Name) and s.test.func.id == "hasattr"]
    if len(has) != 1 or not (isinstance(has[0].test.args[1], ast.Constant)
                             and has[0].test.args[1].value == "expectation_value_from_prepared_state"):
        raise TranslateError("_get_expectation_value_from_statevector: native shortcut not found")
    loops = [s for s in _strip_doc(fs.body) if isinstance(s, ast.For)]
    if len(loops) != 1:
        raise TranslateError("_get_expectation_value_from_statevector: term loop not found")
    inner = [s for s in loops[0].body if isinstance(s, ast.If)]
    if len(inner) != 2:
        raise TranslateError("_get_expectation_value_from_statevector: unexpected loop body")
    t["sv_exact_cond"] = cond_to_coq(inner[1].test)
    # the identity shortcut  `elif not term: expectation_value += coef; continue`
    for f_, key in ((fs, "sv_identity_adds_coef"), (find_def(tree, "_get_expectation_value_from_frequencies", cls="Backend"), "freq_identity_adds_coef")):
        lp = [s for s in _strip_doc(f_.body) if isinstance(s, ast.For)][0]
        first = [s for s in lp.body if isinstance(s, ast.If)][0]
        ok = False
        if len(first.orelse) == 1 and isinstance(first.orelse[0], ast.If):
            el = first.orelse[0]
            if ast.unparse(el.test) == "not term" and len(el.body) == 2 and isinstance(el.body[0], ast.AugAssign) \
                    and isinstance(el.body[0].op, ast.Add) and ast.unparse(el.body[0].value) == "coef" and isinstance(el.body[1], ast.Continue):
                ok = True
        if not ok:
            raise TranslateError("%s: identity-term shortcut not recognised" % f_.name)
        t[key] = True
    # ---- the two frequency routines
    for name, key in (("_get_expectation_value_from_frequencies", "e"), ("_get_variance_from_frequencies", "v")):
        ff = find_def(tree, name, cls="Backend")
        first = [s for s in _strip_doc(ff.body) if isinstance(s, ast.If)]
        if not first:
            raise TranslateError("%s: preparation condition not found" % name)
        t["prep_cond_" + key] = cond_to_coq(first[0].test)
        lp = [s for s in _strip_doc(ff.body) if isinstance(s, ast.For)]
        if len(lp) != 1:
            raise TranslateError("%s: term loop not found" % name)
        sims = [c for c in ast.walk(lp[0]) if isinstance(c, ast.Call) and isinstance(c.func, ast.Attribute) and c.func.attr == "simulate"]
        if len(sims) != 1:
            raise TranslateError("%s: expected one simulate() call per term" % name)
        t["sim_forwards_dmr_" + key] = _passes_dmr(sims[0])
        mb = [c for c in ast.walk(lp[0]) if isinstance(c, ast.Call) and isinstance(c.func, ast.Name) and c.func.id == "measurement_basis_gates"]
        if len(mb) != 1:
            raise TranslateError("%s: measurement_basis_gates(term) not called once per term" % name)
    # ---- get_standard_error
    fe = find_def(tree, "get_standard_error", cls="Backend")
    ret = [s for s in _strip_doc(fe.body) if isinstance(s, ast.Return)]
    if len(ret) != 1 or ast.unparse(ret[0].value).replace(" ", "") not in ("np.sqrt(variance/self.n_shots)ifself.n_shotselse0.0",):
        raise TranslateError("get_standard_error: unexpected formula %s" % (ast.unparse(ret[0].value) if ret else ""))
    t["std_err_formula"] = "sqrt(variance/n_shots) if n_shots else 0"
    # ---- the per-term parity functions: sample = (-1) ** ((mask & key).count("1") % 2)
    for name in ("get_expectation_value_from_frequencies_oneterm", "get_variance_from_frequencies_oneterm"):
        fo = find_def(tree, name)
        src = ast.unparse(fo).replace(" ", "")
        if "sample=(-1)**((bitarray(mask)&bitarray(basis_state)).to01().count('1')%2)" not in src or "mask[index]='1'" not in src:
            raise TranslateError("%s: parity-of-masked-bits formula not recognised" % name)
    src = ast.unparse(find_def(tree, "get_expectation_value_from_frequencies_oneterm")).replace(" ", "")
    if "expectation_term+=sample*freq" not in src:
        raise TranslateError("oneterm expectation: accumulation not recognised")
    src = ast.unparse(find_def(tree, "get_variance_from_frequencies_oneterm")).replace(" ", "")
    if "variance_term+=freq*(expectation_term-sample)**2" not in src:
        raise TranslateError("oneterm variance: accumulation not recognised")
    return t


def extract(repo):
    t = extract_basis(repo)
    t.update(extract_backend(repo))
    if t["e_isv_guard"] != t["v_isv_guard"] or t["e_complex_types"] != t["v_complex_types"]:
        raise TranslateError("get_expectation_value and get_variance no longer share their guards")
    return t


# Last-known-good constants (the unchanged, repaired tree).  Used ONLY when the extraction above fails or the generated
# file no longer compiles, so that the model correspondence can still run; the evidence then says so, and the translator /
# proof failure is reported as a violation regardless.
FALLBACK = {
    "basis_table": [("I", None), ("Z", None), ("X", ("RY", -4)), ("Y", ("RX", 4))],
    "basis_else_raises": True,
    "e_isv_guard": "((c_isv c) && negb (c_sv c))",
    "v_isv_guard": "((c_isv c) && negb (c_sv c))",
    "freq_cond": "((c_noise c) || negb (c_sv c) || (shots_set c) || ((c_mixed c) && (shots_set c)) || (c_size0 c))",
    "sv_cond": "(c_sv c)",
    "sv_exact_cond": "negb (shots_truthy c)",
    "prep_cond_e": "(negb (c_sv c) || (c_mixed c) || (c_noise c))",
    "prep_cond_v": "(negb (c_sv c) || (c_mixed c) || (c_noise c))",
    "e_complex_types": ["complex", "np.complex128", "np.complex64"],
    "v_complex_types": ["complex", "np.complex128", "np.complex64"],
    "e_split_forwards_dmr": True, "sim_forwards_dmr_e": True,
    "v_real_forwards_dmr": True, "v_split_forwards_dmr": True, "sim_forwards_dmr_v": True,
    "dispatch_has_else": False, "freq_identity_adds_coef": True, "sv_identity_adds_coef": True,
    "std_err_formula": "sqrt(variance/n_shots) if n_shots else 0",
}


def fallback():
    import copy
    return copy.deepcopy(FALLBACK)


def _coq_bool(b):
    return "true" if b else "false"


def emit(t):
    def entry(e):
        return "None" if e is None else '(Some ("%s", (%d)%%Z))' % e
    L = ["(* GENERATED by translator/expval_tables.py from measurement_basis.py and backend.py — do not edit *)",
         "From Coq Require Import String List ZArith NArith Bool.",
         "From Tangelo Require Import Linq.ExpPaths.",
         "Import ListNotations.", "Open Scope string_scope.", "",
         "(* Pauli letter -> no gate | (gate name, angle in units of pi/8) *)",
         "Definition basis_table : btable := [%s]." % "; ".join('("%s", %s)' % (l, entry(e)) for l, e in t["basis_table"]),
         "Definition basis_else_raises : bool := %s." % _coq_bool(t["basis_else_raises"]),
         "Definition isv_guard (c : cfg) : bool := %s." % t["e_isv_guard"],
         "Definition freq_cond (c : cfg) : bool := %s." % t["freq_cond"],
         "Definition sv_cond (c : cfg) : bool := %s." % t["sv_cond"],
         "Definition sv_exact_cond (c : cfg) : bool := %s." % t["sv_exact_cond"],
         "Definition prep_cond_e (c : cfg) : bool := %s." % t["prep_cond_e"],
         "Definition prep_cond_v (c : cfg) : bool := %s." % t["prep_cond_v"],
         "Definition complex_types : list string := [%s]." % "; ".join('"%s"' % x for x in t["e_complex_types"]),
         "Definition e_split_forwards_dmr : bool := %s." % _coq_bool(t["e_split_forwards_dmr"]),
         "Definition sim_forwards_dmr_e : bool := %s." % _coq_bool(t["sim_forwards_dmr_e"]),
         "Definition v_real_forwards_dmr : bool := %s." % _coq_bool(t["v_real_forwards_dmr"]),
         "Definition v_split_forwards_dmr : bool := %s." % _coq_bool(t["v_split_forwards_dmr"]),
         "Definition sim_forwards_dmr_v : bool := %s." % _coq_bool(t["sim_forwards_dmr_v"]),
         ]
    return "\n".join(L) + "\n"
