"""Regenerate gen/FormatTables.v from tangelo/linq/translator/translate_json_ionq.py and
translate_projectq.py (DESIGN §4.1, §7.C17): the gate-name dictionaries, the name sets of every
writer / reader branch, and the *shape* of each branch (which keys a writer emits, which arguments a
reader passes to Gate, which of the three ProjectQ line shapes is printed / parsed).

Fail closed: every statement of the four translate functions is compared (ast.dump equality) with
the statement shape this extractor understands; anything else raises TranslateError.  Nothing of
Tangelo is imported or executed; the two `get_*_gates` dictionary builders are evaluated by a small
interpreter for string expressions in the loop variable (`name.lower()`, `name[1:].lower()`,
`name[0] + name[1:].lower()`, constants).
"""
import ast
import re

from .common import parse, find_def, str_collection, coq_string_list, TranslateError

IONQ = "tangelo/linq/translator/translate_json_ionq.py"
PROJECTQ = "tangelo/linq/translator/translate_projectq.py"


# ----------------------------------------------------------------------------------------- helpers
def _dump(node):
    return ast.dump(node, annotate_fields=True, include_attributes=False)


def _stmt(src):
    b = ast.parse(src).body
    assert len(b) == 1
    return b[0]


def _expr(src):
    return ast.parse(src, mode="eval").body


def _same(node, src, what):
    exp = _stmt(src) if isinstance(node, ast.stmt) else _expr(src)
    if _dump(node) != _dump(exp):
        raise TranslateError("%s: expected `%s`, found `%s`" % (what, src.strip(), ast.unparse(node)[:160]))


def _body_no_doc(fn):
    body = list(fn.body)
    if body and isinstance(body[0], ast.Expr) and isinstance(body[0].value, ast.Constant) \
            and isinstance(body[0].value.value, str):
        body = body[1:]
    return body


def _eval_name_expr(node, name, what):
    """String expression in the loop variable `name`."""
    if isinstance(node, ast.Constant) and isinstance(node.value, str):
        return node.value
    if isinstance(node, ast.Name) and node.id == "name":
        return name
    if isinstance(node, ast.BinOp) and isinstance(node.op, ast.Add):
        return _eval_name_expr(node.left, name, what) + _eval_name_expr(node.right, name, what)
    if isinstance(node, ast.Call) and isinstance(node.func, ast.Attribute) and not node.args and not node.keywords \
            and node.func.attr in ("lower", "upper"):
        s = _eval_name_expr(node.func.value, name, what)
        if not s.isascii():
            raise TranslateError("%s: non-ascii gate name" % what)
        return s.lower() if node.func.attr == "lower" else s.upper()
    if isinstance(node, ast.Subscript):
        s = _eval_name_expr(node.value, name, what)
        sl = node.slice

        def const_int(n):
            if n is None:
                return None
            if isinstance(n, ast.Constant) and type(n.value) is int:
                return n.value
            if isinstance(n, ast.UnaryOp) and isinstance(n.op, ast.USub) and isinstance(n.operand, ast.Constant) \
                    and type(n.operand.value) is int:
                return -n.operand.value
            raise TranslateError("%s: non-constant index in %s" % (what, ast.unparse(node)))
        if isinstance(sl, ast.Slice):
            if sl.step is not None:
                raise TranslateError("%s: slice step in %s" % (what, ast.unparse(node)))
            return s[const_int(sl.lower):const_int(sl.upper)]
        i = const_int(sl)
        try:
            return s[i]
        except IndexError:
            raise TranslateError("%s: index out of range in %s for %r" % (what, ast.unparse(node), name))
    raise TranslateError("%s: unsupported name expression `%s`" % (what, ast.unparse(node)[:120]))


def _name_dict(fn, var):
    """Evaluate   D = dict(); for name in {..}: D[name] = e(name); D["K"] = "v"; return D ."""
    body = _body_no_doc(fn)
    if len(body) < 2:
        raise TranslateError("%s: body too short" % fn.name)
    _same(body[0], "%s = dict()" % var, fn.name)
    _same(body[-1], "return %s" % var, fn.name)
    d = {}
    for st in body[1:-1]:
        if isinstance(st, ast.For):
            if not (isinstance(st.target, ast.Name) and st.target.id == "name" and not st.orelse and len(st.body) == 1):
                raise TranslateError("%s: unexpected loop `%s`" % (fn.name, ast.unparse(st)[:100]))
            names = str_collection(st.iter, fn.name + " loop")
            a = st.body[0]
            if not (isinstance(a, ast.Assign) and len(a.targets) == 1 and _dump(a.targets[0]) == _dump(_stmt("%s[name] = 0" % var).targets[0])):
                raise TranslateError("%s: unexpected loop body `%s`" % (fn.name, ast.unparse(a)[:100]))
            # the loop runs over a set literal: iteration order is unspecified, but each key is
            # assigned once per loop, so the result does not depend on it
            if len(set(names)) != len(names):
                raise TranslateError("%s: duplicate name in a loop set" % fn.name)
            for n in names:
                d[n] = _eval_name_expr(a.value, n, fn.name)
        elif isinstance(st, ast.Assign):
            t = st.targets[0]
            if not (len(st.targets) == 1 and isinstance(t, ast.Subscript) and isinstance(t.value, ast.Name) and t.value.id == var
                    and isinstance(t.slice, ast.Constant) and isinstance(t.slice.value, str)
                    and isinstance(st.value, ast.Constant) and isinstance(st.value.value, str)):
                raise TranslateError("%s: unexpected assignment `%s`" % (fn.name, ast.unparse(st)[:100]))
            d[t.slice.value] = st.value.value
        else:
            raise TranslateError("%s: unexpected statement `%s`" % (fn.name, ast.unparse(st)[:100]))
    for k, v in d.items():
        for s in (k, v):
            if not s.isascii() or '"' in s or not s:
                raise TranslateError("%s: unsupported characters in %r" % (fn.name, s))
    return d


def _if_chain(node, what):
    """if/elif/.../else -> ([(test, body)], else_body)."""
    out = []
    while True:
        if not isinstance(node, ast.If):
            raise TranslateError("%s: expected an if/elif chain, found `%s`" % (what, ast.unparse(node)[:80]))
        out.append((node.test, node.body))
        if len(node.orelse) == 1 and isinstance(node.orelse[0], ast.If):
            node = node.orelse[0]
            continue
        return out, node.orelse


def _in_set(test, var, what):
    """`<var> in {..}` -> sorted list of names."""
    if not (isinstance(test, ast.Compare) and len(test.ops) == 1 and isinstance(test.ops[0], ast.In)
            and _dump(test.left) == _dump(_expr(var))):
        raise TranslateError("%s: expected `%s in {...}`, found `%s`" % (what, var, ast.unparse(test)[:100]))
    names = str_collection(test.comparators[0], what)
    for n in names:
        if not n.isascii() or '"' in n or not n:
            raise TranslateError("%s: unsupported characters in %r" % (what, n))
    return sorted(set(names))


def _raises_value_error(body, what):
    """body is exactly  raise ValueError(...)"""
    if not (len(body) == 1 and isinstance(body[0], ast.Raise) and isinstance(body[0].exc, ast.Call)
            and isinstance(body[0].exc.func, ast.Name) and body[0].exc.func.id == "ValueError"):
        raise TranslateError("%s: the final else does not raise ValueError" % what)


# ----------------------------------------------------------------------------------------- IonQ
def extract_ionq(repo):
    tree = parse(repo / IONQ)
    t = {"names": _name_dict(find_def(tree, "get_ionq_gates"), "GATE_JSON_IONQ")}

    # ---- writer
    w = find_def(tree, "translate_c_to_json_ionq")
    if [a.arg for a in w.args.args] != ["source_circuit"]:
        raise TranslateError("translate_c_to_json_ionq: unexpected signature")
    body = _body_no_doc(w)
    if len(body) != 5:
        raise TranslateError("translate_c_to_json_ionq: expected 5 statements, found %d" % len(body))
    _same(body[0], "GATE_JSON_IONQ = get_ionq_gates()", "ionq writer")
    _same(body[1], "json_gates = []", "ionq writer")
    loop = body[2]
    if not (isinstance(loop, ast.For) and not loop.orelse and len(loop.body) == 1
            and _dump(loop.target) == _dump(_expr("gate")) .replace("Load", "Store")
            and _dump(loop.iter) == _dump(_expr("source_circuit._gates"))):
        raise TranslateError("ionq writer: unexpected gate loop `%s`" % ast.unparse(loop)[:80])
    _same(body[3], "json_ionq_circ = {'qubits': source_circuit.width, 'circuit': json_gates}", "ionq writer")
    _same(body[4], "return json_ionq_circ", "ionq writer")
    chain, orelse = _if_chain(loop.body[0], "ionq writer")
    _raises_value_error(orelse, "ionq writer")
    values = {"gate": "GATE_JSON_IONQ[gate.name]", "targets": "gate.target", "controls": "gate.control",
              "rotation": "gate.parameter"}
    t["wbranches"] = []
    t["need_control"] = []
    seen = set()
    for test, b in chain:
        # optional refusing branch:  elif gate.name in {...} and not gate.control: raise ValueError(...)
        if isinstance(test, ast.BoolOp):
            if not (isinstance(test.op, ast.And) and len(test.values) == 2
                    and _dump(test.values[1]) == _dump(_expr("not gate.control"))):
                raise TranslateError("ionq writer: unexpected test `%s`" % ast.unparse(test)[:120])
            names = _in_set(test.values[0], "gate.name", "ionq writer")
            _raises_value_error(b, "ionq writer refusing branch")
            if seen & set(names):
                raise TranslateError("ionq writer: the refusing branch is shadowed by an earlier branch for %s" % sorted(seen & set(names)))
            t["need_control"].extend(names)
            continue
        names = _in_set(test, "gate.name", "ionq writer")
        seen |= set(names)
        if not (len(b) == 1 and isinstance(b[0], ast.Expr) and isinstance(b[0].value, ast.Call)
                and _dump(b[0].value.func) == _dump(_expr("json_gates.append")) and len(b[0].value.args) == 1
                and not b[0].value.keywords and isinstance(b[0].value.args[0], ast.Dict)):
            raise TranslateError("ionq writer: unexpected branch body `%s`" % ast.unparse(b[0])[:100])
        d = b[0].value.args[0]
        keys = []
        for k, v in zip(d.keys, d.values):
            if not (isinstance(k, ast.Constant) and k.value in values):
                raise TranslateError("ionq writer: unexpected key %s" % (ast.unparse(k) if k else "**"))
            _same(v, values[k.value], "ionq writer key %r" % k.value)
            keys.append(k.value)
        if len(set(keys)) != len(keys) or "gate" not in keys or "targets" not in keys:
            raise TranslateError("ionq writer: record keys %s" % keys)
        t["wbranches"].append({"names": names, "controls": "controls" in keys, "rotation": "rotation" in keys})

    # ---- reader
    r = find_def(tree, "translate_c_from_json_ionq")
    if [a.arg for a in r.args.args] != ["source_circuit"]:
        raise TranslateError("translate_c_from_json_ionq: unexpected signature")
    body = _body_no_doc(r)
    if len(body) != 4:
        raise TranslateError("translate_c_from_json_ionq: expected 4 statements, found %d" % len(body))
    _same(body[0], "gates = []", "ionq reader")
    loop = body[1]
    if not (isinstance(loop, ast.For) and not loop.orelse and len(loop.body) == 6
            and _dump(loop.iter) == _dump(_expr("source_circuit['circuit']"))
            and isinstance(loop.target, ast.Name) and loop.target.id == "gate"):
        raise TranslateError("ionq reader: unexpected record loop")
    _same(body[2], "target_circuit = Circuit(n_qubits=source_circuit['qubits']) + Circuit(gates)", "ionq reader")
    _same(body[3], "return target_circuit", "ionq reader")
    lb = loop.body
    _same(lb[0], "name = gate['gate'].upper()", "ionq reader")
    _same(lb[1], "target_qubits = gate.get('target', gate.get('targets'))", "ionq reader")
    _same(lb[2], "control_qubits = gate.get('control', gate.get('controls'))", "ionq reader")
    _same(lb[3], "parameter = gate.get('rotation')", "ionq reader")
    ren = lb[4]
    ok = isinstance(ren, ast.If) and not ren.orelse and len(ren.body) == 1 and isinstance(ren.test, ast.BoolOp) \
        and isinstance(ren.test.op, ast.And) and len(ren.test.values) == 2
    if ok:
        c0, c1 = ren.test.values
        ok = (isinstance(c0, ast.Compare) and len(c0.ops) == 1 and isinstance(c0.ops[0], ast.Eq)
              and _dump(c0.left) == _dump(_expr("name")) and isinstance(c0.comparators[0], ast.Constant)
              and isinstance(c0.comparators[0].value, str)
              and _dump(c1) == _dump(_expr("parameter is not None"))
              and isinstance(ren.body[0], ast.Assign) and _dump(ren.body[0].targets[0]) == _dump(_stmt("name = 0").targets[0])
              and isinstance(ren.body[0].value, ast.Constant) and isinstance(ren.body[0].value.value, str))
    if not ok:
        raise TranslateError("ionq reader: unexpected rename statement `%s`" % ast.unparse(ren)[:120])
    t["rename_from"] = ren.test.values[0].comparators[0].value
    t["rename_to"] = ren.body[0].value.value
    chain, orelse = _if_chain(lb[5], "ionq reader")
    _raises_value_error(orelse, "ionq reader")
    t["rbranches"] = []
    for test, b in chain:
        if not (isinstance(test, ast.BoolOp) and isinstance(test.op, ast.And) and len(test.values) in (2, 3)):
            raise TranslateError("ionq reader: unexpected test `%s`" % ast.unparse(test)[:100])
        names = _in_set(test.values[0], "name", "ionq reader")
        c = _dump(test.values[1])
        if c == _dump(_expr("control_qubits is None")):
            ctrl = False
        elif c == _dump(_expr("control_qubits is not None")):
            ctrl = True
        else:
            raise TranslateError("ionq reader: unexpected control test `%s`" % ast.unparse(test.values[1]))
        pnone = False
        if len(test.values) == 3:
            _same(test.values[2], "parameter is None", "ionq reader")
            pnone = True
        shapes = {}
        for nm, pref in (("name", False), ("f'C{name}'", True)):
            for args, pc, pp in (("target_qubits", False, False), ("target_qubits, control_qubits", True, False),
                                 ("target_qubits, control_qubits, parameter", True, True)):
                shapes[_dump(_stmt("gates += [Gate(%s, %s)]" % (nm, args)))] = (pref, pc, pp)
        if len(b) != 1 or _dump(b[0]) not in shapes:
            raise TranslateError("ionq reader: unexpected branch body `%s`" % ast.unparse(b[0])[:120])
        pref, pc, pp = shapes[_dump(b[0])]
        t["rbranches"].append({"names": names, "ctrl": ctrl, "pnone": pnone, "prefixC": pref,
                               "pass_ctrl": pc, "pass_param": pp})
    return t


# ----------------------------------------------------------------------------------------- ProjectQ
PQ_WRITE_SHAPES = {
    "PQS1": 'projectq_circuit += f"{GATE_PROJECTQ[gate.name]} | Qureg[{gate.target[0]}]\\n"',
    "PQS1p": 'projectq_circuit += f"{GATE_PROJECTQ[gate.name]}({gate.parameter}) | Qureg[{gate.target[0]}]\\n"',
    "PQS2": 'projectq_circuit += f"{GATE_PROJECTQ[gate.name]} | ( Qureg[{gate.control[0]}], Qureg[{gate.target[0]}] )\\n"',
}
PQ_READ_SHAPES = {
    "PQS1": "gate = Gate(gate_mapping[gate_name], qubit_indices[0])",
    "PQS1p": "gate = Gate(gate_mapping[gate_name], qubit_indices[0], parameter=parameters[0])",
    "PQS2": "gate = Gate(gate_mapping[gate_name], qubit_indices[1], control=qubit_indices[0])",
}


def _ignored_literal(call, what):
    """projectq_str = re.sub(r'<(.*)?>LITERAL(.*)\\n', '', projectq_str)  ->  LITERAL"""
    ok = (isinstance(call, ast.Assign) and _dump(call.targets[0]) == _dump(_stmt("projectq_str = 0").targets[0])
          and isinstance(call.value, ast.Call) and _dump(call.value.func) == _dump(_expr("re.sub"))
          and len(call.value.args) == 3 and not call.value.keywords
          and isinstance(call.value.args[0], ast.Constant) and isinstance(call.value.args[0].value, str)
          and _dump(call.value.args[1]) == _dump(_expr("''"))
          and _dump(call.value.args[2]) == _dump(_expr("projectq_str")))
    if not ok:
        raise TranslateError("%s: unexpected statement `%s`" % (what, ast.unparse(call)[:120]))
    pat = call.value.args[0].value
    m = re.fullmatch(r"(?:\(\.\*\))?([A-Za-z]+)\(\.\*\)\\n", pat)      # raw string: backslash + n
    if not m:
        raise TranslateError("%s: unexpected pattern %r" % (what, pat))
    return m.group(1)


def extract_projectq(repo):
    tree = parse(repo / PROJECTQ)
    t = {"names": _name_dict(find_def(tree, "get_projectq_gates"), "GATE_PROJECTQ")}

    # ---- writer
    w = find_def(tree, "translate_c_to_projectq")
    if [a.arg for a in w.args.args] != ["source_circuit"]:
        raise TranslateError("translate_c_to_projectq: unexpected signature")
    body = _body_no_doc(w)
    if len(body) != 5:
        raise TranslateError("translate_c_to_projectq: expected 5 statements, found %d" % len(body))
    _same(body[0], "GATE_PROJECTQ = get_projectq_gates()", "projectq writer")
    _same(body[1], 'projectq_circuit = ""', "projectq writer")
    _same(body[2], 'for i in range(source_circuit.width):\n    projectq_circuit += f"Allocate | Qureg[{i}]\\n"', "projectq writer")
    loop = body[3]
    if not (isinstance(loop, ast.For) and not loop.orelse and len(loop.body) == 1
            and isinstance(loop.target, ast.Name) and loop.target.id == "gate"
            and _dump(loop.iter) == _dump(_expr("source_circuit._gates"))):
        raise TranslateError("projectq writer: unexpected gate loop")
    _same(body[4], "return projectq_circuit", "projectq writer")
    chain, orelse = _if_chain(loop.body[0], "projectq writer")
    _raises_value_error(orelse, "projectq writer")
    shapes = {_dump(_stmt(v)): k for k, v in PQ_WRITE_SHAPES.items()}
    t["wbranches"] = []
    t["single_ctrl"] = []
    t["single_target"] = []
    for test, b in chain:
        names = _in_set(test, "gate.name", "projectq writer")
        b = list(b)
        # optional guards at the top of the branch, in this order:
        #   if len(gate.target) != 1: raise ValueError(...)      if len(gate.control) != 1: raise ValueError(...)
        for attr, key in (("target", "single_target"), ("control", "single_ctrl")):
            if len(b) >= 2 and isinstance(b[0], ast.If) and _dump(b[0].test) == _dump(_expr("len(gate.%s) != 1" % attr)):
                if b[0].orelse:
                    raise TranslateError("projectq writer: guard with an else part `%s`" % ast.unparse(b[0])[:140])
                _raises_value_error(b[0].body, "projectq writer guard")
                t[key].extend(names)
                b = b[1:]
        if len(b) != 1 or _dump(b[0]) not in shapes:
            raise TranslateError("projectq writer: unexpected branch body `%s`" % ast.unparse(b[0])[:140])
        t["wbranches"].append({"names": names, "shape": shapes[_dump(b[0])]})
    t["single_target"] = sorted(set(t["single_target"]))
    t["single_ctrl"] = sorted(set(t["single_ctrl"]))

    # ---- reader
    r = find_def(tree, "translate_c_from_projectq")
    if [a.arg for a in r.args.args] != ["projectq_str"]:
        raise TranslateError("translate_c_from_projectq: unexpected signature")
    body = _body_no_doc(r)
    if len(body) < 6:
        raise TranslateError("translate_c_from_projectq: expected at least 6 statements, found %d" % len(body))
    _same(body[0], "GATE_PROJECTQ = get_projectq_gates()", "projectq reader")
    _same(body[1], "gate_mapping = {v: k for k, v in GATE_PROJECTQ.items()}", "projectq reader")
    # optional   n_allocated = max([int(index) + 1 for index in re.findall(r'Allocate \| Qureg\[(\d+)\]', projectq_str)], default=0)
    # (before the deletions), then any number of   projectq_str = re.sub(r'<literal>(.*)\n', '', projectq_str)   statements
    pre = body[2:len(body) - 4]
    n_alloc_src = ("n_allocated = max([int(index) + 1 for index in "
                   "re.findall(r'Allocate \\| Qureg\\[(\\d+)\\]', projectq_str)], default=0)")
    t["restores_width"] = False
    if pre and _dump(pre[0]) == _dump(_stmt(n_alloc_src)):
        t["restores_width"] = True
        pre = pre[1:]
    t["ignored"] = [_ignored_literal(b, "projectq reader") for b in pre]
    body = body[:2] + [None, None] + body[len(body) - 4:]
    _same(body[4], 'projectq_gates = [instruction for instruction in projectq_str.split("\\n") if instruction]', "projectq reader")
    _same(body[5], "abs_circ = Circuit()", "projectq reader")
    loop = body[6]
    if not (isinstance(loop, ast.For) and not loop.orelse and len(loop.body) == 5
            and isinstance(loop.target, ast.Name) and loop.target.id == "projectq_gate"
            and _dump(loop.iter) == _dump(_expr("projectq_gates"))):
        raise TranslateError("projectq reader: unexpected instruction loop")
    if t["restores_width"]:
        _same(body[7], "return abs_circ if n_allocated <= abs_circ.width else Circuit(abs_circ._gates, n_qubits=n_allocated)",
              "projectq reader")
    else:
        _same(body[7], "return abs_circ", "projectq reader")
    lb = loop.body
    _same(lb[0], "gate_name = re.split(r' \\| |\\(', projectq_gate)[0]", "projectq reader")
    _same(lb[1], "qubit_indices = [int(index) for index in re.findall(r'Qureg\\[(\\d+)\\]', projectq_gate)]", "projectq reader")
    _same(lb[2], "parameters = [float(index) for index in re.findall(r'\\((.*)\\)', projectq_gate) if \"Qureg\" not in index]",
          "projectq reader")
    _same(lb[4], "abs_circ.add_gate(gate)", "projectq reader")
    chain, orelse = _if_chain(lb[3], "projectq reader")
    _raises_value_error(orelse, "projectq reader")
    shapes = {_dump(_stmt(v)): k for k, v in PQ_READ_SHAPES.items()}
    t["rbranches"] = []
    for test, b in chain:
        names = _in_set(test, "gate_name", "projectq reader")
        if len(b) != 1 or _dump(b[0]) not in shapes:
            raise TranslateError("projectq reader: unexpected branch body `%s`" % ast.unparse(b[0])[:140])
        t["rbranches"].append({"names": names, "shape": shapes[_dump(b[0])]})
    return t


REPR_COND = {False: "self.__getattribute__(attr) or isinstance(self.__getattribute__(attr), int)",
             True: "self.__getattribute__(attr) is not None"}


def extract_repr(repo):
    """Gate.__repr__: name always; target / control under one of the two recognised conditions; parameter
    unless it is ""; is_variational only when True."""
    tree = parse(repo / "tangelo/linq/gate.py")
    fn = find_def(tree, "__repr__", cls="Gate")
    body = _body_no_doc(fn)
    if len(body) != 6:
        raise TranslateError("Gate.__repr__: expected 6 statements, found %d" % len(body))
    _same(body[0], "mystr = f\"Gate(name='{self.name}'\"", "Gate.__repr__")
    loop = body[1]
    if not (isinstance(loop, ast.For) and not loop.orelse and len(loop.body) == 1 and isinstance(loop.target, ast.Name)
            and loop.target.id == "attr" and _dump(loop.iter) == _dump(_expr('["target", "control"]'))
            and isinstance(loop.body[0], ast.If) and not loop.body[0].orelse and len(loop.body[0].body) == 1):
        raise TranslateError("Gate.__repr__: unexpected target/control loop")
    _same(loop.body[0].body[0], 'mystr += f", {attr}={self.__getattribute__(attr)}"', "Gate.__repr__")
    cond = _dump(loop.body[0].test)
    flags = [k for k, v in REPR_COND.items() if _dump(_expr(v)) == cond]
    if len(flags) != 1:
        raise TranslateError("Gate.__repr__: unexpected printing condition `%s`" % ast.unparse(loop.body[0].test)[:120])
    par = body[2]
    if not (isinstance(par, ast.If) and not par.orelse
            and _dump(par.test) == _dump(_expr('self.__getattribute__("parameter") != ""')) and len(par.body) == 2):
        raise TranslateError("Gate.__repr__: unexpected parameter block")
    _same(par.body[0], "parameter = self.__getattribute__('parameter')", "Gate.__repr__")
    old = 'mystr += f", parameter=\'{parameter}\'" if isinstance(parameter, str) else f", parameter={parameter}"'
    new = ('if isinstance(parameter, Symbol):\n    mystr += f", parameter=sympy.{srepr(parameter)}"\nelse:\n    ' + old)
    if _dump(par.body[1]) not in (_dump(_stmt(old)), _dump(_stmt(new))):
        raise TranslateError("Gate.__repr__: unexpected parameter printing `%s`" % ast.unparse(par.body[1])[:160])
    _same(body[3], 'if self.is_variational:\n    mystr += ", is_variational=True"', "Gate.__repr__")
    _same(body[4], 'mystr += ")"', "Gate.__repr__")
    _same(body[5], "return mystr", "Gate.__repr__")
    return {"when_not_none": flags[0], "symbol_srepr": _dump(par.body[1]) == _dump(_stmt(new))}


def extract(repo):
    return {"ionq": extract_ionq(repo), "projectq": extract_projectq(repo), "repr": extract_repr(repo)}


# ----------------------------------------------------------------------------------------- emission
def _b(x):
    return "true" if x else "false"


def _pairs(d):
    return "[" + "; ".join('("%s", "%s")' % (k, d[k]) for k in sorted(d)) + "]"


def emit(t):
    i, p = t["ionq"], t["projectq"]
    L = ["(* GENERATED by translator/format_tables.py from %s and %s - do not edit *)" % (IONQ, PROJECTQ),
         "From Coq Require Import String List.",
         "From Tangelo Require Import Linq.Formats.",
         "Import ListNotations.", "Open Scope string_scope.", "",
         "Definition ionq_tbl : ionq_tables := {|",
         "  iq_names := %s;" % _pairs(i["names"]),
         "  iq_wbranches := [%s];" % ";\n                   ".join(
             "WBranch %s %s %s" % (coq_string_list(b["names"]), _b(b["controls"]), _b(b["rotation"])) for b in i["wbranches"]),
         "  iq_w_need_control := %s;" % coq_string_list(sorted(set(i["need_control"]))),
         '  iq_rename_from := "%s";' % i["rename_from"],
         '  iq_rename_to := "%s";' % i["rename_to"],
         "  iq_rbranches := [%s]" % ";\n                   ".join(
             "RBranch %s %s %s %s %s %s" % (coq_string_list(b["names"]), _b(b["ctrl"]), _b(b["pnone"]), _b(b["prefixC"]),
                                            _b(b["pass_ctrl"]), _b(b["pass_param"])) for b in i["rbranches"]),
         "|}.", "",
         "Definition pq_tbl : pq_tables := {|",
         "  pq_names := %s;" % _pairs(p["names"]),
         "  pq_wbranches := [%s];" % "; ".join("(%s, %s)" % (coq_string_list(b["names"]), b["shape"]) for b in p["wbranches"]),
         "  pq_rbranches := [%s];" % "; ".join("(%s, %s)" % (coq_string_list(b["names"]), b["shape"]) for b in p["rbranches"]),
         "  pq_restores_width := %s;" % _b(p["restores_width"]),
         "  pq_w_single_target := %s;" % coq_string_list(p["single_target"]),
         "  pq_w_single_ctrl := %s;" % coq_string_list(p["single_ctrl"]),
         "  pq_ignored := %s" % coq_string_list(p["ignored"]),
         "|}.", "",
         "(* Gate.__repr__ of tangelo/linq/gate.py *)",
         "Definition repr_tbl : repr_tables := {| rp_when_not_none := %s |}." % _b(t["repr"]["when_not_none"])]
    return "\n".join(L) + "\n"
