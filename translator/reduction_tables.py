"""Regenerate gen/ReductionTables.v (property C14) from the Tangelo sources, fail closed.

  operators.py            frobenius_norm_compression: exponent expression of `frob_factor`, the
                          comparison of the discard loop, the accumulation and the sort key
  trim_trivial_qubits.py  is_bitflip_gate: name sets + angle predicate; trim_trivial_circuit: the
                          classification tree (name sets, recorded states) for sizes 1 and 2
  multiformoperator.py    c_calc phase table of __mul__, ConvertPauli translation table
  z2_tapering.py          the selection expression of do_taper's culling step

Nothing is imported or executed: the source text is parsed with `ast` and matched against fixed shapes;
anything else raises TranslateError.
"""
import ast

from .common import parse, find_def, str_collection, pi_multiple, coq_string_list, units_of_pi8, TranslateError


def _dump(n):
    return ast.dump(n)[:160]


# --------------------------------------------------------------------------------------------- frobenius
def _is_name(n, name):
    return isinstance(n, ast.Name) and n.id == name


def _frob_exponent(node):
    """2**E  ->  name of the Coq menu entry giving TWICE the exponent."""
    if isinstance(node, ast.BinOp) and isinstance(node.op, ast.LShift) and isinstance(node.left, ast.Constant) \
            and node.left.value == 1:
        e = node.right                                   # 1 << E  ==  2**E for a non-negative integer E
        if isinstance(e, ast.BinOp) and isinstance(e.op, ast.FloorDiv) and _is_name(e.left, "n_qubits") \
                and isinstance(e.right, ast.Constant) and e.right.value == 2:
            return "x2_floor_half"
        raise TranslateError("frob_factor: unsupported shift amount %s" % ast.unparse(e))
    if not (isinstance(node, ast.BinOp) and isinstance(node.op, ast.Pow)
            and isinstance(node.left, ast.Constant) and node.left.value == 2):
        raise TranslateError("frob_factor is not of the form 2**E: %s" % _dump(node))
    e = node.right
    if isinstance(e, ast.BinOp) and isinstance(e.right, ast.Constant) and e.right.value == 2:
        if isinstance(e.op, ast.FloorDiv) and _is_name(e.left, "n_qubits"):
            return "x2_floor_half"
        if isinstance(e.op, ast.Div) and _is_name(e.left, "n_qubits"):
            return "x2_true_half"
        if isinstance(e.op, ast.FloorDiv) and isinstance(e.left, ast.BinOp) and isinstance(e.left.op, ast.Add) \
                and _is_name(e.left.left, "n_qubits") and isinstance(e.left.right, ast.Constant) and e.left.right.value == 1:
            return "x2_ceil_half"
    raise TranslateError("frob_factor: unsupported exponent expression %s" % ast.unparse(e))


def extract_frobenius(repo):
    tree = parse(repo / "tangelo/toolboxes/operators/operators.py")
    fn = find_def(tree, "frobenius_norm_compression", cls="QubitOperator")
    t = {}
    asg = [n for n in ast.walk(fn) if isinstance(n, ast.Assign) and len(n.targets) == 1 and _is_name(n.targets[0], "frob_factor")]
    if len(asg) != 1:
        raise TranslateError("frobenius_norm_compression: expected one assignment to frob_factor")
    t["x2"] = _frob_exponent(asg[0].value)
    t["x2_src"] = ast.unparse(asg[0].value)
    # coef2_sum = 0.
    init = [n for n in fn.body if isinstance(n, ast.Assign) and _is_name(n.targets[0], "coef2_sum")]
    if len(init) != 1 or not (isinstance(init[0].value, ast.Constant) and init[0].value.value == 0):
        raise TranslateError("frobenius_norm_compression: coef2_sum is not initialised to 0")
    # sorted(self.terms.items(), key=lambda x: abs(x[1]), reverse=False)
    srt = [n for n in ast.walk(fn) if isinstance(n, ast.Call) and _is_name(n.func, "sorted")]
    if len(srt) != 1:
        raise TranslateError("frobenius_norm_compression: expected exactly one sorted(...) call")
    kw = {k.arg: k.value for k in srt[0].keywords}
    key = kw.get("key")
    ok_key = (isinstance(key, ast.Lambda) and isinstance(key.body, ast.Call) and _is_name(key.body.func, "abs")
              and isinstance(key.body.args[0], ast.Subscript) and isinstance(key.body.args[0].slice, ast.Constant)
              and key.body.args[0].slice.value == 1)
    rev = kw.get("reverse")
    if not ok_key or (rev is not None and not (isinstance(rev, ast.Constant) and rev.value is False)):
        raise TranslateError("frobenius_norm_compression: sort is not ascending by abs(coefficient)")
    loops = [n for n in fn.body if isinstance(n, ast.For)]
    if len(loops) != 1:
        raise TranslateError("frobenius_norm_compression: expected exactly one for loop")
    body = loops[0].body
    if len(body) != 2 or not isinstance(body[0], ast.AugAssign) or not isinstance(body[1], ast.If):
        raise TranslateError("frobenius_norm_compression: unexpected loop body")
    aug = body[0]
    sq = aug.value
    if not (_is_name(aug.target, "coef2_sum") and isinstance(aug.op, ast.Add) and isinstance(sq, ast.BinOp)
            and isinstance(sq.op, ast.Pow) and isinstance(sq.right, ast.Constant) and sq.right.value == 2
            and isinstance(sq.left, ast.Call) and _is_name(sq.left.func, "abs") and _is_name(sq.left.args[0], "coef")):
        raise TranslateError("frobenius_norm_compression: accumulation is not coef2_sum += abs(coef)**2")
    test = body[1].test
    if not (isinstance(test, ast.Compare) and len(test.ops) == 1 and isinstance(test.left, ast.Call)
            and _is_name(test.left.func, "sqrt") and _is_name(test.left.args[0], "coef2_sum")
            and isinstance(test.comparators[0], ast.BinOp) and isinstance(test.comparators[0].op, ast.Div)
            and _is_name(test.comparators[0].left, "epsilon") and _is_name(test.comparators[0].right, "frob_factor")):
        raise TranslateError("frobenius_norm_compression: comparison is not sqrt(coef2_sum) OP epsilon / frob_factor: %s"
                             % ast.unparse(test))
    if isinstance(test.ops[0], ast.Gt):
        t["keep"] = "cmp_sqrt_gt"
    elif isinstance(test.ops[0], ast.GtE):
        t["keep"] = "cmp_sqrt_ge"
    else:
        raise TranslateError("frobenius_norm_compression: unsupported comparison operator in %s" % ast.unparse(test))
    if body[1].orelse or len(body[1].body) != 1 or not isinstance(body[1].body[0], ast.Assign):
        raise TranslateError("frobenius_norm_compression: the kept branch is not a single assignment")
    t["keep_src"] = ast.unparse(test)
    return t


# --------------------------------------------------------------------------------------------- trim
def _name_in(node, var):
    """`<var>.name in {..}` -> sorted list of names, else None."""
    if isinstance(node, ast.Compare) and len(node.ops) == 1 and isinstance(node.ops[0], ast.In) \
            and isinstance(node.left, ast.Attribute) and node.left.attr == "name" and _is_name(node.left.value, var):
        return sorted(str_collection(node.comparators[0], "%s.name in" % var))
    return None


def _name_in_and_flag(node, var, flag):
    """`<var>.name in {..} and <flag>` -> names."""
    if isinstance(node, ast.BoolOp) and isinstance(node.op, ast.And) and len(node.values) == 2 \
            and _is_name(node.values[1], flag):
        return _name_in(node.values[0], var)
    return None


def _state_of(body, what):
    """Body `qubit_idx = e_indices[i].pop(); trim_states[qubit_idx] = CONST` -> CONST in (0, 1)."""
    if len(body) != 2:
        raise TranslateError("%s: expected pop + assignment, got %d statements" % (what, len(body)))
    a, b = body
    ok_pop = (isinstance(a, ast.Assign) and _is_name(a.targets[0], "qubit_idx") and isinstance(a.value, ast.Call)
              and isinstance(a.value.func, ast.Attribute) and a.value.func.attr == "pop"
              and isinstance(a.value.func.value, ast.Subscript) and _is_name(a.value.func.value.value, "e_indices"))
    ok_set = (isinstance(b, ast.Assign) and isinstance(b.targets[0], ast.Subscript)
              and _is_name(b.targets[0].value, "trim_states") and _is_name(b.targets[0].slice, "qubit_idx")
              and isinstance(b.value, ast.Constant) and b.value.value in (0, 1))
    if not (ok_pop and ok_set):
        raise TranslateError("%s: unexpected trimming statements" % what)
    return bool(b.value.value)


def _is_keep(body, what):
    if not (len(body) == 1 and isinstance(body[0], ast.AugAssign) and _is_name(body[0].target, "circuit_new")
            and isinstance(body[0].op, ast.Add) and _is_name(body[0].value, "circ")):
        raise TranslateError("%s: expected `circuit_new += circ`" % what)


def extract_trim(repo):
    tree = parse(repo / "tangelo/toolboxes/operators/trim_trivial_qubits.py")
    t = {}
    # ---- is_bitflip_gate
    bf = find_def(tree, "is_bitflip_gate")
    ifs = [n for n in bf.body if isinstance(n, ast.If)]
    if len(ifs) != 2:
        raise TranslateError("is_bitflip_gate: expected two top-level if statements")
    main = ifs[1]
    plain = _name_in(main.test, "gate")
    if plain is None or not (len(main.body) == 1 and isinstance(main.body[0], ast.Return)
                             and isinstance(main.body[0].value, ast.Constant) and main.body[0].value.value is True):
        raise TranslateError("is_bitflip_gate: first branch is not `gate.name in {..}: return True`")
    t["bf_plain"] = plain
    if len(main.orelse) != 1 or not isinstance(main.orelse[0], ast.If):
        raise TranslateError("is_bitflip_gate: missing elif")
    rot = main.orelse[0]
    t["bf_rot"] = _name_in(rot.test, "gate")
    if t["bf_rot"] is None:
        raise TranslateError("is_bitflip_gate: elif is not `gate.name in {..}`")
    if not (len(rot.orelse) == 1 and isinstance(rot.orelse[0], ast.Return)
            and isinstance(rot.orelse[0].value, ast.Constant) and rot.orelse[0].value.value is False):
        raise TranslateError("is_bitflip_gate: else branch does not return False")
    rets = [n for n in rot.body if isinstance(n, ast.Return)]
    if len(rets) != 1:
        raise TranslateError("is_bitflip_gate: rotation branch has no single return")
    r = rets[0].value
    # abs(parameter_float % (np.pi * 2) - np.pi) <= atol
    ok = (isinstance(r, ast.Compare) and isinstance(r.ops[0], ast.LtE) and _is_name(r.comparators[0], "atol")
          and isinstance(r.left, ast.Call) and _is_name(r.left.func, "abs")
          and isinstance(r.left.args[0], ast.BinOp) and isinstance(r.left.args[0].op, ast.Sub)
          and isinstance(r.left.args[0].left, ast.BinOp) and isinstance(r.left.args[0].left.op, ast.Mod)
          and _is_name(r.left.args[0].left.left, "parameter_float"))
    if not ok:
        raise TranslateError("is_bitflip_gate: angle predicate is not abs(p %% m - c) <= atol: %s" % ast.unparse(r))
    m, hp = pi_multiple(r.left.args[0].left.right)
    c, hc = pi_multiple(r.left.args[0].right)
    if not (hp and hc):
        raise TranslateError("is_bitflip_gate: modulus / offset are not multiples of pi")
    t["odd_mod"], t["odd_off"] = units_of_pi8(m, "modulus"), units_of_pi8(c, "offset")
    names = [a.arg for a in bf.args.args]
    if names != ["gate", "atol"] or len(bf.args.defaults) != 1 or not isinstance(bf.args.defaults[0], ast.Constant) \
            or not isinstance(bf.args.defaults[0].value, float):
        raise TranslateError("is_bitflip_gate: signature is not (gate, atol=<float>)")
    t["atol"] = bf.args.defaults[0].value
    tr = [n for n in bf.body if isinstance(n, ast.If)][1]
    # the try: float(gate.parameter) except (TypeError, ValueError): return False
    trys = [n for n in rot.body if isinstance(n, ast.Try)]
    if len(trys) != 1:
        raise TranslateError("is_bitflip_gate: expected a try block around float(gate.parameter)")
    # ---- trim_trivial_circuit
    fn = find_def(tree, "trim_trivial_circuit")
    flags = {}
    for n in ast.walk(fn):
        if isinstance(n, ast.Assign) and isinstance(n.targets[0], ast.Name) and n.targets[0].id in ("gate_0_is_bitflip", "gate_1_is_bitflip"):
            v = n.value
            if not (isinstance(v, ast.Call) and _is_name(v.func, "is_bitflip_gate") and len(v.args) == 1
                    and isinstance(v.args[0], ast.Name) and not v.keywords):
                raise TranslateError("trim_trivial_circuit: unexpected definition of %s" % n.targets[0].id)
            flags[n.targets[0].id] = v.args[0].id
    if flags != {"gate_0_is_bitflip": "gate0", "gate_1_is_bitflip": "gate1"}:
        raise TranslateError("trim_trivial_circuit: bitflip flags are not is_bitflip_gate(gate0/gate1): %s" % flags)
    # which qubits count as used: the union of the entangled index sets, themselves collected from targets AND controls
    src = " ".join(ast.unparse(fn).split())
    for needle in ("circs = circuit.split(trim_qubits=False)", "e_indices = circuit.get_entangled_indices()",
                   "used_qubits = set() for eq in e_indices: used_qubits.update(eq)",
                   "for qubit_idx in set(range(circuit.width)) - used_qubits: trim_states[qubit_idx] = 0",
                   "circuit_new.trim_qubits()", "return (circuit_new, dict(sorted(trim_states.items())))"):
        if needle not in src:
            raise TranslateError("trim_trivial_circuit: expected `%s`" % needle)
    ctree = parse(repo / "tangelo/linq/circuit.py")
    gei = ast.unparse(find_def(ctree, "get_entangled_indices", cls="Circuit"))
    if "q_new = set(g.target) if g.control is None else set(g.target + g.control)" not in gei:
        raise TranslateError("Circuit.get_entangled_indices: qubits of a gate are not collected as target + control")
    tq = ast.unparse(find_def(tree, "trim_trivial_qubits"))
    for needle in ("trimmed_circuit, trim_states = trim_trivial_circuit(circuit)",
                   "trimmed_operator = trim_trivial_operator(operator, trim_states, circuit.width, reindex=True)"):
        if needle not in tq:
            raise TranslateError("trim_trivial_qubits: expected `%s`" % needle)
    loops = [n for n in fn.body if isinstance(n, ast.For) and isinstance(n.target, ast.Tuple)]
    if len(loops) != 1:
        raise TranslateError("trim_trivial_circuit: component loop not found")
    lb = loops[0].body
    guard = [n for n in lb if isinstance(n, ast.If)]
    if len(guard) != 2:
        raise TranslateError("trim_trivial_circuit: expected the width/size guard and the size dispatch")
    g = guard[0].test
    if ast.unparse(g) != "circ_width != 1 or circ.size not in (1, 2)":
        raise TranslateError("trim_trivial_circuit: unexpected guard `%s`" % ast.unparse(g))
    d1 = guard[1]
    if ast.unparse(d1.test) != "circ.size == 1" or len(d1.orelse) != 1 or not isinstance(d1.orelse[0], ast.If) \
            or ast.unparse(d1.orelse[0].test) != "circ.size == 2" or d1.orelse[0].orelse:
        raise TranslateError("trim_trivial_circuit: unexpected size dispatch")
    # size 1
    if len(d1.body) != 1 or not isinstance(d1.body[0], ast.If):
        raise TranslateError("trim_trivial_circuit: size-1 branch is not a single if")
    a = d1.body[0]
    t["s1_phase"] = _name_in(a.test, "gate0")
    if t["s1_phase"] is None:
        raise TranslateError("size 1: first test is not gate0.name in {..}")
    t["s1_phase_state"] = _state_of(a.body, "size 1 / phase")
    if len(a.orelse) != 1 or not isinstance(a.orelse[0], ast.If):
        raise TranslateError("size 1: missing elif")
    b = a.orelse[0]
    t["s1_flip"] = _name_in_and_flag(b.test, "gate0", "gate_0_is_bitflip")
    if t["s1_flip"] is None:
        raise TranslateError("size 1: elif is not gate0.name in {..} and gate_0_is_bitflip")
    t["s1_flip_state"] = _state_of(b.body, "size 1 / flip")
    _is_keep(b.orelse, "size 1 / else")
    # size 2
    d2 = d1.orelse[0]
    if len(d2.body) != 1 or not isinstance(d2.body[0], ast.If):
        raise TranslateError("trim_trivial_circuit: size-2 branch is not a single if")
    p = d2.body[0]
    t["s2_g1_phase"] = _name_in(p.test, "gate1")
    if t["s2_g1_phase"] is None:
        raise TranslateError("size 2: first test is not gate1.name in {..}")
    if len(p.body) != 1 or not isinstance(p.body[0], ast.If):
        raise TranslateError("size 2 / phase: unexpected body")
    pp = p.body[0]
    t["s2_pp_g0"] = _name_in(pp.test, "gate0")
    if t["s2_pp_g0"] is None:
        raise TranslateError("size 2 / phase: inner test is not gate0.name in {..}")
    t["s2_pp_state"] = _state_of(pp.body, "size 2 / phase,phase")
    _is_keep(pp.orelse, "size 2 / phase / else")
    if len(p.orelse) != 1 or not isinstance(p.orelse[0], ast.If):
        raise TranslateError("size 2: missing elif")
    f = p.orelse[0]
    t["s2_g1_flip"] = _name_in_and_flag(f.test, "gate1", "gate_1_is_bitflip")
    if t["s2_g1_flip"] is None:
        raise TranslateError("size 2: elif is not gate1.name in {..} and gate_1_is_bitflip")
    _is_keep(f.orelse, "size 2 / else")
    if len(f.body) != 1 or not isinstance(f.body[0], ast.If):
        raise TranslateError("size 2 / flip: unexpected body")
    ff = f.body[0]
    t["s2_ff_g0"] = _name_in_and_flag(ff.test, "gate0", "gate_0_is_bitflip")
    if t["s2_ff_g0"] is None:
        raise TranslateError("size 2 / flip: inner test is not gate0.name in {..} and gate_0_is_bitflip")
    t["s2_ff_state"] = _state_of(ff.body, "size 2 / flip,flip")
    if len(ff.orelse) != 1 or not isinstance(ff.orelse[0], ast.If):
        raise TranslateError("size 2 / flip: missing elif")
    pf = ff.orelse[0]
    t["s2_pf_g0"] = _name_in(pf.test, "gate0")
    if t["s2_pf_g0"] is None:
        raise TranslateError("size 2 / flip: elif is not gate0.name in {..}")
    t["s2_pf_state"] = _state_of(pf.body, "size 2 / phase,flip")
    _is_keep(pf.orelse, "size 2 / flip / else")
    return t


# --------------------------------------------------------------------------------------------- multiform
_PHASE = {1: 0, 1j: 1, -1: 2, -1j: 3}


def _const_complex(n):
    if isinstance(n, ast.Constant) and isinstance(n.value, (int, float, complex)) and not isinstance(n.value, bool):
        return complex(n.value)
    if isinstance(n, ast.UnaryOp) and isinstance(n.op, ast.USub):
        return -_const_complex(n.operand)
    raise TranslateError("c_calc: unsupported entry %s" % _dump(n))


def extract_multiform(repo):
    tree = parse(repo / "tangelo/toolboxes/operators/multiformoperator.py")
    mul = find_def(tree, "__mul__", cls="MultiformOperator")
    asg = [n for n in ast.walk(mul) if isinstance(n, ast.Assign) and _is_name(n.targets[0], "c_calc")]
    if len(asg) != 1 or not (isinstance(asg[0].value, ast.Call) and isinstance(asg[0].value.args[0], ast.List)):
        raise TranslateError("__mul__: c_calc = np.array([[...]]) not found")
    rows = []
    for r in asg[0].value.args[0].elts:
        if not isinstance(r, ast.List) or len(r.elts) != 4:
            raise TranslateError("c_calc: not a 4x4 table")
        row = []
        for e in r.elts:
            v = _const_complex(e)
            if v not in _PHASE:
                raise TranslateError("c_calc: entry %r is not a power of i" % v)
            row.append(_PHASE[v])
        rows.append(row)
    if len(rows) != 4:
        raise TranslateError("c_calc: not a 4x4 table")
    # how the table is used: c_calc[self.integer[term_i], other_operator.integer] and product = integer ^ other
    src = ast.unparse(mul)
    for needle in ("c_calc[self.integer[term_i], other_operator.integer]", "integer ^ other_operator.integer"):
        if needle not in src:
            raise TranslateError("__mul__: expected `%s`" % needle)
    # collapse: the sort table [codes | row number] must keep numpy's default integer type (row numbers index `factors`)
    col = ast.unparse(find_def(tree, "collapse", cls="MultiformOperator"))
    for needle in ("all_terms = np.concatenate((operator, np.linspace(0, len(operator) - 1, len(operator), dtype=int)"
                   ".reshape(len(operator), -1)), axis=1)\n",
                   "sorted_terms = np.array(sorted(all_terms, key=itemgetter(*qubits)))",
                   "sorted_factors = factors[sorted_terms[:, -1]]",
                   "unique, inverse = np.unique(sorted_terms[:, :-1], axis=0, return_inverse=True)",
                   "factors[inverse[index]] += sorted_factors[index]"):
        if needle not in col:
            raise TranslateError("collapse: expected `%s`" % needle.strip())
    init = find_def(tree, "__init__", cls="ConvertPauli")
    asg = [n for n in ast.walk(init) if isinstance(n, ast.Assign) and _is_name(n.targets[0], "pauli_translation")]
    if len(asg) != 1 or not isinstance(asg[0].value, ast.List):
        raise TranslateError("ConvertPauli: pauli_translation table not found")
    conv = []
    for e in asg[0].value.elts:
        if not (isinstance(e, ast.List) and len(e.elts) == 3 and isinstance(e.elts[0], ast.Constant)
                and isinstance(e.elts[1], ast.Constant) and isinstance(e.elts[2], ast.Tuple) and len(e.elts[2].elts) == 2):
            raise TranslateError("ConvertPauli: unexpected entry %s" % _dump(e))
        bits = [b.value for b in e.elts[2].elts if isinstance(b, ast.Constant)]
        if len(bits) != 2 or any(b not in (0, 1) for b in bits):
            raise TranslateError("ConvertPauli: unexpected bits in %s" % _dump(e))
        conv.append((e.elts[0].value, int(e.elts[1].value), bool(bits[0]), bool(bits[1])))
    return {"c_calc": rows, "convert": conv}


# --------------------------------------------------------------------------------------------- do_taper
def extract_taper(repo):
    tree = parse(repo / "tangelo/toolboxes/operators/z2_tapering.py")
    outer = find_def(tree, "get_z2_taper_function")
    inner = [n for n in outer.body if isinstance(n, ast.FunctionDef) and n.name == "do_taper"]
    if len(inner) != 1:
        raise TranslateError("get_z2_taper_function: do_taper not found")
    fn = inner[0]
    asg = [n for n in fn.body if isinstance(n, ast.Assign) and _is_name(n.targets[0], "indices")]
    if len(asg) != 1:
        raise TranslateError("do_taper: `indices = ...` not found")
    v = asg[0].value
    # np.where(<selection>)[0]
    if not (isinstance(v, ast.Subscript) and isinstance(v.value, ast.Call) and isinstance(v.value.func, ast.Attribute)
            and v.value.func.attr == "where" and len(v.value.args) == 1):
        raise TranslateError("do_taper: indices is not np.where(<selection>)[0]: %s" % ast.unparse(v))
    sel = ast.unparse(v.value.args[0])
    selects_nothing = {"commutes is False"}
    selects_noncommuting = {"commutes == False", "~commutes", "np.logical_not(commutes)", "np.invert(commutes)",
                            "commutes == 0", "np.logical_not(commutes)"}
    if sel in selects_nothing:
        cull = False
    elif sel in selects_noncommuting:
        cull = True
    else:
        raise TranslateError("do_taper: unsupported selection expression `%s`" % sel)
    src = ast.unparse(fn)
    for needle in ("commutes = do_commute(operator, kernel, term_resolved=True)", "operator.remove_terms(indices)",
                   "product = operator * unitary", "product_reverse = unitary * product",
                   "factors[op_matrix[:, index] > 0] *= eigenvalue", "np.delete(op_matrix, q_indices, axis=1)"):
        if needle not in src:
            raise TranslateError("do_taper: expected `%s`" % needle)
    return {"cull": cull, "cull_src": sel}


SECTIONS = (("frob", extract_frobenius), ("trim", extract_trim), ("mf", extract_multiform), ("taper", extract_taper))

# Last-known-good tables (the repaired tree).  Used ONLY when a section of the source is no longer recognised, so
# that the check can go on searching a concrete failing input (model correspondence against these tables and the
# implementation-only oracles); the unrecognised section is reported as a translator failure in any case.
FALLBACK = {
    "frob": {"x2": "x2_true_half", "x2_src": "2 ** (n_qubits / 2)  [FALLBACK]", "keep": "cmp_sqrt_gt",
             "keep_src": "sqrt(coef2_sum) > epsilon / frob_factor  [FALLBACK]"},
    "trim": {"bf_plain": ["X", "Y"], "bf_rot": ["RX", "RY"], "odd_mod": 16, "odd_off": 8, "atol": 1e-5,
             "s1_phase": ["RZ", "Z"], "s1_phase_state": False, "s1_flip": ["RX", "X"], "s1_flip_state": True,
             "s2_g1_phase": ["RZ", "Z"], "s2_pp_g0": ["RZ", "Z"], "s2_pp_state": False,
             "s2_g1_flip": ["RX", "X"], "s2_ff_g0": ["RX", "X"], "s2_ff_state": False,
             "s2_pf_g0": ["RZ", "Z"], "s2_pf_state": True},
    "mf": {"c_calc": [[0, 0, 0, 0], [0, 0, 1, 3], [0, 3, 0, 1], [0, 1, 3, 0]],
           "convert": [("I", 0, False, False), ("Z", 1, False, True), ("X", 2, True, False), ("Y", 3, True, True)]},
    "taper": {"cull": True, "cull_src": "np.logical_not(commutes)  [FALLBACK]"},
}


def extract(repo):
    """Strict: any unrecognised shape raises TranslateError."""
    return {name: fn(repo) for name, fn in SECTIONS}


def extract_with_fallback(repo):
    """(tables, errors): sections that are not recognised come from FALLBACK and are named in `errors`."""
    t, errors = {}, {}
    for name, fn in SECTIONS:
        try:
            t[name] = fn(repo)
        except TranslateError as e:
            errors[name] = str(e)
            t[name] = dict(FALLBACK[name])
    return t, errors


def _b(x):
    return "true" if x else "false"


def emit(t):
    f, tr, mf, tp = t["frob"], t["trim"], t["mf"], t["taper"]
    L = []
    L.append("(* generated by translator/reduction_tables.py from /repo — do not edit *)")
    L.append("From Coq Require Import String ZArith QArith List Bool.")
    L.append("From Tangelo Require Import Chem.Frobenius Chem.Trim Chem.Taper.")
    L.append("Import ListNotations.\nOpen Scope string_scope.\n")
    L.append("(* frob_factor = %s *)" % f["x2_src"])
    L.append("Definition gen_frob_x2 : nat -> nat := %s." % f["x2"])
    L.append("(* if %s: keep *)" % f["keep_src"])
    L.append("Definition gen_frob_keep : Q -> Q -> Q -> bool := %s.\n" % f["keep"])
    L.append("Definition gen_trim_tables : trim_tables :=")
    L.append("  TrimTables %s %s" % (coq_string_list(tr["bf_plain"]), coq_string_list(tr["bf_rot"])))
    L.append("    %s %s %s %s" % (coq_string_list(tr["s1_phase"]), _b(tr["s1_phase_state"]),
                                  coq_string_list(tr["s1_flip"]), _b(tr["s1_flip_state"])))
    L.append("    %s %s %s" % (coq_string_list(tr["s2_g1_phase"]), coq_string_list(tr["s2_pp_g0"]), _b(tr["s2_pp_state"])))
    L.append("    %s %s %s %s %s." % (coq_string_list(tr["s2_g1_flip"]), coq_string_list(tr["s2_ff_g0"]), _b(tr["s2_ff_state"]),
                                     coq_string_list(tr["s2_pf_g0"]), _b(tr["s2_pf_state"])))
    L.append("(* abs(p mod m - c) <= atol, in units of pi/8; default atol = %r *)" % tr["atol"])
    L.append("Definition gen_odd_mod : Z := (%d)%%Z.\nDefinition gen_odd_off : Z := (%d)%%Z.\n" % (tr["odd_mod"], tr["odd_off"]))
    L.append("Definition gen_c_calc : list (list Z) :=\n  [%s]%%Z." % "; ".join(
        "[" + "; ".join(str(x) for x in row) + "]" for row in mf["c_calc"]))
    L.append("Definition gen_convert_pauli : list (string * nat * (bool * bool)) :=\n  [%s].\n" % "; ".join(
        '("%s", %d%%nat, (%s, %s))' % (c, i, _b(x), _b(z)) for (c, i, x, z) in mf["convert"]))
    L.append("(* np.where(%s) *)" % tp["cull_src"])
    L.append("Definition gen_cull : bool := %s." % _b(tp["cull"]))
    return "\n".join(L) + "\n"
