"""Facts about the problem-decomposition sources that select the Coq model variant of C15 (DESIGN §4.1, §5.2).

Parsed with `ast` only (nothing is imported or executed), fail closed:

  dmet_checks   the chain of `if/elif <test>: raise RuntimeError(...)` on the flattened nested fragment_atoms in
                DMETProblemDecomposition.__init__, in source order, each test one of
                    max(flat) >= self.molecule.natm            -> ChkHigher
                    min(flat) < 0                              -> ChkNegative
                    len(flat) != len(set(flat))                -> ChkOnce
                    len(flat) != self.molecule.natm            -> ChkCover
                together with the shapes of the flattening and of the rebuilt geometry
                    flat = [atom_id for frag in self.fragment_atoms for atom_id in frag]
                    new_geometry = [self.molecule._atom[atom_id] for atom_id in flat]
  optimizer_checks_initial / optimizer_tol
                DMETProblemDecomposition._default_optimizer: exactly one call scipy.optimize.newton(<f>, var_params, tol=<T>)
                (any other keyword, e.g. maxiter / disp, is refused: it changes when the search gives up and whether it says so),
                optionally preceded by   c = func(var_params);  if abs(c) < <T>: return var_params
  oniom_copies  whether ONIOMProblemDecomposition.distribute_atoms gives a selected_atoms=None fragment a COPY of
                self.geometry (list(self.geometry) / self.geometry[:] / self.geometry.copy()) or the list object itself

emit() writes Gen.DecompFacts.  FALLBACK holds the facts of the tree this check was last adapted to; it is used by the
check (after reporting the translator failure) so that the implementation-only oracles still run.
"""
import ast

from translator.common import TranslateError, parse, find_def

DMET = "tangelo/problem_decomposition/dmet/dmet_problem_decomposition.py"
ONIOM = "tangelo/problem_decomposition/oniom/oniom_problem_decomposition.py"

FALLBACK = {"dmet_checks": ["ChkHigher", "ChkNegative", "ChkOnce", "ChkCover"], "oniom_copies": True,
            "optimizer_checks_initial": True, "optimizer_tol": 1e-5}


def _u(node):
    return ast.unparse(node).replace(" ", "")


def _dmet_checks(repo):
    fn = find_def(parse(repo / DMET), "__init__", cls="DMETProblemDecomposition")
    nested = [n for n in fn.body if isinstance(n, ast.If) and "isinstance(self.fragment_atoms,list)" in _u(n.test)
              and "all(" in _u(n.test)]
    if len(nested) != 1:
        raise TranslateError("DMET.__init__: nested-list branch `if isinstance(self.fragment_atoms, list) and all(...)` not found exactly once")
    body = nested[0].body
    # flattening
    flats = [n for n in body if isinstance(n, ast.Assign) and len(n.targets) == 1 and isinstance(n.targets[0], ast.Name)
             and isinstance(n.value, ast.ListComp) and len(n.value.generators) == 2 and "self.fragment_atoms" in _u(n.value)]
    if len(flats) != 1:
        raise TranslateError("DMET.__init__: flattening assignment not found exactly once")
    flat = flats[0].targets[0].id
    if _u(flats[0].value) != "[atom_idforfraginself.fragment_atomsforatom_idinfrag]":
        raise TranslateError("DMET.__init__: unexpected flattening expression %s" % ast.unparse(flats[0].value))
    # rebuilt geometry
    geos = [n for n in body if isinstance(n, ast.Assign) and len(n.targets) == 1 and isinstance(n.targets[0], ast.Name)
            and n.targets[0].id == "new_geometry"]
    if len(geos) != 1 or _u(geos[0].value) != "[self.molecule._atom[atom_id]foratom_idin%s]" % flat:
        raise TranslateError("DMET.__init__: new_geometry is not [self.molecule._atom[atom_id] for atom_id in %s]: %s"
                             % (flat, ast.unparse(geos[0].value) if geos else "missing"))
    # counts
    cnts = [n for n in body if isinstance(n, ast.Assign) and _u(n.value) == "[len(frag)forfraginself.fragment_atoms]"]
    if len(cnts) != 1:
        raise TranslateError("DMET.__init__: new_fragment_atoms = [len(frag) for frag in self.fragment_atoms] not found")
    # the chain of raising tests on the flattened list
    chains = [n for n in body if isinstance(n, ast.If) and flat in _u(n.test)]
    if len(chains) != 1:
        raise TranslateError("DMET.__init__: expected exactly one if/elif chain of checks on %s, found %d" % (flat, len(chains)))
    pats = {"max(%s)>=self.molecule.natm" % flat: "ChkHigher", "min(%s)<0" % flat: "ChkNegative",
            "len(%s)!=len(set(%s))" % (flat, flat): "ChkOnce", "len(%s)!=self.molecule.natm" % flat: "ChkCover"}
    checks = []
    node = chains[0]
    while True:
        t = _u(node.test)
        if t not in pats:
            raise TranslateError("DMET.__init__: unrecognised check `%s`" % ast.unparse(node.test))
        if not (len(node.body) == 1 and isinstance(node.body[0], ast.Raise) and "RuntimeError" in _u(node.body[0])):
            raise TranslateError("DMET.__init__: check `%s` does not just raise RuntimeError" % ast.unparse(node.test))
        checks.append(pats[t])
        if not node.orelse:
            break
        if len(node.orelse) == 1 and isinstance(node.orelse[0], ast.If):
            node = node.orelse[0]
        else:
            raise TranslateError("DMET.__init__: the check chain ends with an else branch")
    if checks[0] != "ChkHigher":
        raise TranslateError("DMET.__init__: the chain does not start with the max() test (empty lists would not raise ValueError first)")
    if len(set(checks)) != len(checks):
        raise TranslateError("DMET.__init__: a check appears twice")
    return checks


def _oniom_copies(repo):
    fn = find_def(parse(repo / ONIOM), "distribute_atoms", cls="ONIOMProblemDecomposition")
    loops = [n for n in fn.body if isinstance(n, ast.For)]
    if len(loops) != 1:
        raise TranslateError("distribute_atoms: expected one for loop")
    ifs = [n for n in loops[0].body if isinstance(n, ast.If) and _u(n.test) == "fragment.selected_atomsisNone"]
    if len(ifs) != 1 or len(ifs[0].body) != 1 or not isinstance(ifs[0].body[0], ast.Assign):
        raise TranslateError("distribute_atoms: branch `if fragment.selected_atoms is None: fragment.geometry = ...` not found")
    a = ifs[0].body[0]
    if _u(a.targets[0]) != "fragment.geometry":
        raise TranslateError("distribute_atoms: the None branch does not assign fragment.geometry")
    v = _u(a.value)
    if v == "self.geometry":
        return False
    if v in ("list(self.geometry)", "self.geometry[:]", "self.geometry.copy()", "copy.copy(self.geometry)", "copy.deepcopy(self.geometry)"):
        return True
    raise TranslateError("distribute_atoms: unrecognised value for the whole-system geometry: %s" % ast.unparse(a.value))


def _const_float(fn, node, what):
    if isinstance(node, ast.Constant) and isinstance(node.value, (int, float)) and not isinstance(node.value, bool):
        return float(node.value)
    if isinstance(node, ast.Name):
        vals = [n.value for n in ast.walk(fn) if isinstance(n, ast.Assign) and len(n.targets) == 1
                and isinstance(n.targets[0], ast.Name) and n.targets[0].id == node.id]
        if len(vals) == 1:
            return _const_float(fn, vals[0], what)
    raise TranslateError("_default_optimizer: %s is not a numeric constant: %s" % (what, ast.unparse(node)))


def _optimizer(repo):
    fn = find_def(parse(repo / DMET), "_default_optimizer", cls="DMETProblemDecomposition")
    args = [a.arg for a in fn.args.args]
    if args != ["self", "func", "var_params"]:
        raise TranslateError("_default_optimizer: unexpected signature %s" % args)
    calls = [n for n in ast.walk(fn) if isinstance(n, ast.Call) and _u(n.func) == "scipy.optimize.newton"]
    if len(calls) != 1:
        raise TranslateError("_default_optimizer: expected exactly one scipy.optimize.newton call, found %d" % len(calls))
    c = calls[0]
    if len(c.args) != 2 or _u(c.args[1]) != "var_params" or [k.arg for k in c.keywords] != ["tol"]:
        raise TranslateError("_default_optimizer: newton is not called as newton(<f>, var_params, tol=<T>): %s" % ast.unparse(c))
    tol = _const_float(fn, c.keywords[0].value, "tol")
    rets = [n for n in ast.walk(fn) if isinstance(n, ast.Return)]
    ifs = [n for n in fn.body if isinstance(n, ast.If)]
    if any(isinstance(n, (ast.Try, ast.While, ast.For)) for n in ast.walk(fn)):
        raise TranslateError("_default_optimizer: unexpected control flow")
    if not ifs:
        if len(rets) != 1:
            raise TranslateError("_default_optimizer: expected a single return")
        return False, tol
    if len(ifs) != 1 or ifs[0].orelse or len(ifs[0].body) != 1 or _u(ifs[0].body[0]) != "returnvar_params" or len(rets) != 2:
        raise TranslateError("_default_optimizer: unrecognised guard before the root search")
    t = ifs[0].test
    if not (isinstance(t, ast.Compare) and len(t.ops) == 1 and isinstance(t.ops[0], ast.Lt) and isinstance(t.left, ast.Call)
            and _u(t.left.func) == "abs" and len(t.left.args) == 1 and isinstance(t.left.args[0], ast.Name)):
        raise TranslateError("_default_optimizer: guard is not `abs(<cost>) < <T>`: %s" % ast.unparse(t))
    cost = t.left.args[0].id
    src = [n.value for n in fn.body if isinstance(n, ast.Assign) and len(n.targets) == 1 and isinstance(n.targets[0], ast.Name)
           and n.targets[0].id == cost]
    if len(src) != 1 or _u(src[0]) != "func(var_params)":
        raise TranslateError("_default_optimizer: %s is not func(var_params)" % cost)
    if _const_float(fn, t.comparators[0], "guard tolerance") != tol:
        raise TranslateError("_default_optimizer: guard tolerance differs from newton's tol")
    return True, tol


def extract(repo):
    guard, tol = _optimizer(repo)
    return {"dmet_checks": _dmet_checks(repo), "oniom_copies": _oniom_copies(repo),
            "optimizer_checks_initial": guard, "optimizer_tol": tol}


def emit(facts):
    return ("(* generated by translator/decomp_facts.py from the working tree of the repository; do not edit *)\n"
            "From Coq Require Import List.\nFrom Tangelo Require Import Chem.Decomp.\nImport ListNotations.\n"
            "Definition dmet_checks : list dmet_check := [%s].\n"
            "Definition oniom_copies : bool := %s.\n"
            "Definition optimizer_checks_initial : bool := %s.\n"
            % ("; ".join(facts["dmet_checks"]), "true" if facts["oniom_copies"] else "false",
               "true" if facts["optimizer_checks_initial"] else "false"))
