"""Regenerate gen/CliffordTables.v from tangelo/linq/helpers/circuits/clifford_circuits.py:
the list clifford_values and every (rotation gate, Clifford angle) -> gate-name list of
decompose_gate_to_cliffords."""
import ast
from .common import parse, find_def, pi_multiple, units_of_pi8, coq_string_list, TranslateError


def extract(repo):
    tree = parse(repo / "tangelo/linq/helpers/circuits/clifford_circuits.py")
    fn = find_def(tree, "decompose_gate_to_cliffords")
    vals = None
    for n in ast.walk(fn):
        if isinstance(n, ast.Assign) and len(n.targets) == 1 and isinstance(n.targets[0], ast.Name) \
                and n.targets[0].id == "clifford_values":
            if not isinstance(n.value, ast.List):
                raise TranslateError("clifford_values is not a list literal")
            vals = []
            for e in n.value.elts:
                r, hp = pi_multiple(e)
                if not hp and r != 0:
                    raise TranslateError("clifford value is not a multiple of pi")
                vals.append(r)
    if vals is None:
        raise TranslateError("clifford_values not found")
    period, clifford_step = selection_logic(repo, fn)
    entries = []

    def name_test(t):
        if isinstance(t, ast.Compare) and isinstance(t.ops[0], ast.Eq) and isinstance(t.left, ast.Attribute) \
                and t.left.attr == "name" and isinstance(t.comparators[0], ast.Constant):
            return t.comparators[0].value
        return None

    def angle_test(t):
        if isinstance(t, ast.Compare) and isinstance(t.ops[0], ast.Eq) and isinstance(t.left, ast.Name) \
                and t.left.id == "clifford_parameter":
            r, hp = pi_multiple(t.comparators[0])
            return r
        raise TranslateError("unexpected angle test: %s" % ast.dump(t)[:100])

    def gate_list(stmts):
        if len(stmts) != 1 or not isinstance(stmts[0], ast.Assign) or not isinstance(stmts[0].value, ast.List):
            raise TranslateError("unexpected body in decomposition branch")
        names = []
        for e in stmts[0].value.elts:
            ok = isinstance(e, ast.Call) and isinstance(e.func, ast.Name) and e.func.id == "Gate" and len(e.args) == 2 \
                and isinstance(e.args[0], ast.Constant) and isinstance(e.args[1], ast.Attribute) and e.args[1].attr == "target" \
                and not e.keywords
            if not ok:
                raise TranslateError("unexpected element in gate_list: %s" % ast.dump(e)[:100])
            names.append(e.args[0].value)
        return names

    def walk_angle_chain(node, gname):
        while True:
            entries.append((gname, angle_test(node.test), gate_list(node.body)))
            if not node.orelse:
                return
            if len(node.orelse) == 1 and isinstance(node.orelse[0], ast.If):
                node = node.orelse[0]
            else:
                raise TranslateError("unexpected else branch in angle chain of %s" % gname)

    # the top-level if/elif chain on gate.name
    top = [n for n in fn.body if isinstance(n, ast.If) and name_test(n.test) is not None]
    if len(top) != 1:
        raise TranslateError("expected one if-chain on gate.name, found %d" % len(top))
    node = top[0]
    while True:
        gname = name_test(node.test)
        if gname is None:
            raise TranslateError("unexpected test in gate-name chain")
        if len(node.body) != 1 or not isinstance(node.body[0], ast.If):
            raise TranslateError("unexpected body for gate %s" % gname)
        walk_angle_chain(node.body[0], gname)
        if not node.orelse:
            break
        if len(node.orelse) == 1 and isinstance(node.orelse[0], ast.If):
            node = node.orelse[0]
        else:
            raise TranslateError("unexpected else in gate-name chain")
    return {"values": vals, "entries": entries, "period": period, "clifford_step": clifford_step}


def _same(node, src):
    return ast.dump(node) == ast.dump(ast.parse(src).body[0])


def selection_logic(repo, fn):
    """The way the angle of the gate selects a row of the table (everything around the table itself):
         guard chain   not gate.is_clifford(abs_tol) -> raise ; name not in the four rotations -> return gate ;
                       isclose(gate.parameter, 0) -> return []
         selection     first value of clifford_values with  parameter % P  close to  value % P   (P extracted)
         None -> raise ; default gate_list = [] ; return gate_list
       and Gate.is_clifford: parameter % Q close to 0 (Q extracted).  Fail closed on any other shape."""
    body = [n for n in fn.body if not (isinstance(n, ast.Expr) and isinstance(n.value, ast.Constant))]
    if len(body) != 7:
        raise TranslateError("decompose_gate_to_cliffords: expected 7 statements, found %d" % len(body))
    guard, a_vals, a_sel, none_raise, default, _chain, ret = body
    # guard chain
    if not (isinstance(guard, ast.If) and ast.dump(guard.test) == ast.dump(ast.parse("not gate.is_clifford(abs_tol)").body[0].value)
            and len(guard.body) == 1 and isinstance(guard.body[0], ast.Raise)
            and len(guard.orelse) == 1 and isinstance(guard.orelse[0], ast.If)):
        raise TranslateError("decompose_gate_to_cliffords: unexpected is_clifford guard")
    g2 = guard.orelse[0]
    if not (ast.dump(g2.test) == ast.dump(ast.parse('gate.name not in {"RX", "RY", "RZ", "PHASE"}').body[0].value)
            and len(g2.body) == 1 and _same(g2.body[0], "return gate")
            and len(g2.orelse) == 1 and isinstance(g2.orelse[0], ast.If)):
        raise TranslateError("decompose_gate_to_cliffords: unexpected non-rotation guard")
    g3 = g2.orelse[0]
    if not (ast.dump(g3.test) == ast.dump(ast.parse("isclose(gate.parameter, 0, abs_tol=abs_tol)").body[0].value)
            and len(g3.body) == 1 and _same(g3.body[0], "return []") and not g3.orelse):
        raise TranslateError("decompose_gate_to_cliffords: unexpected zero-angle guard")
    # selection: next((value for value in clifford_values if isclose(gate.parameter % P, value % P, abs_tol=abs_tol)), None)
    try:
        call = a_sel.value
        gen = call.args[0]
        test = gen.generators[0].ifs[0]
        lhs, rhs = test.args[0], test.args[1]
        p1, h1 = pi_multiple(lhs.right)
        p2, h2 = pi_multiple(rhs.right)
        shape_ok = (isinstance(a_sel, ast.Assign) and a_sel.targets[0].id == "clifford_parameter"
                    and call.func.id == "next" and len(call.args) == 2 and isinstance(call.args[1], ast.Constant) and call.args[1].value is None
                    and isinstance(gen, ast.GeneratorExp) and _same(ast.Expr(gen.elt), "value")
                    and len(gen.generators) == 1 and len(gen.generators[0].ifs) == 1
                    and ast.dump(gen.generators[0].target) == ast.dump(ast.parse("value", mode="eval").body).replace("Load", "Store")
                    and ast.dump(gen.generators[0].iter) == ast.dump(ast.parse("clifford_values", mode="eval").body)
                    and test.func.id == "isclose" and len(test.args) == 2
                    and [k.arg for k in test.keywords] == ["abs_tol"] and test.keywords[0].value.id == "abs_tol"
                    and isinstance(lhs, ast.BinOp) and isinstance(lhs.op, ast.Mod) and ast.dump(lhs.left) == ast.dump(ast.parse("gate.parameter", mode="eval").body)
                    and isinstance(rhs, ast.BinOp) and isinstance(rhs.op, ast.Mod) and ast.dump(rhs.left) == ast.dump(ast.parse("value", mode="eval").body)
                    and h1 and h2 and p1 == p2)
    except (AttributeError, IndexError) as e:
        raise TranslateError("decompose_gate_to_cliffords: unexpected selection of clifford_parameter (%s)" % e)
    if not shape_ok:
        raise TranslateError("decompose_gate_to_cliffords: unexpected selection of clifford_parameter")
    if not (isinstance(none_raise, ast.If) and ast.dump(none_raise.test) == ast.dump(ast.parse("clifford_parameter is None").body[0].value)
            and len(none_raise.body) == 1 and isinstance(none_raise.body[0], ast.Raise) and not none_raise.orelse):
        raise TranslateError("decompose_gate_to_cliffords: unexpected handling of an unmatched angle")
    if not _same(default, "gate_list = []") or not _same(ret, "return gate_list"):
        raise TranslateError("decompose_gate_to_cliffords: unexpected default / return")
    # Gate.is_clifford
    gtree = parse(repo / "tangelo/linq/gate.py")
    isc = find_def(gtree, "is_clifford", cls="Gate")
    step = None
    for n in ast.walk(isc):
        if isinstance(n, ast.Return) and isinstance(n.value, ast.Call) and getattr(n.value.func, "id", None) == "isclose":
            c = n.value
            if not (len(c.args) == 2 and isinstance(c.args[0], ast.BinOp) and isinstance(c.args[0].op, ast.Mod)
                    and ast.dump(c.args[0].left) == ast.dump(ast.parse("self.parameter", mode="eval").body)
                    and isinstance(c.args[1], ast.Constant) and c.args[1].value == 0):
                raise TranslateError("Gate.is_clifford: unexpected angle test")
            step, hp = pi_multiple(c.args[0].right)
            if not hp:
                raise TranslateError("Gate.is_clifford: step is not a multiple of pi")
    if step is None:
        raise TranslateError("Gate.is_clifford: angle test not found")
    return p1, step


def emit(t):
    L = ["(* GENERATED by translator/clifford_tables.py from clifford_circuits.py — do not edit *)",
         "From Coq Require Import String List ZArith.", "Import ListNotations.", "Open Scope string_scope.", "",
         "(* angles in units of pi/8 *)",
         "Definition clifford_values : list Z := [%s]." % "; ".join("(%d)%%Z" % units_of_pi8(v, "clifford value") for v in t["values"]),
         "(* (rotation gate, angle, Clifford gate names in the order they are applied) *)",
         "Definition clifford_table : list (string * Z * list string) := ["]
    L.append(";\n".join('  ("%s", (%d)%%Z, %s)' % (g, units_of_pi8(a, "clifford angle"), coq_string_list(ns))
                        for g, a, ns in t["entries"]))
    L.append("].")
    L.append("(* selection: first value v with  k mod clifford_period = v mod clifford_period ; is_clifford: k mod clifford_step = 0 *)")
    L.append("Definition clifford_period : Z := (%d)%%Z." % units_of_pi8(t["period"], "clifford period"))
    L.append("Definition clifford_step : Z := (%d)%%Z." % units_of_pi8(t["clifford_step"], "clifford step"))
    return "\n".join(L) + "\n"
