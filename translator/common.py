"""Fail-closed helpers for the Python-ast translators (DESIGN.md §4.1).

The translators never import or execute Tangelo: they parse the source text with `ast`, match a
fixed expected shape and emit Coq text.  Any shape they do not recognise raises TranslateError;
the calling check treats that like a broken correspondence.
"""
import ast
from fractions import Fraction
from pathlib import Path


class TranslateError(Exception):
    pass


def parse(path):
    try:
        return ast.parse(Path(path).read_text())
    except (OSError, SyntaxError) as e:
        raise TranslateError("cannot parse %s: %s" % (path, e))


def module_assign(tree, name):
    """Value node of the unique module-level `name = ...`."""
    hits = [n.value for n in tree.body if isinstance(n, ast.Assign)
            and len(n.targets) == 1 and isinstance(n.targets[0], ast.Name) and n.targets[0].id == name]
    if len(hits) != 1:
        raise TranslateError("expected exactly one module-level assignment to %s, found %d" % (name, len(hits)))
    return hits[0]


def find_def(tree, name, cls=None):
    """FunctionDef `name` at module level, or inside class `cls`."""
    body = tree.body
    if cls is not None:
        cl = [n for n in tree.body if isinstance(n, ast.ClassDef) and n.name == cls]
        if len(cl) != 1:
            raise TranslateError("class %s not found" % cls)
        body = cl[0].body
    fs = [n for n in body if isinstance(n, ast.FunctionDef) and n.name == name]
    if len(fs) != 1:
        raise TranslateError("function %s%s not found exactly once" % ((cls + ".") if cls else "", name))
    return fs[0]


def local_assign(fn, name):
    hits = [n.value for n in ast.walk(fn) if isinstance(n, ast.Assign)
            and len(n.targets) == 1 and isinstance(n.targets[0], ast.Name) and n.targets[0].id == name]
    if len(hits) != 1:
        raise TranslateError("expected exactly one assignment to %s in %s, found %d" % (name, fn.name, len(hits)))
    return hits[0]


def str_collection(node, what=""):
    """A set/list/tuple literal of string constants -> list of str (source order)."""
    if not isinstance(node, (ast.Set, ast.List, ast.Tuple)):
        raise TranslateError("%s: expected a literal collection of strings, got %s" % (what, ast.dump(node)[:80]))
    out = []
    for e in node.elts:
        if not (isinstance(e, ast.Constant) and isinstance(e.value, str)):
            raise TranslateError("%s: non-string element %s" % (what, ast.dump(e)[:80]))
        out.append(e.value)
    return out


def pi_multiple(node, names=("pi",)):
    """Arithmetic over numbers and pi (names `pi`, `np.pi`, `math.pi`) -> Fraction r with value r*pi,
    or (Fraction, False) for pure numbers.  Returns (r, has_pi)."""
    def ev(n):
        if isinstance(n, ast.Constant) and isinstance(n.value, (int, float)) and not isinstance(n.value, bool):
            return (Fraction(n.value).limit_denominator(10**6), 0)
        if isinstance(n, ast.Name) and n.id in names:
            return (Fraction(1), 1)
        if isinstance(n, ast.Attribute) and n.attr == "pi":
            return (Fraction(1), 1)
        if isinstance(n, ast.UnaryOp) and isinstance(n.op, ast.USub):
            v, d = ev(n.operand)
            return (-v, d)
        if isinstance(n, ast.BinOp) and isinstance(n.op, ast.Mult):
            a, da = ev(n.left)
            b, db = ev(n.right)
            return (a * b, da + db)
        if isinstance(n, ast.BinOp) and isinstance(n.op, ast.Div):
            a, da = ev(n.left)
            b, db = ev(n.right)
            if b == 0:
                raise TranslateError("division by zero in constant expression")
            return (a / b, da - db)
        raise TranslateError("unsupported constant expression: %s" % ast.dump(n)[:120])
    v, d = ev(node)
    if d not in (0, 1):
        raise TranslateError("expression is not linear in pi: %s" % ast.dump(node)[:120])
    return v, bool(d)


def coq_string_list(xs):
    return "[" + "; ".join('"%s"' % x for x in xs) + "]"


def units_of_pi8(r, what=""):
    """r*pi as an integer number of pi/8 units (the Cyc angle grid); fail closed otherwise."""
    u = r * 8
    if u.denominator != 1:
        raise TranslateError("%s: %s*pi is not a multiple of pi/8" % (what, r))
    return int(u)


# ---------------------------------------------------------------------------------------------
# writer-site inventory: assignments through parameters (DESIGN §4.1, used by the non-mutation
# clauses of C09/C11/C13/C16)
def writer_sites(tree, only_functions=None):
    """Every Assign/AugAssign/Delete/mutating-call whose target is an attribute or subscript rooted in a
    function parameter (or in a loop variable ranging over something rooted in a parameter).
    Returns sorted list of 'function: target-source'."""
    sites = []
    mutators = {"append", "extend", "insert", "pop", "remove", "clear", "update", "add", "discard",
                "sort", "reverse", "setdefault", "popitem", "__setitem__", "__delitem__", "fill", "resize"}

    def root_name(n):
        while isinstance(n, (ast.Attribute, ast.Subscript, ast.Call)):
            n = n.value if not isinstance(n, ast.Call) else n.func
        return n.id if isinstance(n, ast.Name) else None

    for fn in ast.walk(tree):
        if not isinstance(fn, (ast.FunctionDef, ast.AsyncFunctionDef)):
            continue
        if only_functions is not None and fn.name not in only_functions:
            continue
        tainted = {a.arg for a in fn.args.args + fn.args.kwonlyargs}
        if fn.args.vararg:
            tainted.add(fn.args.vararg.arg)
        # loop variables / aliases derived from tainted names (one forward pass, repeated to fixpoint)
        changed = True
        while changed:
            changed = False
            for n in ast.walk(fn):
                src, tgts = None, []
                if isinstance(n, (ast.For, ast.comprehension)):
                    src, tgts = n.iter, [n.target]
                elif isinstance(n, ast.Assign):
                    src, tgts = n.value, n.targets
                elif isinstance(n, ast.AugAssign):
                    src, tgts = n.value, [n.target]
                if src is None:
                    continue
                # liberal taint: the value mentions a tainted name, unless it is a call that copies
                # or computes a scalar (over-approximation is harmless: the inventory is compared
                # with a committed expected list)
                s = src
                copiers = {"deepcopy", "copy", "Circuit", "Gate", "len", "range", "int", "float", "str",
                           "set", "sorted", "max", "min", "sum", "abs", "isinstance", "type", "bool"}
                fname = None
                if isinstance(s, ast.Call):
                    fname = s.func.id if isinstance(s.func, ast.Name) else (s.func.attr if isinstance(s.func, ast.Attribute) else None)
                if fname in copiers:
                    roots = []
                else:
                    roots = [nm.id for nm in ast.walk(s) if isinstance(nm, ast.Name)]
                if any(r in tainted for r in roots if r):
                    for t in tgts:
                        for nm in ast.walk(t):
                            if isinstance(nm, ast.Name) and nm.id not in tainted:
                                tainted.add(nm.id)
                                changed = True
        for n in ast.walk(fn):
            tgts = []
            if isinstance(n, ast.Assign):
                tgts = n.targets
            elif isinstance(n, (ast.AugAssign, ast.AnnAssign)):
                tgts = [n.target]
            elif isinstance(n, ast.Delete):
                tgts = n.targets
            elif isinstance(n, ast.Call) and isinstance(n.func, ast.Attribute) and n.func.attr in mutators:
                r = root_name(n.func.value)
                if r in tainted:
                    sites.append("%s: %s()" % (fn.name, ast.unparse(n.func)))
                continue
            for t in tgts:
                for tt in (t.elts if isinstance(t, (ast.Tuple, ast.List)) else [t]):
                    if isinstance(tt, (ast.Attribute, ast.Subscript)) and root_name(tt) in tainted:
                        sites.append("%s: %s" % (fn.name, ast.unparse(tt)))
    return sorted(set(sites))
