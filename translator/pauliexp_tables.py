"""Regenerate gen/PauliExpTables.v from tangelo/toolboxes/ansatz_generator/ansatz_utils.py (C06).

Extracted (ast only, nothing is imported or executed; any unrecognised shape raises TranslateError):
  pauli_op_to_gate        op -> (gate name, parameter as a multiple of pi/8, whether inverse=True calls .inverse())
  exp_pauliword_to_gates  the set of operators that get a basis change (both loops, must agree), the loop
                          sources (word order before, reversed word order after), sorted indices, the CNOT
                          ladder comprehension and its reversal, RZ / CRZ on indices[-1], and the angle rule
                          `K1*coef if coef >= 0. else K2*np.pi+K3*coef`  -> (K1, K2, K3)
  get_exponentiated_qubit_operator_circuit
                          the threshold (abs(np.real(coef)) > 1.e-10), the single-control test, the gate
                          lists of identity terms (name, multiplier of coef), the hard-coded target
"""
import ast
from fractions import Fraction

from .common import parse, find_def, pi_multiple, units_of_pi8, coq_string_list, TranslateError

SRC = "tangelo/toolboxes/ansatz_generator/ansatz_utils.py"


def _u(n):
    return ast.unparse(n)


def _expect(node, text, what):
    got = _u(node)
    if got != text:
        raise TranslateError("%s: expected `%s`, found `%s`" % (what, text, got))


def _kw(call, name, what):
    ks = [k.value for k in call.keywords if k.arg == name]
    if len(ks) != 1:
        raise TranslateError("%s: keyword %s not found exactly once in %s" % (what, name, _u(call)))
    return ks[0]


def _gate_call(node, what):
    if not (isinstance(node, ast.Call) and isinstance(node.func, ast.Name) and node.func.id == "Gate"):
        raise TranslateError("%s: expected a Gate(...) call, found %s" % (what, _u(node)))
    if not (node.args and isinstance(node.args[0], ast.Constant) and isinstance(node.args[0].value, str)):
        raise TranslateError("%s: gate name is not a string literal" % what)
    return node.args[0].value, node


def _int_value(node, what):
    if isinstance(node, ast.UnaryOp) and isinstance(node.op, ast.USub):
        return -_int_value(node.operand, what)
    if isinstance(node, ast.Constant) and isinstance(node.value, (int, float)) and not isinstance(node.value, bool) \
            and float(node.value) == int(node.value):
        return int(node.value)
    raise TranslateError("%s: expected an integer-valued constant, found %s" % (what, _u(node)))


def coef_mult(node, what):
    """Expression linear in coef: coef, np.real(coef), -e, k*e  ->  integer multiplier."""
    if isinstance(node, ast.Name) and node.id == "coef":
        return 1
    if isinstance(node, ast.Call) and _u(node) == "np.real(coef)":
        return 1
    if isinstance(node, ast.UnaryOp) and isinstance(node.op, ast.USub):
        return -coef_mult(node.operand, what)
    if isinstance(node, ast.BinOp) and isinstance(node.op, ast.Mult):
        return _int_value(node.left, what) * coef_mult(node.right, what)
    raise TranslateError("%s: not an integer multiple of coef: %s" % (what, _u(node)))


def extract_pauli_op_to_gate(tree):
    fn = find_def(tree, "pauli_op_to_gate")
    if [a.arg for a in fn.args.args] != ["index", "op", "inverse"]:
        raise TranslateError("pauli_op_to_gate: unexpected signature")
    body = [s for s in fn.body if not (isinstance(s, ast.Expr) and isinstance(s.value, ast.Constant))]
    if len(body) != 1 or not isinstance(body[0], ast.If):
        raise TranslateError("pauli_op_to_gate: expected a single if-chain")
    entries = []
    node = body[0]
    while True:
        t = node.test
        if not (isinstance(t, ast.Compare) and _u(t.left) == "op" and len(t.ops) == 1 and isinstance(t.ops[0], ast.Eq)
                and isinstance(t.comparators[0], ast.Constant) and isinstance(t.comparators[0].value, str)):
            raise TranslateError("pauli_op_to_gate: unexpected test %s" % _u(t))
        op = t.comparators[0].value
        b = node.body
        if len(b) == 1 and isinstance(b[0], ast.Return):
            name, call = _gate_call(b[0].value, "pauli_op_to_gate[%s]" % op)
            if len(call.args) != 2 or _u(call.args[1]) != "index" or call.keywords:
                raise TranslateError("pauli_op_to_gate[%s]: unexpected Gate arguments %s" % (op, _u(call)))
            entries.append((op, name, None, False))
        elif len(b) == 2 and isinstance(b[0], ast.Assign) and isinstance(b[1], ast.Return):
            _expect(b[0].targets[0], "gate", "pauli_op_to_gate[%s]" % op)
            name, call = _gate_call(b[0].value, "pauli_op_to_gate[%s]" % op)
            if len(call.args) != 2 or _u(call.args[1]) != "index" or [k.arg for k in call.keywords] != ["parameter"]:
                raise TranslateError("pauli_op_to_gate[%s]: unexpected Gate arguments %s" % (op, _u(call)))
            r, has_pi = pi_multiple(call.keywords[0].value)
            if not has_pi:
                raise TranslateError("pauli_op_to_gate[%s]: parameter is not a multiple of pi" % op)
            _expect(b[1].value, "gate if not inverse else gate.inverse()", "pauli_op_to_gate[%s] return" % op)
            if name in ("S", "T"):
                raise TranslateError("pauli_op_to_gate[%s]: inverse of %s is not a sign change" % (op, name))
            entries.append((op, name, units_of_pi8(r, "basis angle of %s" % op), True))
        else:
            raise TranslateError("pauli_op_to_gate[%s]: unexpected branch body" % op)
        if not node.orelse:
            break
        if len(node.orelse) == 1 and isinstance(node.orelse[0], ast.If):
            node = node.orelse[0]
        else:
            raise TranslateError("pauli_op_to_gate: unexpected else branch")
    return entries


def extract_exp_pauliword(tree):
    fn = find_def(tree, "exp_pauliword_to_gates")
    if [a.arg for a in fn.args.args] != ["pauli_word", "coef", "variational", "control"]:
        raise TranslateError("exp_pauliword_to_gates: unexpected signature")
    body = [s for s in fn.body if not (isinstance(s, ast.Expr) and isinstance(s.value, ast.Constant))]
    if len(body) != 10:
        raise TranslateError("exp_pauliword_to_gates: expected 10 statements, found %d" % len(body))
    _expect(body[0], "gates = []", "exp_pauliword_to_gates[0]")

    def basis_loop(st, it, inv, what):
        if not (isinstance(st, ast.For) and _u(st.target) == "(index, op)" and _u(st.iter) == it and len(st.body) == 1
                and isinstance(st.body[0], ast.If) and not st.body[0].orelse and len(st.body[0].body) == 1):
            raise TranslateError("%s: unexpected loop %s" % (what, _u(st)[:120]))
        t = st.body[0].test
        if not (isinstance(t, ast.Compare) and _u(t.left) == "op" and isinstance(t.ops[0], ast.In)
                and isinstance(t.comparators[0], (ast.Set, ast.List, ast.Tuple))):
            raise TranslateError("%s: unexpected test %s" % (what, _u(t)))
        ops = []
        for e in t.comparators[0].elts:
            if not (isinstance(e, ast.Constant) and isinstance(e.value, str)):
                raise TranslateError("%s: non-string operator" % what)
            ops.append(e.value)
        _expect(st.body[0].body[0], "gates += [pauli_op_to_gate(index, op, inverse=%s)]" % inv, what)
        return sorted(set(ops))

    ops1 = basis_loop(body[1], "pauli_word", "False", "exp_pauliword_to_gates[before]")
    _expect(body[2], "indices = sorted([index for index, op in pauli_word])", "exp_pauliword_to_gates[indices]")
    _expect(body[3], "cnot_ladder_gates = [Gate('CNOT', target=pair[1], control=pair[0]) for pair in zip(indices[:-1], indices[1:])]",
            "exp_pauliword_to_gates[ladder]")
    _expect(body[4], "gates += cnot_ladder_gates", "exp_pauliword_to_gates[ladder+]")
    # angle rule
    st = body[5]
    if not (isinstance(st, ast.Assign) and _u(st.targets[0]) == "angle" and isinstance(st.value, ast.IfExp)):
        raise TranslateError("exp_pauliword_to_gates: angle rule is not `angle = A if T else B`")
    ie = st.value
    if not (isinstance(ie.test, ast.Compare) and _u(ie.test.left) == "coef" and isinstance(ie.test.ops[0], ast.GtE)
            and _int_value(ie.test.comparators[0], "angle test") == 0):
        raise TranslateError("exp_pauliword_to_gates: angle test is not `coef >= 0.`: %s" % _u(ie.test))
    k1 = coef_mult(ie.body, "angle (coef >= 0)")
    if not (isinstance(ie.orelse, ast.BinOp) and isinstance(ie.orelse.op, ast.Add)):
        raise TranslateError("exp_pauliword_to_gates: negative-coefficient angle is not a sum: %s" % _u(ie.orelse))
    r, has_pi = pi_multiple(ie.orelse.left)
    if not has_pi or r.denominator != 1 or r < 0:
        raise TranslateError("exp_pauliword_to_gates: offset is not a non-negative integer multiple of pi: %s" % _u(ie.orelse.left))
    k3 = coef_mult(ie.orelse.right, "angle (coef < 0)")
    if k1 < 0 or k3 < 0:
        raise TranslateError("exp_pauliword_to_gates: negative coefficient multiplier in the angle rule")
    # rotation
    st = body[6]
    if not (isinstance(st, ast.If) and _u(st.test) == "control is None" and len(st.body) == 1 and len(st.orelse) == 1):
        raise TranslateError("exp_pauliword_to_gates: unexpected rotation statement")
    _expect(st.body[0], "gates += [Gate('RZ', target=indices[-1], parameter=angle, is_variational=variational)]", "exp_pauliword_to_gates[RZ]")
    _expect(st.orelse[0], "gates += [Gate('CRZ', target=indices[-1], control=control, parameter=angle, is_variational=variational)]",
            "exp_pauliword_to_gates[CRZ]")
    _expect(body[7], "gates += cnot_ladder_gates[::-1]", "exp_pauliword_to_gates[unladder]")
    ops2 = basis_loop(body[8], "pauli_word[::-1]", "True", "exp_pauliword_to_gates[after]")
    _expect(body[9], "return gates", "exp_pauliword_to_gates[return]")
    if ops1 != ops2:
        raise TranslateError("exp_pauliword_to_gates: the two basis-change loops test different operator sets")
    return {"ops": ops1, "angle": (k1, int(r), k3)}


def extract_identity(tree):
    fn = find_def(tree, "get_exponentiated_qubit_operator_circuit")
    loops = [s for s in fn.body if isinstance(s, ast.For)]
    if len(loops) != 1 or _u(loops[0].target) != "(pauli_word, coef)" or _u(loops[0].iter) != "timed_pauli_words":
        raise TranslateError("get_exponentiated_qubit_operator_circuit: main loop not found")
    top = loops[0].body
    if not (len(top) == 1 and isinstance(top[0], ast.If) and _u(top[0].test) == "pauli_word"):
        raise TranslateError("get_exponentiated_qubit_operator_circuit: expected `if pauli_word:` in the loop")
    # non-identity branch: threshold
    nb = top[0].body
    if not (len(nb) == 1 and isinstance(nb[0], ast.If) and not nb[0].orelse and len(nb[0].body) == 1):
        raise TranslateError("get_exponentiated_qubit_operator_circuit: unexpected non-identity branch")
    t = nb[0].test
    if not (isinstance(t, ast.Compare) and _u(t.left) == "abs(np.real(coef))" and isinstance(t.ops[0], ast.Gt)
            and isinstance(t.comparators[0], ast.Constant)):
        raise TranslateError("get_exponentiated_qubit_operator_circuit: unexpected threshold test %s" % _u(t))
    thr = Fraction(repr(float(t.comparators[0].value)))
    e = 0
    while thr < 1 and e > -40:
        thr *= 10
        e -= 1
    if thr != 1:
        raise TranslateError("threshold %r is not a power of ten" % t.comparators[0].value)
    _expect(nb[0].body[0], "exp_pauli_word_gates += exp_pauliword_to_gates(pauli_word, np.real(coef), variational=variational, control=control)",
            "get_exponentiated_qubit_operator_circuit[call]")
    # identity branch
    ib = top[0].orelse
    if not (len(ib) == 1 and isinstance(ib[0], ast.If) and _u(ib[0].test) == "control is None"):
        raise TranslateError("get_exponentiated_qubit_operator_circuit: unexpected identity branch")
    _expect(ib[0].body[0], "phase *= np.exp(-1j * np.real(coef))", "identity term without control")
    cb = ib[0].orelse
    if not (len(cb) == 1 and isinstance(cb[0], ast.If) and _u(cb[0].test) == "isinstance(control, int) or len(control) == 1"):
        raise TranslateError("get_exponentiated_qubit_operator_circuit: unexpected single-control test")

    def gates_of(stmts, what):
        out = []
        for s in stmts:
            if not (isinstance(s, ast.AugAssign) and _u(s.target) == "exp_pauli_word_gates" and isinstance(s.value, ast.List)
                    and len(s.value.elts) == 1):
                raise TranslateError("%s: unexpected statement %s" % (what, _u(s)[:100]))
            name, call = _gate_call(s.value.elts[0], what)
            if len(call.args) != 1 or sorted(k.arg for k in call.keywords) != sorted(
                    ["target", "parameter", "is_variational"] + (["control"] if what == "multi" else [])):
                raise TranslateError("%s: unexpected Gate arguments %s" % (what, _u(call)))
            _expect(_kw(call, "is_variational", what), "variational", what)
            out.append((name, _kw(call, "target", what), coef_mult(_kw(call, "parameter", what), what), call))
        return out

    single = gates_of(cb[0].body, "single")
    for (_, tgt, _, _) in single:
        _expect(tgt, "control", "identity term, one control: target")
    multi = gates_of(cb[0].orelse, "multi")
    # two recognised shapes: target=control[-1], control=list(control[:-1])   (current source: target None)
    #                        target=<int>,       control=control              (before fix ae252bf: hard-coded target)
    targets = set()
    for (_, tgt, _, call) in multi:
        ctl = _u(_kw(call, "control", "multi"))
        if _u(tgt) == "control[-1]" and ctl in ("list(control[:-1])", "control[:-1]"):
            targets.add(None)
        elif ctl == "control":
            targets.add(_int_value(tgt, "identity term, several controls: target"))
        else:
            raise TranslateError("identity term, several controls: unrecognised target/control %s / %s" % (_u(tgt), ctl))
    if len(targets) != 1 or (None not in targets and min(targets) < 0):
        raise TranslateError("identity term, several controls: targets %s" % sorted(map(str, targets)))
    return {"threshold_exp10": e, "single": [(n, m) for (n, _, m, _) in single],
            "multi": [(n, m) for (n, _, m, _) in multi], "target": targets.pop()}


# last-known-good constants (the values regenerated from the unchanged tree).  They are used by the check ONLY
# after the corresponding part of the source stopped being recognised (which is reported as a violation of its
# own): the model correspondence then runs against these, and the evidence says so.
FALLBACK = {"basis": [("X", "H", None, False), ("Y", "RX", 4, True)], "ops": ["X", "Y"], "angle": (2, 4, 2),
            "threshold_exp10": -10, "single": [("PHASE", -1)], "multi": [("CPHASE", -1)], "target": None}
# the constants of the source before fix ae252bf (hard-coded target 0), used by the as-is Example of coq/props/C06.v
ASIS_BEFORE_FIX = {"multi": [("CPHASE", -2), ("CRZ", 2)], "target": 0}


def check_shapes(tree):
    """The recursive decomposition and trotterize are modelled by hand (TimeEvo.v); their shape is pinned here."""
    fn = find_def(tree, "recursive_trotter_suzuki_decomposition")
    src = _u(fn)
    for frag in ["[(pauli, np.real(coeff) * time) for pauli, coeff in pauli_words]",
                 "recursive_trotter_suzuki_decomposition(pauli_words, 1, time / 2) + recursive_trotter_suzuki_decomposition(pauli_words[::-1], 1, time / 2)",
                 "time_factor = 1 / (4 - 4 ** (1 / (order - 1)))",
                 "outside = 2 * recursive_trotter_suzuki_decomposition(pauli_words, order - 2, time_factor * time)",
                 "time_factor = 1 - 4 * time_factor",
                 "inside = recursive_trotter_suzuki_decomposition(pauli_words, order - 2, time_factor * time)",
                 "return outside + inside + outside"]:
        if frag not in src:
            raise TranslateError("recursive_trotter_suzuki_decomposition: fragment not found: %s" % frag)
    fn = find_def(tree, "trotterize")
    src = _u(fn)
    for frag in ["evolve_time = time / n_trotter_steps", "{term: etime / n_trotter_steps for term, etime in time.items()}",
                 "operator.terms[term] * evolve_time[term] / n_trotter_steps",
                 "(circuit * n_trotter_steps, phase ** n_trotter_steps) if return_phase else circuit * n_trotter_steps"]:
        if frag not in src:
            raise TranslateError("trotterize: fragment not found: %s" % frag)


def extract(repo):
    tree = parse(repo / SRC)
    t = {"basis": extract_pauli_op_to_gate(tree)}
    t.update(extract_exp_pauliword(tree))
    t.update(extract_identity(tree))
    check_shapes(tree)
    return t


def extract_with_fallback(repo):
    """Piecewise extraction: (tables, {part: 'regenerated from /repo' | 'FALLBACK ...'}, [error strings]).
    A part that is no longer recognised is replaced by its last-known-good constants and reported."""
    t, src, errors = {}, {}, []
    try:
        tree = parse(repo / SRC)
    except TranslateError as e:
        return dict(FALLBACK), {"all": "FALLBACK (last known good): %s" % e}, [str(e)]
    parts = [("pauli_op_to_gate", lambda: {"basis": extract_pauli_op_to_gate(tree)}, ["basis"]),
             ("exp_pauliword_to_gates", lambda: extract_exp_pauliword(tree), ["ops", "angle"]),
             ("identity-term / threshold", lambda: extract_identity(tree), ["threshold_exp10", "single", "multi", "target"]),
             ("recursive decomposition / trotterize shapes", lambda: (check_shapes(tree), {})[1], [])]
    for name, fn, keys in parts:
        try:
            t.update(fn())
            src[name] = "regenerated from /repo"
        except TranslateError as e:
            errors.append(str(e))
            for k in keys:
                t[k] = FALLBACK[k]
            src[name] = "FALLBACK (last known good constants) because: %s" % e
        except Exception as e:      # an unexpected node type inside a matcher is also a refusal
            errors.append("%s: %r" % (name, e))
            for k in keys:
                t[k] = FALLBACK[k]
            src[name] = "FALLBACK (last known good constants) because: %r" % e
    return t, src, errors


def _z(k):
    return "(%d)%%Z" % k


def emit(t):
    basis = "; ".join('("%s", ("%s", %s, %s))' % (op, name, "None" if u is None else "Some %s" % _z(u), "true" if inv else "false")
                      for (op, name, u, inv) in t["basis"])
    k1, k2, k3 = t["angle"]
    L = ["(* GENERATED by translator/pauliexp_tables.py from %s — do not edit *)" % SRC,
         "From Coq Require Import String List ZArith NArith.",
         "From Tangelo Require Import Chem.PauliExp.",
         "Import ListNotations.", "Open Scope string_scope.", "",
         "Definition ptab : ptables :=",
         "  PTables %s" % coq_string_list(t["ops"]),
         "          [%s]" % basis,
         "          %d%%nat %d%%nat %d%%nat" % (k1, k2, k3),
         "          [%s]" % "; ".join('("%s", %s)' % (n, _z(m)) for n, m in t["single"]),
         "          [%s]" % "; ".join('("%s", %s)' % (n, _z(m)) for n, m in t["multi"]),
         "          %s %s." % ("None" if t["target"] is None else "(Some %d%%N)" % t["target"], _z(t["threshold_exp10"]))]
    return "\n".join(L) + "\n"
