"""Regenerate gen/NoiseTables.v (C19) from
     tangelo/linq/noisy_simulation/noise_models.py   SUPPORTED_NOISE_MODELS, the constants and the shape of
                                                     NoiseModel.add_quantum_error, noisy_gates
     tangelo/linq/translator/translate_cirq.py       the "Add noisy gates" block of translate_c_to_cirq: noise
                                                     types, which qubits get the channel and in which order
                                                     (targets then controls), the rate conversion expression,
                                                     the CNOT -> CX renaming and the name used for the look-up
     tangelo/linq/target/backend.py                  the two constructor checks of Backend.__init__
     tangelo/linq/target/target_cirq.py, target_sympy.py   backend_info(), where the noise model is passed on
Nothing is imported or executed; every unexpected shape raises TranslateError (fail closed)."""
import ast
import re

from .common import parse, module_assign, find_def, str_collection, coq_string_list, TranslateError


class _StripRaise(ast.NodeTransformer):
    """raise X(<message>) -> raise X  (messages are not part of the modelled behaviour)."""

    def visit_Raise(self, node):
        exc = node.exc
        if isinstance(exc, ast.Call) and isinstance(exc.func, ast.Name):
            return ast.Raise(exc=ast.Name(id=exc.func.id, ctx=ast.Load()), cause=None)
        raise TranslateError("unexpected raise statement: %s" % ast.unparse(node)[:100])


def shape(node):
    import copy
    n = _StripRaise().visit(copy.deepcopy(node))
    ast.fix_missing_locations(n)
    return ast.unparse(n)


def norm(src):
    """canonical text of an expected source fragment (same normalisation as `shape`)."""
    return "\n".join(shape(s) for s in ast.parse(src).body)


def body_no_doc(fn):
    b = list(fn.body)
    if b and isinstance(b[0], ast.Expr) and isinstance(b[0].value, ast.Constant) and isinstance(b[0].value.value, str):
        b = b[1:]
    return b


def expect(cond, what):
    if not cond:
        raise TranslateError(what)


# ------------------------------------------------------------------------------------------ noise_models.py
def extract_validation(repo, t):
    tree = parse(repo / "tangelo/linq/noisy_simulation/noise_models.py")
    t["supported"] = sorted(str_collection(module_assign(tree, "SUPPORTED_NOISE_MODELS"), "SUPPORTED_NOISE_MODELS"))
    fn = find_def(tree, "add_quantum_error", cls="NoiseModel")
    expect([a.arg for a in fn.args.args] == ["self", "abs_gate", "noise_type", "noise_params"],
           "add_quantum_error: unexpected signature")
    body = body_no_doc(fn)
    expect(len(body) == 4 and all(isinstance(s, ast.If) for s in body),
           "add_quantum_error: expected exactly four if-statements, got %d statements" % len(body))
    s0, s1, s2, s3 = [shape(s) for s in body]
    expect(s0 == norm("if noise_type not in SUPPORTED_NOISE_MODELS:\n    raise ValueError('x')"),
           "add_quantum_error: unexpected first check: %s" % s0)
    m = re.fullmatch(r"if noise_type == '(\w+)' and \(not isinstance\(noise_params, list\) or len\(noise_params\) != (\d+)\):\n"
                     r"    raise ValueError", s1)
    expect(m, "add_quantum_error: unexpected second check: %s" % s1)
    t["v_pauli"], t["v_pauli_len"] = m.group(1), int(m.group(2))
    m = re.fullmatch(r"if noise_type == '(\w+)' and \(not isinstance\(noise_params, float\)\):\n    raise ValueError", s2)
    expect(m, "add_quantum_error: unexpected third check: %s" % s2)
    t["v_depol"] = m.group(1)
    expect(s3 == norm(
        "if abs_gate in self._quantum_errors:\n"
        "    if noise_type not in {nt for nt, np in self._quantum_errors[abs_gate]}:\n"
        "        self._quantum_errors[abs_gate] += [(noise_type, noise_params)]\n"
        "    else:\n"
        "        raise ValueError('x')\n"
        "else:\n"
        "    self._quantum_errors[abs_gate] = [(noise_type, noise_params)]\n"),
        "add_quantum_error: unexpected storage logic: %s" % s3)
    init = find_def(tree, "__init__", cls="NoiseModel")
    expect([shape(s) for s in body_no_doc(init)] == [norm("self._quantum_errors = dict()")],
           "NoiseModel.__init__: unexpected body")
    ng = find_def(tree, "noisy_gates", cls="NoiseModel")
    expect([shape(s) for s in body_no_doc(ng)] == [norm("return set(self._quantum_errors.keys())")],
           "NoiseModel.noisy_gates: unexpected body")
    # a NoiseModel object must be truthy whatever it holds (`if noise_model and ...`): no __bool__/__len__
    cls = [n for n in tree.body if isinstance(n, ast.ClassDef) and n.name == "NoiseModel"][0]
    names = {n.name for n in cls.body if isinstance(n, ast.FunctionDef)}
    expect(not ({"__bool__", "__len__"} & names), "NoiseModel defines __bool__/__len__: truthiness is no longer constant")


# ------------------------------------------------------------------------------------------ translate_cirq.py
def rate_expr(node, mode):
    """np*(4**depo_size-1)/4**depo_size as Coq text over Qc (mode 'Qc') or R (mode 'R')."""
    def const(c):
        expect(isinstance(c, int) and not isinstance(c, bool), "rate expression: non-integer constant %r" % (c,))
        return "(Q2Qc (inject_Z (%d)))" % c if mode == "Qc" else "(IZR (%d))" % c

    def ev(n):
        if isinstance(n, ast.Name) and n.id == "np":
            return "np"
        if isinstance(n, ast.Constant):
            return const(n.value)
        if isinstance(n, ast.BinOp) and isinstance(n.op, ast.Pow):
            expect(isinstance(n.left, ast.Constant) and isinstance(n.right, ast.Name) and n.right.id == "depo_size",
                   "rate expression: unsupported power %s" % ast.unparse(n))
            return ("(Qcpow %s depo_size)" if mode == "Qc" else "(pow %s depo_size)") % const(n.left.value)
        if isinstance(n, ast.BinOp) and type(n.op) in (ast.Mult, ast.Div, ast.Sub, ast.Add):
            op = {ast.Mult: "*", ast.Div: "/", ast.Sub: "-", ast.Add: "+"}[type(n.op)]
            return "(%s %s %s)" % (ev(n.left), op, ev(n.right))
        raise TranslateError("rate expression: unsupported node %s" % ast.dump(n)[:100])
    return ev(node)


def extract_insertion(repo, t):
    tree = parse(repo / "tangelo/linq/translator/translate_cirq.py")
    fn = find_def(tree, "translate_c_to_cirq")
    loops = [n for n in fn.body if isinstance(n, ast.For)]
    expect(len(loops) == 1 and shape(loops[0].iter) == "source_circuit._gates" and isinstance(loops[0].target, ast.Name),
           "translate_c_to_cirq: the loop over source_circuit._gates was not found exactly once")
    loop = loops[0]
    gv = loop.target.id
    body = loop.body
    expect(len(body) >= 3 and isinstance(body[-1], ast.If), "translate_c_to_cirq: unexpected loop body")
    noise_if = body[-1]
    # ---- renaming of multi-controlled CNOT (before the dispatch)
    t["rename_rule"] = None
    t["needs_control"] = []
    renamed_var = None
    pre = body[:-2]
    dispatch = body[-2]
    expect(isinstance(dispatch, ast.If) and shape(dispatch.test).startswith("%s.name in {" % gv),
           "translate_c_to_cirq: the gate dispatch is not the statement before the noise block")
    names_before = {}          # variables assigned from <gv>.name before any renaming
    for st in pre:
        if isinstance(st, ast.Assign) and len(st.targets) == 1 and isinstance(st.targets[0], ast.Name) \
                and shape(st.value) == "%s.name" % gv:
            names_before[st.targets[0].id] = True
            continue
        expect(isinstance(st, ast.If) and shape(st.test) == "%s.control is not None" % gv,
               "translate_c_to_cirq: unexpected statement before the gate dispatch: %s" % shape(st)[:120])
        if st.orelse:
            # elif gate.name in {...controlled names...}: raise ValueError   (a controlled gate without controls)
            expect(len(st.orelse) == 1 and isinstance(st.orelse[0], ast.If) and not st.orelse[0].orelse,
                   "translate_c_to_cirq: unexpected else-branch of the control block")
            el = st.orelse[0]
            expect(isinstance(el.test, ast.Compare) and len(el.test.ops) == 1 and isinstance(el.test.ops[0], ast.In)
                   and shape(el.test.left) == "%s.name" % gv and [shape(x) for x in el.body] == ["raise ValueError"],
                   "translate_c_to_cirq: unexpected else-branch of the control block: %s" % shape(el)[:120])
            t["needs_control"] = sorted(str_collection(el.test.comparators[0], "names that need a control"))
        inner = st.body
        expect(shape(inner[0]) == "num_controls = len(%s.control)" % gv,
               "translate_c_to_cirq: num_controls is not len(gate.control)")
        for s in inner[1:]:
            if isinstance(s, ast.If):
                m = re.fullmatch(r"%s\.name == '(\w+)' and num_controls > (\d+)" % gv, shape(s.test))
                expect(m and not s.orelse, "translate_c_to_cirq: unexpected conditional in the control block: %s" % shape(s.test))
                stm = [shape(x) for x in s.body]
                m2 = re.fullmatch(r"(\w+)\.name = '(\w+)'", stm[-1])
                expect(m2, "translate_c_to_cirq: unexpected renaming body %s" % stm)
                expect(stm[:-1] in ([], ["%s = copy.copy(%s)" % (m2.group(1), gv)]),
                       "translate_c_to_cirq: unexpected renaming body %s" % stm)
                t["rename_rule"] = (m.group(1), m2.group(2), int(m.group(2)))
                renamed_var = m2.group(1)
            else:
                expect(isinstance(s, ast.Assign), "translate_c_to_cirq: unexpected statement in the control block")
    # ---- the noise block
    m = re.fullmatch(r"noise_model and (\w+(?:\.name)?) in noise_model\.noisy_gates", shape(noise_if.test))
    expect(m and not noise_if.orelse, "translate_c_to_cirq: unexpected noise test: %s" % shape(noise_if.test))
    key = m.group(1)
    if key == "%s.name" % gv:
        t["lookup_renamed"] = t["rename_rule"] is not None and renamed_var == gv
    elif key in names_before:
        t["lookup_renamed"] = False
    elif key.endswith(".name") and key[:-5] != renamed_var and renamed_var is not None and renamed_var != gv:
        # the dispatch works on a renamed copy bound to another variable; the look-up uses the loop variable
        expect(key[:-5] == gv, "translate_c_to_cirq: look-up through an unknown variable %s" % key)
        t["lookup_renamed"] = False
    else:
        raise TranslateError("translate_c_to_cirq: cannot tell which name is looked up in the noise model: %s" % key)
    expect(len(noise_if.body) == 1 and isinstance(noise_if.body[0], ast.For), "translate_c_to_cirq: unexpected noise block")
    nfor = noise_if.body[0]
    expect(shape(nfor.target) == "(nt, np)" and shape(nfor.iter) == "noise_model._quantum_errors[%s]" % key,
           "translate_c_to_cirq: unexpected loop over the errors of a gate: for %s in %s" % (shape(nfor.target), shape(nfor.iter)))
    expect(len(nfor.body) == 1 and isinstance(nfor.body[0], ast.If), "translate_c_to_cirq: unexpected error loop body")
    pif = nfor.body[0]
    m = re.fullmatch(r"nt == '(\w+)'", shape(pif.test))
    expect(m, "translate_c_to_cirq: unexpected first noise type test")
    t["t_pauli"] = m.group(1)
    g2 = r"(\w+)"
    pb = [shape(s) for s in pif.body]
    exp_p = [r"depo = cirq\.asymmetric_depolarize\(np\[0\], np\[1\], np\[2\]\)",
             r"target_circuit \+= \[depo\(qubit_list\[t\]\) for t in " + g2 + r"\.target\]",
             r"if " + g2 + r"\.control is not None:\n    target_circuit \+= \[depo\(qubit_list\[c\]\) for c in " + g2 + r"\.control\]"]
    expect(len(pb) == 3 and all(re.fullmatch(e, s) for e, s in zip(exp_p, pb)),
           "translate_c_to_cirq: unexpected Pauli-noise block: %s" % pb)
    expect(len(pif.orelse) == 1 and isinstance(pif.orelse[0], ast.If) and not pif.orelse[0].orelse,
           "translate_c_to_cirq: unexpected structure after the Pauli-noise block")
    dif = pif.orelse[0]
    m = re.fullmatch(r"nt == '(\w+)'", shape(dif.test))
    expect(m, "translate_c_to_cirq: unexpected second noise type test")
    t["t_depol"] = m.group(1)
    db = dif.body
    dbs = [shape(s) for s in db]
    exp_d = [r"depo_list = \[qubit_list\[t\] for t in " + g2 + r"\.target\]",
             r"if " + g2 + r"\.control is not None:\n    depo_list \+= \[qubit_list\[c\] for c in " + g2 + r"\.control\]",
             r"depo_size = len\(depo_list\)",
             None,
             r"target_circuit\.append\(depo\(\*depo_list\)\)"]
    expect(len(dbs) == 5 and all(e is None or re.fullmatch(e, s) for e, s in zip(exp_d, dbs)),
           "translate_c_to_cirq: unexpected depolarising-noise block: %s" % dbs)
    call = db[3]
    expect(isinstance(call, ast.Assign) and shape(call.targets[0]) == "depo" and isinstance(call.value, ast.Call)
           and shape(call.value.func) == "cirq.depolarize" and len(call.value.args) == 2 and not call.value.keywords
           and shape(call.value.args[1]) == "depo_size",
           "translate_c_to_cirq: unexpected cirq.depolarize call: %s" % dbs[3])
    # the gate whose qubits get the channels: the loop variable or its renamed copy (same qubits)
    used = set(re.findall(r"(\w+)\.(?:target|control)", "\n".join(pb + dbs)))
    expect(used <= {gv, renamed_var}, "translate_c_to_cirq: channels placed on the qubits of another object: %s" % used)
    t["rate_src"] = shape(call.value.args[0])
    t["rate_Qc"] = rate_expr(call.value.args[0], "Qc")
    t["rate_R"] = rate_expr(call.value.args[0], "R")
    # target_circuit must be the returned object and channels appended with the default strategy
    expect(shape(fn.body[-1]) == "return target_circuit", "translate_c_to_cirq: does not return target_circuit")


# ------------------------------------------------------------------------------------------ backends
def extract_backend(repo, t):
    tree = parse(repo / "tangelo/linq/target/backend.py")
    init = find_def(tree, "__init__", cls="Backend")
    expect([a.arg for a in init.args.args] == ["self", "n_shots", "noise_model"], "Backend.__init__: unexpected signature")
    ifs = [shape(s) for s in init.body if isinstance(s, ast.If)]
    expect(ifs == [norm("if self._noise_model and not self.noisy_simulation:\n    raise ValueError('x')"),
                   norm("if not self.n_shots and (not self.statevector_available or self._noise_model):\n    raise ValueError('x')")],
           "Backend.__init__: unexpected constructor checks: %s" % ifs)
    asg = [shape(s) for s in init.body if isinstance(s, ast.Assign)]
    expect("self._noise_model = noise_model" in asg and "self.n_shots = n_shots" in asg,
           "Backend.__init__: noise model / shots are not stored as given")
    for name, f, cls in [("cirq", "target_cirq.py", "CirqSimulator"), ("sympy", "target_sympy.py", "SympySimulator")]:
        tr = parse(repo / "tangelo/linq/target" / f)
        bi = find_def(tr, "backend_info", cls=cls)
        rets = [n for n in ast.walk(bi) if isinstance(n, ast.Return)]
        expect(len(rets) == 1 and isinstance(rets[0].value, ast.Dict), "%s.backend_info: unexpected body" % cls)
        d = {}
        for k, v in zip(rets[0].value.keys, rets[0].value.values):
            expect(isinstance(k, ast.Constant) and isinstance(v, ast.Constant), "%s.backend_info: non-literal entry" % cls)
            d[k.value] = v.value
        expect(isinstance(d.get("noisy_simulation"), bool) and isinstance(d.get("statevector_available"), bool),
               "%s.backend_info: missing flags" % cls)
        t[name + "_noisy"], t[name + "_sv"] = d["noisy_simulation"], d["statevector_available"]
    # target_cirq: the density-matrix branch hands the stored noise model to the translator, and noisy
    # expectation values are read off the density matrix
    tc = parse(repo / "tangelo/linq/target/target_cirq.py")
    sim = find_def(tc, "simulate_circuit", cls="CirqSimulator")
    passed = [n for n in ast.walk(sim) if isinstance(n, ast.Dict)
              and any(isinstance(k, ast.Constant) and k.value == "noise_model" and shape(v) == "self._noise_model"
                      for k, v in zip(n.keys, n.values))]
    expect(len(passed) >= 1, "CirqSimulator.simulate_circuit no longer passes self._noise_model to the translator")
    tests = [shape(n.test) for n in ast.walk(sim) if isinstance(n, ast.If)]
    expect("(self._noise_model or source_circuit.is_mixed_state) and (not save_mid_circuit_meas)" in tests,
           "CirqSimulator.simulate_circuit: the density-matrix branch was not found")
    ev = find_def(tc, "expectation_value_from_prepared_state", cls="CirqSimulator")
    src = shape(ev)
    expect("if self._noise_model:\n        exp_value = paulisum.expectation_from_density_matrix(prepared_state, qubit_map)" in src,
           "CirqSimulator.expectation_value_from_prepared_state: noisy branch not found")


def extract(repo):
    t = {}
    extract_validation(repo, t)
    extract_insertion(repo, t)
    extract_backend(repo, t)
    return t


def emit(t):
    rr = t["rename_rule"]
    L = ["(* GENERATED by translator/noise_tables.py from noise_models.py, translate_cirq.py, backend.py,",
         "   target_cirq.py, target_sympy.py — do not edit *)",
         "From Coq Require Import String List ZArith QArith Qcanon Reals.",
         "From Tangelo Require Import Linq.Noise Linq.NoiseRun.",
         "Import ListNotations.", "Open Scope string_scope.", "",
         "Definition ntab : ntables := {|",
         "  supported := %s;" % coq_string_list(t["supported"]),
         '  v_pauli := "%s"; v_pauli_len := %d%%nat; v_depol := "%s";' % (t["v_pauli"], t["v_pauli_len"], t["v_depol"]),
         '  t_pauli := "%s"; t_depol := "%s";' % (t["t_pauli"], t["t_depol"]),
         "  rename_rule := %s" % ("None" if rr is None else '(Some ("%s", "%s", %d%%nat))' % rr),
         "|}.",
         "(* the noise look-up sees the name AFTER the renaming of multi-controlled gates *)",
         "Definition lookup_renamed : bool := %s." % ("true" if t["lookup_renamed"] else "false"),
         "(* controlled gate names that translate_c_to_cirq refuses without a control (empty: no such check) *)",
         "Definition needs_control : list string := %s." % coq_string_list(t["needs_control"]),
         "(* argument of cirq.depolarize:  %s  *)" % t["rate_src"],
         "Definition depol_rate_Qc (np : Qc) (depo_size : nat) : Qc := %s%%Qc." % t["rate_Qc"],
         "Definition depol_rate_R (np : R) (depo_size : nat) : R := %s%%R." % t["rate_R"],
         "(* backend_info() *)",
         "Definition cirq_noisy : bool := %s.  Definition cirq_sv : bool := %s." % (
             "true" if t["cirq_noisy"] else "false", "true" if t["cirq_sv"] else "false"),
         "Definition sympy_noisy : bool := %s.  Definition sympy_sv : bool := %s." % (
             "true" if t["sympy_noisy"] else "false", "true" if t["sympy_sv"] else "false")]
    return "\n".join(L) + "\n"
