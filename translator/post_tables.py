"""Regenerate gen/PostTables.v from the post-processing sources (C18).

Extracted (fail closed: any other shape raises TranslateError):
  histogram.py   Histogram.__init__ defaults (n_shots, msq_first, epsilon); the conversion of probabilities to counts (either per-key
                 `round(v*n_shots)`, or floors + largest remainders sorted by (floor - scaled, key)) -> conversion_rule; the sum test
                 `abs(sum_values-1) > epsilon`; the key reversal `{k[::-1]: v ...}`;
                 remove_qubit_indices' accumulator default `new_counts.get(new_bitstring, 0)`
  post_selection.py  the accumulator defaults of split_frequency_dict_for_last_n_digits
  bootstrapping.py  the chunk loop of get_resampled_frequencies: `chunk_size = 10**7`,
                 `n_chunks = ncount // chunk_size`, `for i in range(n_chunks+1)`,
                 `this_chunk = ncount % chunk_size if i == n_chunks else chunk_size`, `v / ncount`
  backend.py     the sign rule `(-1) ** (... .count("1") % 2)` of the one-term expectation
The numbers go into Coq as exact rationals (a Python float literal is a dyadic rational)."""
import ast
from fractions import Fraction

from .common import parse, find_def, TranslateError


def _const(node, what, types=(int, float)):
    if isinstance(node, ast.UnaryOp) and isinstance(node.op, ast.USub):
        return -_const(node.operand, what, types)
    if not (isinstance(node, ast.Constant) and isinstance(node.value, types)) or (isinstance(node.value, bool) and bool not in types):
        raise TranslateError("%s: expected a literal constant, got %s" % (what, ast.dump(node)[:80]))
    return node.value


def _defaults(fn):
    args = fn.args.args
    ds = fn.args.defaults
    return {a.arg: d for a, d in zip(args[len(args) - len(ds):], ds)}


def _is_name(n, name):
    return isinstance(n, ast.Name) and n.id == name


def extract(repo):
    t = {}
    h = parse(repo / "tangelo/toolboxes/post_processing/histogram.py")
    init = find_def(h, "__init__", cls="Histogram")
    d = _defaults(init)
    for need in ("n_shots", "msq_first", "epsilon"):
        if need not in d:
            raise TranslateError("Histogram.__init__: no default for %s" % need)
    t["default_n_shots"] = _const(d["n_shots"], "n_shots default", (int,))
    t["default_msq_first"] = _const(d["msq_first"], "msq_first default", (bool,))
    t["default_epsilon"] = Fraction(_const(d["epsilon"], "epsilon default"))
    # the conversion of probabilities to counts: one of the two known shapes
    def _norm(n):
        return ast.unparse(n).replace(" ", "")
    conv = [n for n in ast.walk(init) if isinstance(n, ast.Assign) and len(n.targets) == 1 and _is_name(n.targets[0], "outcomes")]
    dcs = [n.value for n in conv if isinstance(n.value, ast.DictComp)]
    if len(conv) != 1 or len(dcs) != 1:
        raise TranslateError("Histogram.__init__: the conversion of probabilities to counts was not found as one dict comprehension assigned to outcomes")
    dc = dcs[0]
    if _norm(dc) == "{k:round(v*n_shots)fork,vinoutcomes.items()}":
        t["conversion"] = "round_per_key"
        extra_dictcomps = 0
    elif _norm(dc) == "{k:int(s//1)fork,sinscaled.items()}":
        # scaled = {k: v*n_shots ...}; n_missing = round(sum(scaled.values())) - sum(outcomes.values());
        # for k in sorted(scaled, key=lambda k: (outcomes[k] - scaled[k], k))[:n_missing]: outcomes[k] += 1
        sc = [n for n in ast.walk(init) if isinstance(n, ast.Assign) and len(n.targets) == 1 and _is_name(n.targets[0], "scaled")]
        if len(sc) != 1 or _norm(sc[0].value) != "{k:v*n_shotsfork,vinoutcomes.items()}":
            raise TranslateError("Histogram.__init__: `scaled` is not {k: v*n_shots ...}")
        nm = [n for n in ast.walk(init) if isinstance(n, ast.Assign) and len(n.targets) == 1 and _is_name(n.targets[0], "n_missing")]
        if len(nm) != 1 or _norm(nm[0].value) != "round(sum(scaled.values()))-sum(outcomes.values())":
            raise TranslateError("Histogram.__init__: n_missing is not round(sum(scaled.values())) - sum(outcomes.values())")
        loops = [n for n in ast.walk(init) if isinstance(n, ast.For)]
        if len(loops) != 1 or _norm(loops[0].iter) != "sorted(scaled,key=lambdak:(outcomes[k]-scaled[k],k))[:n_missing]" \
                or len(loops[0].body) != 1 or _norm(loops[0].body[0]) != "outcomes[k]+=1" or not _is_name(loops[0].target, "k"):
            raise TranslateError("Histogram.__init__: the largest-remainder loop has an unexpected shape: %s" % (ast.unparse(loops[0])[:200] if loops else "no loop"))
        t["conversion"] = "largest_remainder"
        extra_dictcomps = 1
    else:
        raise TranslateError("Histogram.__init__: unknown conversion of probabilities to counts: %s" % ast.unparse(dc))
    # abs(sum_values-1) > epsilon
    tests = [n for n in ast.walk(init) if isinstance(n, ast.Compare) and isinstance(n.left, ast.Call) and _is_name(n.left.func, "abs")]
    if len(tests) != 1 or not (isinstance(tests[0].ops[0], ast.Gt) and _is_name(tests[0].comparators[0], "epsilon")
                               and ast.unparse(tests[0].left.args[0]).replace(" ", "") == "sum_values-1"):
        raise TranslateError("Histogram.__init__: the normalisation test is not `abs(sum_values-1) > epsilon`")
    # {k[::-1]: v for k, v in self.counts.items()}
    rev = [n for n in ast.walk(init) if isinstance(n, ast.DictComp) and n is not dc and ast.unparse(n.key) == "k[::-1]"]
    others = [n for n in ast.walk(init) if isinstance(n, ast.DictComp)]
    if len(others) != 2 + extra_dictcomps or len(rev) != 1 or not _is_name(rev[0].value, "v"):
        raise TranslateError("Histogram.__init__: the msq_first branch is not a key reversal")
    rm = find_def(h, "remove_qubit_indices", cls="Histogram")
    gets = [n for n in ast.walk(rm) if isinstance(n, ast.Call) and isinstance(n.func, ast.Attribute) and n.func.attr == "get"]
    if len(gets) != 1 or len(gets[0].args) != 2:
        raise TranslateError("remove_qubit_indices: accumulator `.get(key, default)` not found")
    t["remove_default"] = Fraction(_const(gets[0].args[1], "remove_qubit_indices accumulator default"))
    p = parse(repo / "tangelo/toolboxes/post_processing/post_selection.py")
    sp = find_def(p, "split_frequency_dict_for_last_n_digits")
    gets = [n for n in ast.walk(sp) if isinstance(n, ast.Call) and isinstance(n.func, ast.Attribute) and n.func.attr == "get"]
    if len(gets) != 2 or any(len(g.args) != 2 for g in gets):
        raise TranslateError("split_frequency_dict_for_last_n_digits: two accumulators expected")
    t["split_defaults"] = [Fraction(_const(g.args[1], "split accumulator default")) for g in gets]
    bs = parse(repo / "tangelo/toolboxes/post_processing/bootstrapping.py")
    rs = find_def(bs, "get_resampled_frequencies")

    def _assign(name):
        hits = [n.value for n in ast.walk(rs) if isinstance(n, ast.Assign) and len(n.targets) == 1 and _is_name(n.targets[0], name)]
        if len(hits) != 1:
            raise TranslateError("get_resampled_frequencies: expected exactly one assignment to %s, found %d" % (name, len(hits)))
        return hits[0]
    cz = _assign("chunk_size")
    if isinstance(cz, ast.BinOp) and isinstance(cz.op, ast.Pow):
        t["resample_chunk_size"] = _const(cz.left, "chunk_size base", (int,)) ** _const(cz.right, "chunk_size exponent", (int,))
    else:
        t["resample_chunk_size"] = _const(cz, "chunk_size", (int,))
    if t["resample_chunk_size"] <= 0:
        raise TranslateError("get_resampled_frequencies: chunk_size is not positive")
    if ast.unparse(_assign("n_chunks")).replace(" ", "") != "ncount//chunk_size":
        raise TranslateError("get_resampled_frequencies: n_chunks is not `ncount // chunk_size`: %s" % ast.unparse(_assign("n_chunks")))
    loops = [n for n in ast.walk(rs) if isinstance(n, ast.For) and _is_name(n.target, "i")]
    if len(loops) != 1 or ast.unparse(loops[0].iter).replace(" ", "") != "range(n_chunks+1)":
        raise TranslateError("get_resampled_frequencies: the chunk loop is not `for i in range(n_chunks+1)`")
    tc = ast.unparse(_assign("this_chunk")).replace(" ", "")
    if tc != "ncount%chunk_sizeifi==n_chunkselsechunk_size":
        raise TranslateError("get_resampled_frequencies: unexpected chunk size rule: %s" % ast.unparse(_assign("this_chunk")))
    rv = [n for n in ast.walk(loops[0]) if isinstance(n, ast.Call) and isinstance(n.func, ast.Attribute) and n.func.attr == "rvs"]
    if len(rv) != 1 or len(rv[0].keywords) != 1 or rv[0].keywords[0].arg != "size" or not _is_name(rv[0].keywords[0].value, "this_chunk"):
        raise TranslateError("get_resampled_frequencies: the sampler is not called once per chunk with size=this_chunk")
    fq = _assign("frequencies")
    if not (isinstance(fq, ast.DictComp) and ast.unparse(fq.value).replace(" ", "") == "v/ncount"):
        raise TranslateError("get_resampled_frequencies: frequencies are not `v / ncount`")
    b = parse(repo / "tangelo/linq/target/backend.py")
    one = find_def(b, "get_expectation_value_from_frequencies_oneterm")
    pw = [n for n in ast.walk(one) if isinstance(n, ast.BinOp) and isinstance(n.op, ast.Pow)]
    if len(pw) != 1:
        raise TranslateError("oneterm: the sign expression was not found")
    base = pw[0].left
    expo = pw[0].right
    if not (_const(base, "sign base", (int,)) == -1 and isinstance(expo, ast.BinOp) and isinstance(expo.op, ast.Mod)
            and _const(expo.right, "parity modulus", (int,)) == 2 and '.count("1")' in ast.unparse(expo.left).replace("'", '"')
            and "&" in ast.unparse(expo.left)):
        raise TranslateError("oneterm: sign is not (-1) ** ((mask & state).count('1') %% 2): %s" % ast.unparse(pw[0]))
    t["sign_base"] = -1
    t["parity_modulus"] = 2
    return t


# last known-good extraction (tangelo as of the C18 check's first run); used by the check only as a clearly
# labelled fallback when extract() fails closed, so that the search for a concrete failing input can go on
FALLBACK = {"default_n_shots": 0, "default_msq_first": False, "default_epsilon": Fraction(1e-2), "conversion": "largest_remainder",
            "remove_default": Fraction(0), "split_defaults": [Fraction(0), Fraction(0)], "sign_base": -1, "parity_modulus": 2,
            "resample_chunk_size": 10**7}


def _q(x):
    x = Fraction(x)
    return "(Q2Qc (%d # %d))" % (x.numerator, x.denominator)


def emit(t):
    if t["remove_default"] != 0 or any(x != 0 for x in t["split_defaults"]):
        raise TranslateError("an accumulator does not start from 0: %s %s" % (t["remove_default"], t["split_defaults"]))
    return "\n".join([
        "(* generated by translator/post_tables.py from tangelo/toolboxes/post_processing/{histogram,post_selection}.py",
        "   and tangelo/linq/target/backend.py; do not edit *)",
        "From Coq Require Import ZArith QArith Qcanon.",
        "From Tangelo Require Import Post.Histogram.",
        "Definition conversion_rule : conv_rule := %s." % {"round_per_key": "RoundPerKey", "largest_remainder": "LargestRemainder"}[t["conversion"]],
        "Definition default_epsilon : Qc := %s." % _q(t["default_epsilon"]),
        "Definition default_n_shots : Z := (%d)%%Z." % t["default_n_shots"],
        "Definition default_msq_first : bool := %s." % ("true" if t["default_msq_first"] else "false"),
        "Definition accumulator_start : Qc := %s." % _q(t["remove_default"]),
        "Definition sign_base : Z := (%d)%%Z." % t["sign_base"],
        "Definition parity_modulus : Z := (%d)%%Z." % t["parity_modulus"],
        "Definition resample_chunk_size : Z := (%d)%%Z." % t["resample_chunk_size"],
        ""])
