"""Regenerate gen/ChemTables.v from the chemistry sources (DESIGN §4.1, C04/C13).

Extracted, fail closed (TranslateError on any unexpected shape):
  * every `<expr>.transpose(a, b, c, d)` call of
      tangelo/toolboxes/molecular_computation/integral_solver_pyscf.py   (chemist -> physicist)
      tangelo/toolboxes/molecular_computation/molecule.py                (energy_from_rdms: physicist -> chemist)
      tangelo/toolboxes/molecular_computation/rdms.py                    (energy_from_rdms, padding helpers)
    grouped by enclosing function, in source order; the number of calls per function is fixed, a call
    anywhere else in these files (or swapaxes / moveaxis / einsum inside the anchored functions) is refused;
  * the factors of the energy contractions: `factor = [1/2, 1, 1/2]` and `0.5*np.sum(...)` of
    SecondQuantizedMolecule.energy_from_rdms, the (absent) factor of rdms.energy_from_rdms;
  * the core-orbital table of get_frozen_core.
The translator never imports Tangelo.
"""
import ast
from fractions import Fraction

from .common import parse, find_def, TranslateError

F_PYSCF = "tangelo/toolboxes/molecular_computation/integral_solver_pyscf.py"
F_MOL = "tangelo/toolboxes/molecular_computation/molecule.py"
F_RDMS = "tangelo/toolboxes/molecular_computation/rdms.py"
F_FROZEN = "tangelo/toolboxes/molecular_computation/frozen_orbitals.py"

# (file, class or None, function) -> expected number of 4-index transposes
EXPECTED = {
    (F_PYSCF, "IntegralSolverPySCF", "get_integrals"): 1,
    (F_PYSCF, "IntegralSolverPySCF", "compute_uhf_integrals"): 3,
    (F_MOL, "SecondQuantizedMolecule", "energy_from_rdms"): 2,
    (F_RDMS, None, "energy_from_rdms"): 1,
    (F_RDMS, None, "pad_rdms_with_frozen_orbitals_restricted"): 2,
    (F_RDMS, None, "pad_rdms_with_frozen_orbitals_unrestricted"): 6,
}
FORBIDDEN_CALLS = {"swapaxes", "moveaxis", "einsum", "rollaxis", "tensordot"}


def _transposes(fn, where):
    """All `.transpose(...)` calls below fn, in source order, as tuples of 4 ints."""
    out = []
    for n in ast.walk(fn):
        if isinstance(n, ast.Call):
            name = n.func.attr if isinstance(n.func, ast.Attribute) else (n.func.id if isinstance(n.func, ast.Name) else None)
            if name in FORBIDDEN_CALLS:
                raise TranslateError("%s: unexpected axis manipulation %s() at line %d" % (where, name, n.lineno))
            if name == "transpose":
                if not isinstance(n.func, ast.Attribute):
                    raise TranslateError("%s: transpose used as a function at line %d" % (where, n.lineno))
                if n.keywords or len(n.args) != 4 or not all(
                        isinstance(a, ast.Constant) and type(a.value) is int for a in n.args):
                    raise TranslateError("%s: transpose at line %d is not transpose(<4 int literals>): %s"
                                         % (where, n.lineno, ast.unparse(n)[:80]))
                t = tuple(a.value for a in n.args)
                if sorted(t) != [0, 1, 2, 3]:
                    raise TranslateError("%s: transpose%s at line %d is not a permutation of 0..3" % (where, t, n.lineno))
                out.append((n.lineno, n.col_offset, t, ast.unparse(n.func.value)))
    out.sort()
    return [(t, recv) for (_, _, t, recv) in out]


def _const_fraction(node, where):
    if isinstance(node, ast.Constant) and isinstance(node.value, (int, float)) and not isinstance(node.value, bool):
        return Fraction(node.value).limit_denominator(1 << 20)
    if isinstance(node, ast.BinOp) and isinstance(node.op, ast.Div):
        a, b = _const_fraction(node.left, where), _const_fraction(node.right, where)
        if b == 0:
            raise TranslateError("%s: division by zero" % where)
        return a / b
    raise TranslateError("%s: not a numeric literal: %s" % (where, ast.unparse(node)[:60]))


def _fac(fr, where):
    if fr == Fraction(1, 2):
        return "FHalf"
    if fr == 1:
        return "FOne"
    raise TranslateError("%s: factor %s is neither 1/2 nor 1 (the model has no such case)" % (where, fr))


def _is_np_sum(node):
    return (isinstance(node, ast.Call) and isinstance(node.func, ast.Attribute) and node.func.attr == "sum")


def _energy_sum_terms(expr, where):
    """Flatten a chain of additions into its operands."""
    if isinstance(expr, ast.BinOp) and isinstance(expr.op, ast.Add):
        return _energy_sum_terms(expr.left, where) + _energy_sum_terms(expr.right, where)
    return [expr]


def _two_body_factor_rhf(assign, where):
    """`e = core_constant + np.sum(h * one_rdm) + <f>*np.sum(g * two_rdm)` -> f (1 when absent)."""
    terms = _energy_sum_terms(assign.value, where)
    if len(terms) != 3 or not (isinstance(terms[0], ast.Name) and terms[0].id == "core_constant"):
        raise TranslateError("%s: expected core_constant + <one-body> + <two-body>, got %s" % (where, ast.unparse(assign.value)[:100]))
    if not _is_np_sum(terms[1]):
        raise TranslateError("%s: one-body term is not np.sum(...)" % where)
    tb = terms[2]
    if _is_np_sum(tb):
        return Fraction(1)
    if isinstance(tb, ast.BinOp) and isinstance(tb.op, ast.Mult):
        if _is_np_sum(tb.right):
            return _const_fraction(tb.left, where)
        if _is_np_sum(tb.left):
            return _const_fraction(tb.right, where)
    raise TranslateError("%s: two-body term has an unexpected shape: %s" % (where, ast.unparse(tb)[:80]))


def extract(repo):
    t = {"sites": {}}
    trees = {f: parse(repo / f) for f in (F_PYSCF, F_MOL, F_RDMS, F_FROZEN)}
    for (f, cls, fn_name), n_exp in EXPECTED.items():
        fn = find_def(trees[f], fn_name, cls=cls)
        where = "%s:%s" % (f.split("/")[-1], fn_name)
        got = _transposes(fn, where)
        if len(got) != n_exp:
            raise TranslateError("%s: expected %d transpose(a,b,c,d) calls, found %d" % (where, n_exp, len(got)))
        t["sites"][(f, fn_name)] = got
    # no 4-index transpose anywhere else in the three files
    for f in (F_PYSCF, F_MOL, F_RDMS):
        total = 0
        for n in ast.walk(trees[f]):
            if isinstance(n, ast.Call) and isinstance(n.func, ast.Attribute) and n.func.attr == "transpose":
                total += 1
        exp = sum(v for (ff, _, _), v in EXPECTED.items() if ff == f)
        if total != exp:
            raise TranslateError("%s: %d transpose calls in the file, %d inside the anchored functions" % (f, total, exp))

    # ---- factors of SecondQuantizedMolecule.energy_from_rdms
    fn = find_def(trees[F_MOL], "energy_from_rdms", cls="SecondQuantizedMolecule")
    where = "molecule.py:energy_from_rdms"
    ifs = [n for n in fn.body if isinstance(n, ast.If)]
    if len(ifs) != 1 or not (isinstance(ifs[0].test, ast.Attribute) and ifs[0].test.attr == "uhf"):
        raise TranslateError("%s: expected exactly one `if self.uhf:`" % where)
    uhf_body, rhf_body = ifs[0].body, ifs[0].orelse
    fac_assign = [n for n in uhf_body if isinstance(n, ast.Assign) and isinstance(n.targets[0], ast.Name) and n.targets[0].id == "factor"]
    if len(fac_assign) != 1 or not isinstance(fac_assign[0].value, ast.List):
        raise TranslateError("%s: `factor = [...]` not found in the UHF branch" % where)
    t["mol_uhf_factors"] = [_fac(_const_fraction(e, where), where) for e in fac_assign[0].value.elts]
    if len(t["mol_uhf_factors"]) != 3:
        raise TranslateError("%s: factor list has %d entries, expected 3 (aa, ab, bb)" % (where, len(t["mol_uhf_factors"])))
    # the UHF energy expression must use factor[i] on the two-body sums and range(3)/range(2)
    e_uhf = [n for n in uhf_body if isinstance(n, ast.Assign) and isinstance(n.targets[0], ast.Name) and n.targets[0].id == "e"]
    if len(e_uhf) != 1 or "factor[i]" not in ast.unparse(e_uhf[0].value) or "range(3)" not in ast.unparse(e_uhf[0].value):
        raise TranslateError("%s: UHF energy expression does not use factor[i] over range(3)" % where)
    e_rhf = [n for n in rhf_body if isinstance(n, ast.Assign) and isinstance(n.targets[0], ast.Name) and n.targets[0].id == "e"]
    if len(e_rhf) != 1:
        raise TranslateError("%s: restricted energy expression not found" % where)
    t["mol_rhf_factor"] = _fac(_two_body_factor_rhf(e_rhf[0], where), where)
    # which transpose belongs to which branch
    uhf_tr = [x for n in uhf_body for x in _transposes(n, where)]
    rhf_tr = [x for n in rhf_body for x in _transposes(n, where)]
    if len(uhf_tr) != 1 or len(rhf_tr) != 1:
        raise TranslateError("%s: expected one transpose per branch" % where)
    t["mol_uhf_axes"], t["mol_rhf_axes"] = uhf_tr[0][0], rhf_tr[0][0]

    # ---- rdms.energy_from_rdms
    fn = find_def(trees[F_RDMS], "energy_from_rdms")
    where = "rdms.py:energy_from_rdms"
    e_as = [n for n in fn.body if isinstance(n, ast.Assign) and isinstance(n.targets[0], ast.Name) and n.targets[0].id == "e"]
    if len(e_as) != 1:
        raise TranslateError("%s: energy expression not found" % where)
    t["rdms_factor"] = _fac(_two_body_factor_rhf(e_as[0], where), where)
    t["rdms_axes"] = t["sites"][(F_RDMS, "energy_from_rdms")][0][0]

    # ---- padding helpers: first half of the transposes are applied to the inputs, second half to the outputs
    pr = t["sites"][(F_RDMS, "pad_rdms_with_frozen_orbitals_restricted")]
    if pr[0][1] != "twordm" or pr[1][1] != "twordm_padded":
        raise TranslateError("rdms.py:pad_restricted: transposes are applied to %s, %s (expected twordm, twordm_padded)" % (pr[0][1], pr[1][1]))
    t["pad_r_in"], t["pad_r_out"] = pr[0][0], pr[1][0]
    pu = t["sites"][(F_RDMS, "pad_rdms_with_frozen_orbitals_unrestricted")]
    names = [r for (_, r) in pu]
    if names != ["twordm_aa", "twordm_bb", "twordm_ab", "twordm_aa_padded", "twordm_bb_padded", "twordm_ab_padded"]:
        raise TranslateError("rdms.py:pad_unrestricted: transposes are applied to %s" % names)
    t["pad_u_in"], t["pad_u_out"] = [x for (x, _) in pu[:3]], [x for (x, _) in pu[3:]]

    # ---- pyscf
    t["pyscf_rhf"] = [x for (x, _) in t["sites"][(F_PYSCF, "get_integrals")]]
    t["pyscf_uhf"] = [x for (x, _) in t["sites"][(F_PYSCF, "compute_uhf_integrals")]]

    # ---- get_frozen_core table
    fn = find_def(trees[F_FROZEN], "get_frozen_core")
    tab = [n for n in ast.walk(fn) if isinstance(n, ast.Assign) and isinstance(n.targets[0], ast.Name) and n.targets[0].id == "core_orbitals"]
    if len(tab) != 1 or not isinstance(tab[0].value, ast.Dict):
        raise TranslateError("frozen_orbitals.py:get_frozen_core: core_orbitals dict literal not found")
    core = []
    for k, v in zip(tab[0].value.keys, tab[0].value.values):
        if not (isinstance(k, ast.Constant) and isinstance(k.value, str) and isinstance(v, ast.Constant) and type(v.value) is int and v.value >= 0):
            raise TranslateError("frozen_orbitals.py:get_frozen_core: unexpected table entry")
        core.append((k.value, v.value))
    t["core_orbitals"] = core
    return t


# Last-known-good constants (the unchanged tree).  Used by the checks ONLY to keep the model correspondence and the
# proofs' status observable after a TranslateError; the TranslateError itself is always reported and the evidence
# labels the run as using fallback tables.
FALLBACK = {
    "pyscf_rhf": [(0, 2, 3, 1)], "pyscf_uhf": [(0, 2, 3, 1)] * 3,
    "mol_rhf_axes": (0, 3, 1, 2), "mol_uhf_axes": (0, 3, 1, 2), "mol_rhf_factor": "FHalf",
    "mol_uhf_factors": ["FHalf", "FOne", "FHalf"], "rdms_axes": (0, 3, 1, 2), "rdms_factor": "FOne",
    "pad_r_in": (1, 0, 3, 2), "pad_r_out": (1, 0, 3, 2), "pad_u_in": [(1, 0, 3, 2)] * 3, "pad_u_out": [(1, 0, 3, 2)] * 3,
    "core_orbitals": [("H", 0), ("He", 0), ("Li", 1), ("Be", 1), ("B", 1), ("C", 1), ("N", 1), ("O", 1), ("F", 1), ("Ne", 1),
                      ("Na", 5), ("Mg", 5), ("Al", 5), ("Si", 5), ("P", 5), ("S", 5), ("Cl", 5), ("Ar", 5)],
}


def _ax(t):
    return "(%d, %d, %d, %d)" % t


def emit(t):
    L = ["(* GENERATED by translator/chem_tables.py from integral_solver_pyscf.py, molecule.py, rdms.py,",
         "   frozen_orbitals.py — do not edit *)",
         "From Coq Require Import List String.",
         "From Tangelo Require Import Chem.Integrals.",
         "From Tangelo Require Import Chem.Rdm.",
         "Import ListNotations.",
         "Open Scope string_scope.",
         "Definition pyscf_rhf_axes : list axes := [%s]." % "; ".join(_ax(x) for x in t["pyscf_rhf"]),
         "Definition pyscf_uhf_axes : list axes := [%s]." % "; ".join(_ax(x) for x in t["pyscf_uhf"]),
         "Definition mol_energy_rhf_axes : axes := %s." % _ax(t["mol_rhf_axes"]),
         "Definition mol_energy_uhf_axes : axes := %s." % _ax(t["mol_uhf_axes"]),
         "Definition mol_energy_rhf_factor : fac := %s." % t["mol_rhf_factor"],
         "Definition mol_energy_uhf_factors : list fac := [%s]." % "; ".join(t["mol_uhf_factors"]),
         "Definition rdms_energy_axes : axes := %s." % _ax(t["rdms_axes"]),
         "Definition rdms_energy_factor : fac := %s." % t["rdms_factor"],
         "Definition pad_r_in_axes : axes := %s." % _ax(t["pad_r_in"]),
         "Definition pad_r_out_axes : axes := %s." % _ax(t["pad_r_out"]),
         "Definition pad_u_in_axes : list axes := [%s]." % "; ".join(_ax(x) for x in t["pad_u_in"]),
         "Definition pad_u_out_axes : list axes := [%s]." % "; ".join(_ax(x) for x in t["pad_u_out"]),
         "Definition core_orbitals : list (string * nat) := [%s]." % "; ".join('("%s", %d)' % kv for kv in t["core_orbitals"]),
         ""]
    return "\n".join(L)


if __name__ == "__main__":
    import sys
    from pathlib import Path
    print(emit(extract(Path(sys.argv[1] if len(sys.argv) > 1 else "/repo"))))
