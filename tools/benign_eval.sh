#!/bin/bash
# tools/benign_eval.sh <pid> [variant=b1] — apply the behaviour-preserving refactor /tmp/seed/<pid>/_seeded/<variant>/patch.diff
# (or /verif/seeded/<pid>-<variant>/patch.diff) in the scratch worktree /tmp/seedeval/<pid> and run ./check <pid> on it.
pid=$1; var=${2:-b1}
wt=/tmp/seedeval/$pid
src=/tmp/seed/$pid/_seeded/$var; [ -d $src ] || src=/verif/seeded/$pid-$var
[ -d $wt ] || { mkdir -p /tmp/seedeval; git -C /repo worktree add -q --detach $wt HEAD; }
git -C $wt checkout -q -- .; git -C $wt checkout -q --detach $(git -C /repo rev-parse HEAD)
if ! git -C $wt apply --check $src/patch.diff 2>/dev/null; then echo "$pid $var: patch does not apply"; exit 3; fi
git -C $wt apply $src/patch.diff
mkdir -p /verif/.work/seedlogs
cd /verif && TANGELO_REPO=$wt ./check $pid > .work/seedlogs/${pid}_$var.log 2>&1; rc=$?
echo "$pid $var: check exit=$rc violations=$(grep -c '^VIOLATION' .work/seedlogs/${pid}_$var.log) concrete=$(grep '^VIOLATION' .work/seedlogs/${pid}_$var.log | grep -vc no-failing-input-found) :: $(grep '^VIOLATION' .work/seedlogs/${pid}_$var.log | sed 's#.*/##' | head -4 | tr '\n' ' ')"
git -C $wt checkout -q -- .
