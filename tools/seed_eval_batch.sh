#!/bin/bash
# tools/seed_eval_batch.sh <file with lines "pid variant tests...">  — evaluates each listed seeded change
# (/tmp/seed/<pid>/_seeded/<variant>) in its own scratch worktree /tmp/seedeval/<pid>; one pid at a time per worktree,
# up to 3 pids in parallel; logs in .work/seedlogs/<pid>_<variant>.log
cd /verif; mkdir -p .work/seedlogs
export SEED_WT=/tmp/seedeval
for pid in $(cut -d' ' -f1 $1 | sort -u); do
  ( grep "^$pid " $1 | while read p v tests; do
      tools/seed_eval.sh $p /tmp/seed/$p/_seeded/$v $tests > .work/seedlogs/${p}_$v.log 2>&1
      echo "$p $v: $(grep -o 'demo clean exit=[0-9]* patched exit=[0-9]*' .work/seedlogs/${p}_$v.log) | $(grep -o '[0-9]* passed[^,]*\|[0-9]* failed' .work/seedlogs/${p}_$v.log | tr '\n' ' ') | $(grep -o 'check exit=[0-9]*' .work/seedlogs/${p}_$v.log) viol=$(grep -c '^VIOLATION' .work/seedlogs/${p}_$v.log) concrete=$(grep '^VIOLATION' .work/seedlogs/${p}_$v.log | grep -vc no-failing-input-found)"
    done ) &
  while [ $(jobs -r | wc -l) -ge 3 ]; do sleep 5; done
done; wait
