#!/bin/bash
# Re-run every stored seeded change (/verif/seeded/<pid>-vK/patch.diff, or patch_rebased.diff when present)
# against the current checks, in scratch worktrees under /tmp/seed (never in /repo).  Prints one line per seed.
# usage: tools/seed_eval_all.sh [pid ...]
cd /verif
pids="$@"; [ -z "$pids" ] && pids=$(ls seeded | sed 's/-.*//' | sort -u)
run_pid() {
  pid=$1; wt=${SEED_WT:-/tmp/seed}/$pid
  [ -d $wt ] || mkdir -p $(dirname $wt); [ -d $wt ] || git -C /repo worktree add -q --detach $wt HEAD
  for d in seeded/$pid-*; do
    git -C $wt checkout -q --detach $(git -C /repo rev-parse HEAD) 2>/dev/null; git -C $wt checkout -q -- .
    patch=$d/patch.diff; [ -f $d/patch_rebased.diff ] && patch=$d/patch_rebased.diff
    if ! git -C $wt apply --check $PWD/$patch 2>/dev/null; then echo "$(basename $d): patch does not apply to current HEAD (neutralised or conflicting)"; continue; fi
    git -C $wt apply $PWD/$patch
    (cd $wt && OMP_NUM_THREADS=1 /venv/bin/python $OLDPWD/$d/demo.py > /dev/null 2>&1); demo=$?
    TANGELO_REPO=$wt ./check $pid > .work/seedlogs/all_$(basename $d).log 2>&1; rc=$?
    nv=$(grep -c "^VIOLATION" .work/seedlogs/all_$(basename $d).log); nin=$(grep "^VIOLATION" .work/seedlogs/all_$(basename $d).log | grep -vc "no-failing-input-found")
    echo "$(basename $d): demo_exit=$demo check_exit=$rc violations=$nv with_concrete_input=$nin"
    git -C $wt checkout -q -- .
  done
}
for p in $pids; do run_pid $p & 
  while [ $(jobs -r | wc -l) -ge 4 ]; do sleep 5; done
done; wait
