#!/venv/bin/python
"""tools/seed_refresh_meta.py — after tools/seed_eval_all.sh: fold the latest evaluation logs
(.work/seedlogs/all_<seed>.log + the summary lines given on stdin) into seeded/<seed>/meta.json."""
import json, re, subprocess, sys
from pathlib import Path
V = Path("/verif")
head = subprocess.run(["git", "-C", "/repo", "rev-parse", "--short", "HEAD"], capture_output=True, text=True).stdout.strip()
summary = {}
for line in sys.stdin:
    m = re.match(r"(\S+): (.*)", line.strip())
    if m:
        summary[m.group(1)] = m.group(2)
for d in sorted((V / "seeded").iterdir()):
    mp = d / "meta.json"
    if not mp.exists() or d.name not in summary:
        continue
    meta = json.loads(mp.read_text())
    if "detected" not in meta:          # behaviour-preserving refactors are handled by tools/benign_eval.sh
        continue
    s = summary[d.name]
    old = meta.get("detected")
    if "does not apply" in s:
        new = "neutralised"
        lines = []
    else:
        m = re.search(r"check_exit=(\d+) violations=(\d+) with_concrete_input=(\d+)", s)
        rc, nv, nc = map(int, m.groups())
        log = (V / ".work/seedlogs" / ("all_%s.log" % d.name)).read_text()
        lines = [l.split("replay=")[1].split("/")[-1] for l in log.splitlines() if l.startswith("VIOLATION")][:8]
        new = "no" if nv == 0 else ("weak" if nc == 0 else "yes")
        dm = re.search(r"demo_exit=(\d+)", s)
        if nv == 0 and dm and dm.group(1) == "0":
            new = "neutralised"     # the patch still applies but its demonstration passes: a later fix: commit made the change harmless
    meta["latest_evaluation"] = {"repo_head": head, "summary": s, "violation_lines": lines}
    if new != old:
        meta.setdefault("history", []).append({"detected": old, "caught_by": meta.get("caught_by")})
        if new == "yes":
            meta["caught_by"] = "first evaluation: %s. After strengthening the check: concrete failing input reported (%s)" % (
                old, " ".join(l.replace(".json", "") for l in lines[:4]))
        elif new == "neutralised":
            meta["caught_by"] = "patch no longer applies to the current HEAD (source rewritten by a later fix: commit); earlier status: %s — %s" % (old, meta.get("caught_by"))
        else:
            meta["caught_by"] = "status changed %s -> %s at HEAD %s: %s" % (old, new, head, s)
        meta["detected"] = new
    mp.write_text(json.dumps(meta, indent=1))
    print(d.name, old, "->", new)
