#!/bin/bash
# tools/seed_eval.sh <property id> <variant dir containing patch.diff + demo.py> [test paths...]
# Evaluates one seeded change in the scratch worktree /tmp/seed/<pid> (never in /repo):
#   1. worktree := /repo's current HEAD, clean; demo must PASS
#   2. apply patch; demo must FAIL; given test paths must still pass (stable tests only)
#   3. ./check <pid> with TANGELO_REPO=<worktree> must exit 1 with a VIOLATION line
#   4. restore the worktree
pid=$1; vdir=$2; shift 2
wt=${SEED_WT:-/tmp/seed}/$pid
head=$(git -C /repo rev-parse HEAD)
[ -d $wt ] || { mkdir -p $(dirname $wt); git -C /repo worktree add -q --detach $wt HEAD; }
git -C $wt checkout -q --detach $head 2>/dev/null; git -C $wt checkout -q -- . 
cd $wt
echo "== demo on clean tree"; OMP_NUM_THREADS=1 /venv/bin/python $vdir/demo.py > $wt.demo_clean.log 2>&1; c1=$?; tail -1 $wt.demo_clean.log
if ! git apply --check $vdir/patch.diff 2>/dev/null; then echo "PATCH DOES NOT APPLY to current HEAD"; exit 3; fi
git apply $vdir/patch.diff
echo "== demo with patch"; OMP_NUM_THREADS=1 /venv/bin/python $vdir/demo.py > $wt.demo_patch.log 2>&1; c2=$?; tail -1 $wt.demo_patch.log
echo "demo clean exit=$c1 patched exit=$c2"
if [ $# -gt 0 ]; then
  echo "== existing tests with patch: $@"
  OMP_NUM_THREADS=1 /venv/bin/python -m pytest -q -p no:cacheprovider --timeout=900 "$@" 2>&1 | tail -3
fi
echo "== ./check $pid against the patched worktree"
cd /verif && TANGELO_REPO=$wt ./check $pid > $wt.check.log 2>&1; rc=$?
grep "^VIOLATION\|^KNOWN" $wt.check.log | cut -c1-220 | head -8; tail -1 $wt.check.log
echo "check exit=$rc"
git -C $wt checkout -q -- .
