#!/venv/bin/python
"""tools/seed_import.py <pid> <variant> <detected: yes|no|neutralised> "<caught by ...>" [tests...]
Copies /tmp/seed/<pid>/_seeded/<variant>/{patch.diff,demo.py,notes.md} to /verif/seeded/<pid>-<variant>/ and writes meta.json
from the evaluation log .work/seedlogs/<pid>_<variant>.log."""
import json, re, shutil, subprocess, sys
from pathlib import Path
pid, var, detected, caught = sys.argv[1:5]
tests = sys.argv[5:]
src = Path("/tmp/seed/%s/_seeded/%s" % (pid, var))
dst = Path("/verif/seeded/%s-%s" % (pid, var)); dst.mkdir(parents=True, exist_ok=True)
for f in ("patch.diff", "demo.py", "notes.md"):
    shutil.copy(src / f, dst / f)
log = Path("/verif/.work/seedlogs/%s_%s.log" % (pid, var)).read_text()
notes = (src / "notes.md").read_text()
head = subprocess.run(["git", "-C", "/repo", "rev-parse", "--short", "HEAD"], capture_output=True, text=True).stdout.strip()
meta = {
    "property": pid,
    "variant": var,
    "breaks": notes.strip().splitlines()[0:12],
    "needs_to_manifest": "see notes.md (written by the seeding agent, which saw only the property text and a scratch worktree)",
    "repo_head_when_evaluated": head,
    "what_i_ran": {
        "demo": "demo.py from the worktree root: " + (re.search(r"demo clean exit=\d+ patched exit=\d+", log).group(0) if re.search(r"demo clean exit", log) else "n/a"),
        "existing_tests_with_patch": tests,
        "tests_result": (re.findall(r"\d+ passed[^\n]*", log) or ["not run in this evaluation"])[-1],
        "check": "TANGELO_REPO=<patched worktree> ./check %s" % pid,
        "check_exit": (re.search(r"check exit=(\d+)", log).group(1) if re.search(r"check exit=(\d+)", log) else None),
        "violation_lines": [l.split("replay=")[1].split("/")[-1] for l in log.splitlines() if l.startswith("VIOLATION")][:8],
    },
    "detected": detected,
    "caught_by": caught,
}
(dst / "meta.json").write_text(json.dumps(meta, indent=1))
print(dst, detected)
