#!/venv/bin/python
"""tools/benign_import.py <pid> [variant=b1] — store a behaviour-preserving refactor (written by a fresh sub-agent from the
property text only) with the result of tools/benign_eval.sh under /verif/seeded/<pid>-<variant>/."""
import json, re, shutil, subprocess, sys
from pathlib import Path
pid = sys.argv[1]; var = sys.argv[2] if len(sys.argv) > 2 else "b1"
src = Path("/tmp/seed/%s/_seeded/%s" % (pid, var))
dst = Path("/verif/seeded/%s-%s" % (pid, var)); dst.mkdir(parents=True, exist_ok=True)
for f in ("patch.diff", "equiv.py", "notes.md"):
    if (src / f).exists():
        shutil.copy(src / f, dst / f)
log = Path("/verif/.work/seedlogs/%s_%s.log" % (pid, var)).read_text()
lines = [l for l in log.splitlines() if l.startswith("VIOLATION")]
head = subprocess.run(["git", "-C", "/repo", "rev-parse", "--short", "HEAD"], capture_output=True, text=True).stdout.strip()
concrete = [l for l in lines if "no-failing-input-found" not in l]
meta = {"property": pid, "variant": var, "kind": "benign (behaviour-preserving refactor; the property still holds)",
        "title": (src / "notes.md").read_text().strip().splitlines()[0] if (src / "notes.md").exists() else "",
        "repo_head_when_evaluated": head,
        "check": "TANGELO_REPO=<patched worktree> ./check %s" % pid,
        "check_exit": 1 if lines else 0,
        "violation_lines": [l.split("replay=")[1] .split("/")[-1] for l in lines],
        "false_concrete_input": bool(concrete),
        "outcome": ("FALSE ALARM with a concrete input (must be fixed)" if concrete else
                    ("tie broken (translator / structural correspondence no longer recognises the source): reported with "
                     "no-failing-input-found as the interface prescribes; every oracle and model stream still ran and found nothing"
                     if lines else "no alarm: exit 0"))}
(dst / "meta.json").write_text(json.dumps(meta, indent=1))
print(dst.name, meta["outcome"][:60])
