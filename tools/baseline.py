#!/venv/bin/python
"""Run the repository's baseline suite (guard OFF) and compare with /root/.vp/BASELINE.json's stable_pass.
usage: tools/baseline.py [pytest-args...]   exit 0 iff every stable_pass test passed."""
import json, os, subprocess, sys, xml.etree.ElementTree as ET
from pathlib import Path
base = json.load(open("/root/.vp/BASELINE.json"))
out = Path("/verif/.work/baseline"); out.mkdir(parents=True, exist_ok=True)
xml = out / "junit.xml"
env = dict(os.environ); env.pop("TANGELO_VERIF", None)
extra = sys.argv[1:]
cmd = ["/venv/bin/python", "-m", "pytest", "-ra", "-q", "-p", "no:cacheprovider", "--timeout=900",
       "--continue-on-collection-errors", "--junitxml=%s" % xml] + extra
subprocess.run(cmd, cwd="/repo", env=env, stdout=open(out / "log.txt", "w"), stderr=subprocess.STDOUT)
passed = set()
for tc in ET.parse(xml).getroot().iter("testcase"):
    if not any(ch.tag in ("failure", "error", "skipped") for ch in tc):
        passed.add("%s::%s" % (tc.get("classname"), tc.get("name")))
want = set(base["stable_pass"])
if extra:
    # restrict to the tests that were collected
    seen = {"%s::%s" % (tc.get("classname"), tc.get("name")) for tc in ET.parse(xml).getroot().iter("testcase")}
    want &= seen
missing = sorted(want - passed)
print("stable_pass expected %d, passed %d, missing %d" % (len(want), len(want & passed), len(missing)))
for m in missing[:50]:
    print("  NOT PASSING:", m)
sys.exit(1 if missing else 0)
