#!/bin/bash
# tools/run_all.sh <seed> [tier]  — run every claimed check once, 4 at a time; one summary line per check
seed=${1:-0}; tier=${2:-quick}
cd /verif; mkdir -p .work/runall
pids=$(/venv/bin/python -c "import json; print(' '.join(c['property_id'] for c in json.load(open('MANIFEST.json'))['checks']))" 2>/dev/null)
for p in $pids; do
  ( VERIF_SEED=$seed ./check $p --tier $tier > .work/runall/${p}_s${seed}_$tier.log 2>&1; echo "$p seed=$seed exit=$? $(tail -1 .work/runall/${p}_s${seed}_$tier.log | cut -c1-160)" ) &
  while [ $(jobs -r | wc -l) -ge 4 ]; do sleep 3; done
done; wait
