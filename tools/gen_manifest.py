#!/venv/bin/python
"""Regenerate MANIFEST.json from tools/manifest_src.json (one entry per claimed property) so that
not_applicable always lists exactly the unclaimed properties."""
import json
from pathlib import Path
V = Path("/verif")
src = json.loads((V / "tools/manifest_src.json").read_text())
for f in sorted((V / "tools/manifest.d").glob("*.json")) if (V / "tools/manifest.d").exists() else []:
    for k, v in json.loads(f.read_text()).items():
        if k in src.get("approved", []):          # only checks the coordinator has run and accepted
            src["claimed"][k] = v
props = [json.loads(l)["id"] for l in (V / "properties.jsonl").read_text().splitlines() if l.strip()]
checks = []
for pid in props:
    if pid in src["claimed"]:
        c = src["claimed"][pid]
        checks.append({
            "property_id": pid,
            "quick_cmd": "./check %s --tier quick" % pid,
            "thorough_cmd": "./check %s --tier thorough" % pid,
            "evidence_file": "/verif/evidence/%s.json" % pid,
            "replay_cmd_template": "./check %s --replay {path}" % pid,
            "engine": "coq-proof+correspondence",
            "level_claimed": {"category": c.get("category", "proof"), "text": c["text"], "design_ref": c["design_ref"]},
            "level_note": c["note"],
            "technique": c["technique"],
        })
na = [{"property_id": p, "reason": src["unclaimed_reason"].get(p, src["unclaimed_default"])} for p in props if p not in src["claimed"]]
m = {
    "version": 1,
    "setup_cmd": "./setup.sh",
    "hooks": {"guard": "TANGELO_VERIF", "enable": "no instrumentation is compiled into /repo; checks import /repo's working tree with PYTHONPATH=/repo (TANGELO_VERIF=1 is exported but nothing in /repo reads it)",
              "baseline_off_cmd": "/verif/tools/baseline.py", "source_commits": src.get("hook_commits", []), "add_only": True},
    "engines": [{"name": "coq-proof+correspondence", "path": "/verif/check",
                 "serves_properties": sorted(src["claimed"]),
                 "kind_free_text": "Coq 8.16.1 theories (coq/theories, coq/props) + tables regenerated from /repo by translator/*.py + model/implementation correspondence and property oracle (harness/)"}],
    "checks": checks,
    "not_applicable": na,
    "notes": src.get("notes", ""),
}
(V / "MANIFEST.json").write_text(json.dumps(m, indent=1) + "\n")
print("claimed:", sorted(src["claimed"]), "unclaimed:", len(na))
