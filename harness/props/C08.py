"""C08 — variational solver energies are faithful and variational (DESIGN §7.C08).

  regenerate  translator/vqe_tables.py on vqe_solver.py -> Gen.VqeTables (symmetry-operator chain, mapping keyword
              arguments, composition shapes; soft facts: finally clause, reference circuit in operator_expectation,
              width used for the deflation key, spelling of the scbk test)
  prove       coq/props/C08.v (adjoint of inverse circuits, deflation term = |<U0|V0>|^2, energy = <psi|H|psi> (+ overlaps),
              Rayleigh bound from an eigen-expansion, operator_expectation state machine, symmetry-operator arguments;
              refutations for the code as written: width-mismatched deflation key, no finally, reference ignored)
  correspond  VQESolver with VariationalCircuitAnsatz circuits on the pi/8 grid (<= 3 qubits): energy_estimation and
              operator_expectation(H) vs the Coq model (Chem/VqeRun.run_case, exact cyclotomic values, vm_compute), the
              model variant (as written / repaired) chosen by the regenerated soft facts
  oracle      the property on the real code, independent numpy evaluation (harness/np_sim.py on the solver's gate lists,
              own Pauli algebra): energy_estimation(theta) == <psi|H|psi> (+ sum coeff |<psi_d|psi>|^2), E >= lambda_min(H),
              E(0) == mean-field energy for UCC ansaetze (all encodings, frozen orbitals), operator_expectation of
              N / Sz / S^2 / explicit operators == value in the state energy_estimation uses, under JW/BK/scBK/JKMN (HCB for
              pUCCD), both orderings, ref_state overrides (vector / circuit), projective circuits, penalties;
              attribute qubit_hamiltonian restored after returning and raising calls;
              call histories on ONE solver object (energy_estimation / operator_expectation / get_rdm with alternating and repeated
              parameter vectors): every value is the one of the vector passed to that call (state from a second solver object).
"""
import contextlib
import io
import json
import math
from fractions import Fraction

import numpy as np

from harness.lib import coq_N, coq_list, coq_bool, coq_nat, coq_opt, REPO
from harness import linq_common as LC
from harness import np_sim

LEVEL = "proof"
TOL = 1e-8

PREAMBLE = """From Coq Require Import String ZArith NArith QArith Qcanon List Bool.
From Tangelo Require Import Num.KStruct Num.Cyc Num.Show QSem.State Pauli.Word Pauli.Action Linq.GateModel Linq.LinqZ
     Chem.Vqe Chem.VqeRun.
Import ListNotations.
Open Scope string_scope.
"""

SIG_WIDTH = "C08/energy_estimation/deflation/key-width-differs-from-simulated-width"
SIG_RESTORE = "C08/operator_expectation/attribute-not-restored-after-exception"
SIG_REF = "C08/operator_expectation/ref_state-override-not-applied"
SIG_DEFAULTS = "C08/operator_expectation/active-space-defaults-only-for-lowercase-scbk"
SIG_HCB = "C08/operator_expectation/HCB/spin-operator-wrong-value"

XYZ2 = [("H", (0., 0., 0.)), ("H", (0., 0., 0.74))]
XYZ4 = [("H", (0., 0., 0.)), ("H", (0., 0., 0.8)), ("H", (0., 0., 1.7)), ("H", (0., 0., 2.6))]
MOLS = {"H2": (XYZ2, 0, 0, None), "H4": (XYZ4, 0, 0, None), "H4f": (XYZ4, 0, 0, [0]), "H4ff": (XYZ4, 0, 0, [0, 3]),
        "H4+": (XYZ4, 1, 1, None)}
_mol = {}
ZETA = [complex(math.cos(math.pi * k / 16), math.sin(math.pi * k / 16)) for k in range(16)]
PAULI_COQ = {"X": "PX", "Y": "PY", "Z": "PZ"}


def mol(name):
    if name not in _mol:
        from tangelo import SecondQuantizedMolecule
        xyz, q, spin, frozen = MOLS[name]
        _mol[name] = SecondQuantizedMolecule(xyz, q=q, spin=spin, basis="sto-3g", frozen_orbitals=frozen)
    return _mol[name]


def quiet(f, *a, **k):
    with contextlib.redirect_stdout(io.StringIO()):
        return f(*a, **k)


# ------------------------------------------------------------------------------------------ numpy oracle
def pauli_apply(term, v, n):
    """(P v) for a Pauli word term = ((q,'X'),...) on a little-endian vector (qubit q = bit q) or matrix of columns."""
    idx = np.arange(1 << n)
    out = v
    for q, p in term:
        bit = ((idx >> q) & 1)
        if out.ndim == 2:
            bitc = bit[:, None]
        else:
            bitc = bit
        if p == "Z":
            out = np.where(bitc == 1, -out, out)
        else:
            fl = out[idx ^ (1 << q)]
            out = fl if p == "X" else np.where(bitc == 1, 1j * fl, -1j * fl)
    return out


def expect(terms, psi, n):
    return sum(c * np.vdot(psi, pauli_apply(t, psi, n)) for t, c in terms.items())


def dense(terms, n):
    eye = np.eye(1 << n, dtype=complex)
    m = np.zeros((1 << n, 1 << n), dtype=complex)
    for t, c in terms.items():
        m += c * pauli_apply(t, eye, n)
    return m


def n_qubits_of(terms):
    return max([q for t in terms for q, _ in t], default=-1) + 1


def gate_tuples(circ):
    return np_sim.gates_of(circ) if circ is not None else []


def composed_gates(s):
    """reference (only under an override) + ansatz + projective, as energy_estimation documents / optimal_circuit"""
    gs = []
    if s.ref_state is not None:
        gs += gate_tuples(s.reference_circuit)
    gs += gate_tuples(s.ansatz.circuit)
    if s.projective_circuit is not None:
        gs += gate_tuples(s.projective_circuit)
    return gs


def width_of(gs, *more):
    w = 0
    for (_, t, c, _) in gs:
        w = max([w] + [q + 1 for q in t] + [q + 1 for q in (c or [])])
    return max([w] + list(more))


def independent_sym_ops(n_mos):
    """N, Sz, S^2 as FermionOperators in the interleaved convention (even = alpha), built from ladder-operator algebra
    (not from tangelo's term lists)."""
    from openfermion import FermionOperator as F
    num = lambda p: F(((p, 1), (p, 0)))
    N = sum((num(p) for p in range(2 * n_mos)), F())
    Sz = sum((0.5 * num(2 * i) - 0.5 * num(2 * i + 1) for i in range(n_mos)), F())
    Sp = sum((F(((2 * i, 1), (2 * i + 1, 0))) for i in range(n_mos)), F())
    Sm = sum((F(((2 * i + 1, 1), (2 * i, 0))) for i in range(n_mos)), F())
    S2 = Sm * Sp + Sz * Sz + Sz
    return {"N": N, "Sz": Sz, "S^2": S2}


def map_independent(fop, s, m):
    from tangelo.toolboxes.qubit_mappings.mapping_transform import fermion_to_qubit_mapping
    from tangelo.toolboxes.operators import FermionOperator
    f = FermionOperator()
    f.terms = dict(fop.terms)
    return fermion_to_qubit_mapping(f, s.qubit_mapping, m.n_active_sos, m.n_active_electrons, s.up_then_down, m.active_spin)


def jw_decode_values(psi, n, n_mos, utd):
    """N, Sz read off the JW occupation-number basis directly (no operator mapping involved)."""
    idx = np.arange(1 << n)
    p = np.abs(psi) ** 2
    if utd:
        na = sum(((idx >> i) & 1) for i in range(n_mos))
        nb = sum(((idx >> (n_mos + i)) & 1) for i in range(n_mos))
    else:
        na = sum(((idx >> (2 * i)) & 1) for i in range(n_mos))
        nb = sum(((idx >> (2 * i + 1)) & 1) for i in range(n_mos))
    return float(np.dot(p, na + nb)), float(np.dot(p, (na - nb) / 2.))


# ------------------------------------------------------------------------------------------ solver construction
def make_solver(cfg):
    from tangelo.algorithms.variational import VQESolver, BuiltInAnsatze
    from tangelo.linq import Circuit
    opts = {}
    if cfg.get("mol"):
        opts["molecule"] = mol(cfg["mol"])
    if cfg.get("ham") is not None:
        from tangelo.toolboxes.operators import QubitOperator
        h = QubitOperator()
        for t, re_, im_ in cfg["ham"]:
            h += QubitOperator(tuple((q, p) for q, p in t), complex(Fraction(re_), Fraction(im_)) if Fraction(im_) != 0 else float(Fraction(re_)))
        opts["qubit_hamiltonian"] = h
    if cfg.get("ansatz"):
        opts["ansatz"] = getattr(BuiltInAnsatze, cfg["ansatz"])
    if cfg.get("ansatz_gates") is not None:
        opts["ansatz"] = circ_of(cfg["ansatz_gates"], cfg.get("ansatz_n"))
    for k in ("qubit_mapping", "up_then_down", "ansatz_options", "penalty_terms", "deflation_coeff"):
        if cfg.get(k) is not None:
            opts[k] = cfg[k] if k != "ansatz_options" else dict(cfg[k])
    if cfg.get("ref_vec") is not None:
        opts["ref_state"] = list(cfg["ref_vec"])
    if cfg.get("ref_gates") is not None:
        opts["ref_state"] = circ_of(cfg["ref_gates"], cfg.get("ref_n"))
    if cfg.get("proj_gates") is not None:
        opts["projective_circuit"] = circ_of(cfg["proj_gates"], cfg.get("proj_n"))
    if cfg.get("defl") is not None:
        opts["deflation_circuits"] = [circ_of(g, n) for g, n in cfg["defl"]]
    s = VQESolver(opts)
    quiet(s.build)
    return s


def circ_of(specs, n=None):
    from tangelo.linq import Circuit
    return Circuit([LC.make_gate(x) for x in specs], n_qubits=n)


def ham_terms(op):
    return {t: c for t, c in op.terms.items()}


def eval_point(s, theta):
    """energy_estimation on the real solver + independent value; returns dict."""
    h0 = s.qubit_hamiltonian
    e = quiet(s.energy_estimation, theta)
    gs = composed_gates(s)
    terms = ham_terms(h0)
    n = width_of(gs, n_qubits_of(terms))
    psi = np_sim.run(gs, n)
    plain = expect(terms, psi, n)
    overl = []
    for d in s.deflation_circuits:
        dg = gate_tuples(d)
        nd = width_of(dg, n)
        a = np_sim.run(dg, nd)
        b = np_sim.run(gs, nd)
        overl.append(abs(np.vdot(a, b)) ** 2)
    spec = plain + s.deflation_coeff * sum(overl)
    return {"E": e, "plain": plain, "spec": spec, "overlaps": overl, "psi": psi, "n": n, "gates": gs, "terms": terms}


# ------------------------------------------------------------------------------------------ stream A: Coq correspondence
def rand_small_circ(rng, n, k, var=False):
    names = ["H", "X", "RX", "RY", "RZ", "CNOT", "PHASE", "S", "CRY", "XX", "SWAP", "Y", "Z", "T", "CZ"]
    out = []
    for _ in range(k):
        sp = LC.rand_gate_spec(rng, n, names=[x for x in names if n > 1 or x in ("H", "X", "RX", "RY", "RZ", "PHASE", "S", "Y", "Z", "T")],
                               max_controls=1, var_p=0.0, edge_p=0.15)
        out.append(sp)
    if var:
        rots = [g for g in out if g["name"] in ("RX", "RY", "RZ")]
        if not rots:
            out.append({"name": "RY", "target": [rng.randrange(n)], "control": None, "k": LC.rand_k(rng), "var": True})
        else:
            for g in rots:
                g["var"] = True
    return out


def rand_ham(rng, n):
    terms, seen = [], set()
    for _ in range(rng.randint(1, 4)):
        qs = sorted(rng.sample(range(n), rng.randint(0 if not terms else 1, n)))
        t = tuple((q, rng.choice("XYZ")) for q in qs)
        if t in seen:
            continue
        seen.add(t)
        terms.append([[[q, p] for q, p in t], str(Fraction(rng.randint(-8, 8), rng.choice([1, 2, 4]))), "0"])
    if all(len(t[0]) == 0 for t in terms):
        terms.append([[[0, "Z"]], "1", "0"])
    return terms


def gen_model_case(rng, idx):
    n = rng.choice([1, 2, 2, 3])
    c = {"n": n, "ham": rand_ham(rng, n)}
    # the ansatz circuit must reach the last qubit of H unless another circuit does (backend width check)
    ans = rand_small_circ(rng, n, rng.randint(1, 3 if n < 3 else 2), var=True)
    c["ansatz_gates"] = ans
    kind = idx % 6
    if kind == 5:
        n = c["n"] = min(n, 2)
        c["ham"] = rand_ham(rng, n)
        c["ansatz_gates"] = rand_small_circ(rng, n, rng.randint(1, 3), var=True)
    if rng.random() < 0.8:
        c["ansatz_n"] = n                  # declared register (else the width is max index + 1)
    if kind in (1, 4):
        c["ref_gates"] = rand_small_circ(rng, n, rng.randint(1, 2))
    if kind in (2, 4):
        c["proj_gates"] = rand_small_circ(rng, n, 1)
    if kind in (3, 4, 5):
        c["defl"] = []
        for _ in range(rng.randint(1, 2)):
            g = rand_small_circ(rng, n, rng.randint(1, 3 if n < 3 else 2))
            nd = None
            if kind == 5 and rng.random() < 0.5:
                nd = n + 1                     # deflation circuit declared wider than everything else
            c["defl"].append([g, nd])
        c["deflation_coeff"] = rng.choice([1, 2, 0.5, 3])
    return c


def coq_q(fr):
    fr = Fraction(fr)
    return "(%d#%d)" % (fr.numerator, fr.denominator)


def coq_zpc(circ):
    specs = [LC.spec_of_gate(g) for g in circ._gates]
    return "(%s, %s)" % (coq_list([LC.coq_gate(x) for x in specs]), coq_nat(circ.width))


def coq_case(s, cfg, keyw, useref, n):
    from tangelo.linq import Circuit
    H = coq_list(["(%s, coef %s %s)" % (coq_list(["(%s, %s)" % (coq_N(q), PAULI_COQ[p]) for q, p in t]), coq_q(re_), coq_q(im_))
                  for t, re_, im_ in cfg["ham"]])
    proj = coq_opt(None if s.projective_circuit is None else coq_zpc(s.projective_circuit))
    defl = coq_list([coq_zpc(d) for d in s.deflation_circuits])
    co = Fraction(s.deflation_coeff).limit_denominator(64)
    return "run_case %s %s %s %s %s %s %s (%s : xop) %s (coef %s (0#1))" % (
        coq_bool(keyw), coq_bool(useref), coq_nat(n), coq_bool(s.ref_state is not None), coq_zpc(s.reference_circuit),
        coq_zpc(s.ansatz.circuit), proj, H, defl, coq_q(co))


def cy_to_complex(body):
    body = body.strip()
    if not body:
        return 0j
    return sum(float(Fraction(t)) * ZETA[k] for k, t in enumerate(body.split()))


def parse_model(line):
    import re
    out = {}
    for k, v in re.findall(r"(\w+)=<([^>]*)>", line):
        out[k] = cy_to_complex(v)
    return out


def run_model_stream(ck, facts, n_cases):
    ck.stream("model-correspondence", "VariationalCircuitAnsatz solver on the pi/8 grid: real energy_estimation / "
              "operator_expectation(H) vs the Coq model (exact); non-trivial = >= 2 gates and a non-diagonal H term or a deflation circuit")
    keyw, useref = facts["defl_key_is_ansatz_width"], facts["opexp_uses_reference"]
    cases, exprs, solvers = [], [], []
    i = 0
    while len(cases) < n_cases and i < 20 * n_cases:
        cfg = gen_model_case(ck.rng, i)
        i += 1
        try:
            s = make_solver(cfg)
        except Exception:
            continue
        gs_all = composed_gates(s)
        n = width_of(gs_all, n_qubits_of({tuple((q, p) for q, p in t): 1 for t, _, _ in cfg["ham"]}),
                     *[d.width for d in s.deflation_circuits])
        if n > 3 or any(LC.spec_of_gate(g).get("offgrid") is not None for c in [s.ansatz.circuit] for g in c._gates):
            continue
        cases.append(cfg)
        solvers.append((s, n))
        exprs.append(coq_case(s, cfg, keyw, useref, n))
    model = ck.coq_eval("vqe", PREAMBLE, exprs, shard=max(3, (len(exprs) + 3) // 4) if len(exprs) <= 48 else 12, jobs=4)
    for cfg, (s, n), line in zip(cases, solvers, model):
        theta = [g.parameter for g in s.ansatz.circuit._variational_gates]
        tags = ["n=%d" % n] + [k for k in ("ref_gates", "proj_gates", "defl") if cfg.get(k) is not None]
        if line == "uninterpretable":
            ck.not_evaluated += 1
            continue
        m = parse_model(line)
        h0 = s.qubit_hamiltonian
        try:
            e = quiet(s.energy_estimation, theta)
            eo = quiet(s.operator_expectation, h0, theta)
        except Exception as ex:
            # the backend refuses operators wider than the circuit: not a property case
            ck.not_evaluated += 1
            continue
        nontriv = len(composed_gates(s)) >= 2 and (bool(cfg.get("defl")) or any(p in "XY" for t, _, _ in cfg["ham"] for _, p in t))
        ck.case("model-correspondence", cfg, nontrivial=nontriv, sample={"cfg": cfg, "model": line, "impl_E": e}, tags=tags)
        rep = {"kind": "model", "cfg": cfg, "model": line, "impl_E": e, "impl_opexp": eo}
        if abs(m["norm"] - 1) > 1e-12:
            ck.violation("C08/model/prepared-state-not-normalised", "model norm %r" % m["norm"], rep, found_input=False)
        if abs(m["spec"] - m["Efix"]) > 1e-12:
            ck.violation("C08/model/energy_spec-theorem-instance-fails", "model Efix != spec: %s" % line, rep, found_input=False)
        mism = abs(m["E"] - m["spec"]) > 1e-9
        if abs(e - m["spec"]) > TOL:
            # property violated on the real code
            if mism and abs(e - m["E"]) <= TOL:
                ck.violation(SIG_WIDTH, "energy_estimation drops the deflation term when the key width (ansatz circuit) differs from the "
                             "width of the simulated circuit: reported %.10f, <psi|H|psi> + sum coeff*overlap = %.10f (model as written agrees "
                             "with the code)" % (e, m["spec"].real), rep, found_input=True)
            else:
                ck.violation("C08/energy_estimation/variational-circuit/value-differs", "energy_estimation = %.12f, exact model value %.12f "
                             "(spec %.12f)" % (e, m["E"].real, m["spec"].real), rep, found_input=True)
        elif abs(e - m["E"]) > TOL:
            ck.violation("C08/model/energy-as-written-differs-from-code", "code meets the specification %.10f but the as-written model says %.10f"
                         % (e, m["E"].real), rep, found_input=False)
        # operator_expectation(H) with the default ref_state argument
        if abs(eo - m["opexp"]) > TOL:
            ck.violation("C08/model/operator_expectation-differs", "operator_expectation(H) = %.12f, model %.12f" % (eo, m["opexp"].real),
                         rep, found_input=False)
        if abs(eo - m["plain"]) > TOL:
            if s.ref_state is not None and abs(eo - m["opexp"]) <= TOL:
                ck.violation(SIG_REF, "operator_expectation(H, theta) = %.10f but energy_estimation(theta) evaluates H in a state with "
                             "<H> = %.10f: the reference-state override is not applied by operator_expectation" % (eo, m["plain"].real),
                             rep, found_input=True)
            else:
                ck.violation("C08/operator_expectation/variational-circuit/value-differs", "operator_expectation(H) = %.12f, <psi|H|psi> = %.12f"
                             % (eo, m["plain"].real), rep, found_input=True)
        if s.qubit_hamiltonian is not h0:
            ck.violation("C08/operator_expectation/attribute-not-restored-after-return", "qubit_hamiltonian replaced after a returning call",
                         rep, found_input=True)


# ------------------------------------------------------------------------------------------ stream B: built-in ansaetze
UCC_LIKE = ("UCCSD", "UpCCGSD", "UCCGD")
ENC = ["jw", "bk", "scbk", "jkmn"]


def solver_configs(rng, tier):
    quick = tier == "quick"
    out = []
    mols_small = ["H2", "H4ff"]
    for m in mols_small:
        for an in ("UCCSD", "UpCCGSD", "UCCGD", "HEA", "QMF", "QCC", "ILC", "VSQS"):
            for mp in ENC:
                for utd in (False, True):
                    if quick and rng.random() < (0.55 if an in ("UCCSD", "HEA") else 0.75):
                        continue
                    c = {"mol": m, "ansatz": an, "qubit_mapping": mp, "up_then_down": utd}
                    if an == "UpCCGSD":
                        c["ansatz_options"] = {"k": rng.choice([1, 2])}
                    if an == "HEA":
                        c["ansatz_options"] = {"n_layers": rng.choice([1, 2])}
                    out.append(c)
        out.append({"mol": m, "ansatz": "pUCCD", "qubit_mapping": "hcb"})
    out.append({"mol": "H2", "ansatz": "UCCSD", "qubit_mapping": "scBK", "up_then_down": False})
    out.append({"mol": "H2", "ansatz": "UCC1", "qubit_mapping": "jw", "up_then_down": True})
    out.append({"mol": "H2", "ansatz": "UCC3", "qubit_mapping": "jw", "up_then_down": True})
    big = [("H4f", "UCCSD"), ("H4f", "UpCCGSD"), ("H4f", "HEA"), ("H4f", "QCC"), ("H4f", "pUCCD"), ("H4", "pUCCD"), ("H4", "HEA"),
           ("H4", "UpCCGSD"), ("H4+", "UCCSD"), ("H4", "UCCSD")]
    for m, an in big:
        for mp in ENC:
            for utd in (False, True):
                if an == "pUCCD":
                    if (mp, utd) != ("jw", False):
                        continue
                    out.append({"mol": m, "ansatz": an, "qubit_mapping": "hcb"})
                    continue
                p_skip = 0.0 if not quick else (0.93 if m in ("H4", "H4+") else 0.8)
                if rng.random() < p_skip:
                    continue
                c = {"mol": m, "ansatz": an, "qubit_mapping": mp, "up_then_down": utd}
                if an == "UpCCGSD":
                    c["ansatz_options"] = {"k": 1}
                out.append(c)
    return out


def rand_theta(rng, nv, kind):
    if kind == "zero":
        return [0.0] * nv
    if kind == "grid":
        return [LC.theta(rng.randint(-8, 8)) / 4 for _ in range(nv)]
    return [rng.uniform(-1.5, 1.5) for _ in range(nv)]


_lmin = {}


def lambda_min(s, terms, n):
    key = (id(s),)
    if key not in _lmin:
        _lmin[key] = float(np.linalg.eigvalsh(dense(terms, n))[0]) if n <= 8 else None
    return _lmin[key]


def sym_checks(ck, s, cfg, theta, ev, rep):
    """operator_expectation of N / Sz / S^2 / an explicit operator vs the state energy_estimation used."""
    m = s.molecule
    hcb = s.qubit_mapping.upper() == "HCB"
    psi, n = ev["psi"], ev["n"]
    h0 = s.qubit_hamiltonian
    ind = independent_sym_ops(m.n_active_mos)
    for name in ("N", "Sz", "S^2"):
        tag = "%s/%s/%s" % (name, s.qubit_mapping.lower(), "utd" if s.up_then_down else "alt")
        try:
            val = quiet(s.operator_expectation, name, theta)
            raised = None
        except Exception as ex:
            val, raised = None, ex
        if s.qubit_hamiltonian is not h0:
            s.qubit_hamiltonian = h0
            if raised is None:
                ck.violation("C08/operator_expectation/attribute-not-restored-after-return", "after operator_expectation(%r)" % name, rep, True)
        if hcb:
            exp_val = {"N": 2.0 * float(np.dot(np.abs(psi) ** 2, [bin(x).count("1") for x in range(1 << n)])), "Sz": 0.0, "S^2": 0.0}[name]
        else:
            exp_val = expect(ham_terms(map_independent(ind[name], s, m)), psi, n).real
        ck.case("symmetry-expectations", {"cfg": cfg, "op": name, "theta": theta}, nontrivial=any(abs(t) > 1e-12 for t in theta),
                sample={"cfg": cfg, "op": name, "impl": None if val is None else float(np.real(val)), "expected": exp_val}, tags=[tag])
        r = dict(rep, op=name, expected=exp_val, impl=None if val is None else float(np.real(val)))
        if raised is not None:
            # does the call succeed when the active-space data is passed explicitly?
            try:
                val = quiet(s.operator_expectation, name, theta, n_active_sos=m.n_active_sos, n_active_electrons=m.n_active_electrons,
                            spin=m.active_spin)
            except Exception:
                val = None
            s.qubit_hamiltonian = h0
            r["explicit_args_value"] = None if val is None else float(np.real(val))
            if val is not None and s.qubit_mapping != "scbk":
                ck.violation(SIG_DEFAULTS, "operator_expectation(%r) raises %s (%s) for a molecule-built solver with qubit_mapping=%r, "
                             "up_then_down=%r: the active-space defaults are only taken from the molecule when qubit_mapping == 'scbk'; "
                             "it returns when n_active_sos / n_active_electrons / spin are passed explicitly"
                             % (name, type(raised).__name__, str(raised)[:80], s.qubit_mapping, s.up_then_down), r, found_input=True)
            else:
                ck.violation("C08/operator_expectation/%s/raises" % tag, "operator_expectation(%r) raises %r" % (name, raised), r, True)
                continue
        if abs(val - exp_val) > TOL:
            if hcb and name in ("Sz", "S^2"):
                ck.violation(SIG_HCB, "pUCCD/HCB: operator_expectation(%r) = %.6f; the paired (seniority-zero) state has %s = %.1f"
                             % (name, np.real(val), name, exp_val), r, found_input=True)
            elif s.ref_state is not None:
                ck.violation(SIG_REF, "operator_expectation(%r) = %.8f, value in the state energy_estimation uses = %.8f (ref_state override "
                             "not applied)" % (name, np.real(val), exp_val), r, found_input=True)
            else:
                ck.violation("C08/operator_expectation/%s/value-differs" % tag, "operator_expectation(%r) = %.10f, independent value %.10f"
                             % (name, np.real(val), exp_val), r, found_input=True)
        # decode the JW basis directly (no operator mapping)
        if s.qubit_mapping.lower() == "jw" and name in ("N", "Sz") and s.ref_state is None:
            dn, dsz = jw_decode_values(psi, n, m.n_active_mos, s.up_then_down)
            if abs(val - (dn if name == "N" else dsz)) > TOL:
                ck.violation("C08/operator_expectation/%s/differs-from-occupation-decode" % tag, "%r: %.10f vs %.10f" % (name, np.real(val), dn if name == "N" else dsz),
                             r, found_input=True)
    # conserved quantities of the UCC family under the faithful encodings (independent of any operator mapping)
    # (JW only: under BK / JKMN / scBK the length-sorted Trotter order of Tangelo's UCC circuits does not keep N — C12's subject)
    if cfg.get("ansatz") in ("UCCSD", "UpCCGSD") and s.qubit_mapping.lower() == "jw" and s.ref_state is None:
        try:
            v = quiet(s.operator_expectation, "N", theta, n_active_sos=m.n_active_sos, n_active_electrons=m.n_active_electrons, spin=m.active_spin)
            if abs(v - m.n_active_electrons) > 1e-6:
                ck.violation("C08/operator_expectation/N/%s/not-the-electron-number" % cfg["ansatz"], "N = %.8f, active electrons %d"
                             % (np.real(v), m.n_active_electrons), rep, found_input=True)
        except Exception:
            pass
        s.qubit_hamiltonian = h0


def run_solver_stream(ck, configs, n_theta):
    ck.stream("solver-oracle", "built-in ansaetze x encodings x orderings x molecules (H2, H4, frozen orbitals): energy_estimation vs numpy "
              "<psi|H|psi>, E >= lambda_min, E(0) = mean-field; non-trivial = parameters not all zero")
    ck.stream("symmetry-expectations", "operator_expectation(N|Sz|S^2) vs independent operators in the state of energy_estimation; "
              "non-trivial = parameters not all zero")
    for cfg in configs:
        try:
            s = make_solver(cfg)
        except Exception as ex:
            ck.case("solver-oracle", {"cfg": cfg, "build": "raises"}, nontrivial=False, tags=["build-raises:" + type(ex).__name__])
            continue
        nv = s.ansatz.n_var_params
        m = s.molecule
        kinds = ["zero", "rand"] + ["rand", "grid"] * n_theta
        for kind in kinds[:1 + n_theta]:
            theta = rand_theta(ck.rng, nv, kind)
            rep = {"kind": "solver", "cfg": cfg, "theta": theta}
            try:
                ev = eval_point(s, theta)
            except Exception as ex:
                ck.violation("C08/energy_estimation/%s/%s/raises" % (cfg["ansatz"], cfg["qubit_mapping"]), "energy_estimation raises %r" % ex,
                             rep, found_input=True)
                break
            tags = [cfg["ansatz"], cfg["qubit_mapping"], "utd" if cfg.get("up_then_down") else "alt", cfg["mol"], kind]
            ck.case("solver-oracle", {"cfg": cfg, "theta": theta}, nontrivial=any(abs(t) > 1e-12 for t in theta),
                    sample={"cfg": cfg, "theta": theta, "E": ev["E"], "numpy": ev["spec"].real}, tags=tags)
            if abs(ev["E"] - ev["spec"]) > TOL or abs(ev["spec"].imag) > TOL:
                ck.violation("C08/energy_estimation/%s/%s/value-differs" % (cfg["ansatz"], cfg["qubit_mapping"]),
                             "energy_estimation = %.12f, independent <psi|H|psi> = %.12f" % (ev["E"], ev["spec"].real), rep, found_input=True)
            lm = lambda_min(s, ev["terms"], ev["n"])
            if lm is not None and ev["E"] < lm - 1e-9:
                ck.violation("C08/energy_estimation/%s/%s/below-lowest-eigenvalue" % (cfg["ansatz"], cfg["qubit_mapping"]),
                             "E = %.12f < lambda_min = %.12f" % (ev["E"], lm), rep, found_input=True)
            if kind == "zero" and cfg["ansatz"] in UCC_LIKE + ("pUCCD", "UCC1", "UCC3") and m.mf_energy is not None:
                if abs(ev["E"] - m.mf_energy) > 1e-6:
                    ck.violation("C08/energy_estimation/%s/%s/zero-parameters-not-mean-field" % (cfg["ansatz"], cfg["qubit_mapping"]),
                                 "E(0) = %.10f, mean-field energy %.10f (active-space data / ordering passed to the mapping?)"
                                 % (ev["E"], m.mf_energy), rep, found_input=True)
            if kind != "zero" or cfg["ansatz"] not in UCC_LIKE:
                sym_checks(ck, s, cfg, theta, ev, rep)
        _lmin.clear()


# ------------------------------------------------------------------------------------------ stream C: overrides, deflation, projective, penalties
def run_override_stream(ck, tier):
    from tangelo.linq import Circuit, Gate
    from tangelo.toolboxes.qubit_mappings.statevector_mapping import get_reference_circuit
    ck.stream("overrides", "ref_state as vector / circuit, deflation circuits with coefficients, projective circuits, penalty terms; "
              "non-trivial = parameters not all zero")
    quick = tier == "quick"
    rng = ck.rng
    combos = []
    for mname in ("H2", "H4ff") + (() if quick else ("H4f",)):
        for mp in ENC:
            for utd in (False, True):
                if quick and rng.random() < 0.5:
                    continue
                combos.append((mname, mp, utd))
    for mname, mp, utd in combos:
        m = mol(mname)
        nso = m.n_active_sos
        # --- reference override as a vector (a non-HF determinant with the same electron numbers) and as a circuit
        occ = [0] * nso
        na = (m.n_active_electrons + m.active_spin) // 2
        nb = m.n_active_electrons - na
        for i in rng.sample(range(nso // 2), na):
            occ[2 * i] = 1
        for i in rng.sample(range(nso // 2), nb):
            occ[2 * i + 1] = 1
        for an in ("UCCSD", "HEA"):
            for refkind in ("vector", "circuit"):
                cfg = {"mol": mname, "ansatz": an, "qubit_mapping": mp, "up_then_down": utd}
                if refkind == "vector":
                    cfg["ref_vec"] = occ
                else:
                    q = rng.randrange(max(1, nso - (2 if mp == "scbk" else 0)))
                    cfg["ref_gates"] = [{"name": "RY", "target": [q], "control": None, "k": rng.choice([2, 4, 8, -4]), "var": False}]
                try:
                    s = make_solver(cfg)
                except Exception as ex:
                    ck.case("overrides", {"cfg": cfg, "build": "raises"}, nontrivial=False, tags=["build-raises"])
                    continue
                theta = rand_theta(rng, s.ansatz.n_var_params, "rand")
                rep = {"kind": "solver", "cfg": cfg, "theta": theta}
                ev = eval_point(s, theta)
                ck.case("overrides", {"cfg": cfg, "theta": theta}, nontrivial=True, tags=["ref-" + refkind, mp, an],
                        sample={"cfg": cfg, "E": ev["E"], "numpy": ev["spec"].real})
                if abs(ev["E"] - ev["spec"]) > TOL:
                    ck.violation("C08/energy_estimation/ref_state-%s/value-differs" % refkind, "E = %.12f vs %.12f" % (ev["E"], ev["spec"].real),
                                 rep, found_input=True)
                lm = lambda_min(s, ev["terms"], ev["n"])
                if lm is not None and ev["E"] < lm - 1e-9:
                    ck.violation("C08/energy_estimation/ref_state-%s/below-lowest-eigenvalue" % refkind, "E %.10f < %.10f" % (ev["E"], lm), rep, True)
                _lmin.clear()
                if refkind == "vector" and an == "UCCSD":
                    # all-zero parameters: the state is the requested determinant
                    e0 = eval_point(s, [0.0] * s.ansatz.n_var_params)
                    if abs(e0["E"] - e0["spec"]) > TOL:
                        ck.violation("C08/energy_estimation/ref_state-vector/zero/value-differs", "", rep, True)
                sym_checks(ck, s, cfg, theta, ev, rep)
        # --- deflation with the solver's own circuits + projective circuit
        cfg = {"mol": mname, "ansatz": "UCCSD", "qubit_mapping": mp, "up_then_down": utd}
        try:
            s0 = make_solver(cfg)
        except Exception:
            continue
        nv = s0.ansatz.n_var_params
        th_d = [rand_theta(rng, nv, "rand") for _ in range(rng.choice([1, 2]))]
        defl = []
        for t in th_d:
            s0.ansatz.update_var_params(t)
            defl.append(s0.ansatz.circuit.copy())
        from tangelo.algorithms.variational import VQESolver, BuiltInAnsatze
        coeff = rng.choice([0.4, 1.0, 2.5])
        opts = {"molecule": m, "ansatz": BuiltInAnsatze.UCCSD, "qubit_mapping": mp, "up_then_down": utd,
                "deflation_circuits": defl, "deflation_coeff": coeff}
        withproj = rng.random() < 0.5
        if withproj:
            w = s0.ansatz.circuit.width
            opts["projective_circuit"] = Circuit([Gate("RZ", rng.randrange(w), parameter=0.7), Gate("CNOT", 0, control=w - 1)] if w > 1 else
                                                 [Gate("RZ", 0, parameter=0.7)])
        s = VQESolver(opts)
        quiet(s.build)
        for theta in (th_d[0], rand_theta(rng, nv, "rand")):
            rep = {"kind": "deflation", "cfg": cfg, "theta": theta, "defl_thetas": th_d, "coeff": coeff, "proj": withproj}
            ev = eval_point(s, theta)
            ck.case("overrides", {"cfg": cfg, "theta": theta, "defl": th_d}, nontrivial=True, tags=["deflation", mp] + (["projective"] if withproj else []),
                    sample={"cfg": cfg, "E": ev["E"], "plain": ev["plain"].real, "overlaps": ev["overlaps"], "coeff": coeff})
            if abs(ev["E"] - ev["spec"]) > TOL:
                ck.violation("C08/energy_estimation/deflation/value-differs", "E = %.12f, plain + coeff*overlaps = %.12f (plain %.12f, overlaps %s)"
                             % (ev["E"], ev["spec"].real, ev["plain"].real, ev["overlaps"]), rep, found_input=True)
            if theta is th_d[0] and not withproj and abs(ev["overlaps"][0] - 1) > 1e-9:
                ck.violation("C08/harness/self-overlap-not-one", "oracle self check", rep, found_input=False)
        r = s.get_resources()
        if r["qubit_hamiltonian_terms"] != len(s.qubit_hamiltonian.terms) + len(defl):
            ck.violation("C08/get_resources/term-count", "%r" % r, {"kind": "resources", "cfg": cfg}, True)
        # --- penalty terms: H + mu (N - n)^2 at the mean-field point
        if mp != "scbk":
            tgt = m.n_active_electrons + rng.choice([0, 0, 1, -1])
            mu = rng.choice([0.5, 1.5])
            cfgp = {"mol": mname, "ansatz": "UCCSD", "qubit_mapping": mp, "up_then_down": utd, "penalty_terms": {"N": [mu, tgt], "Sz": [mu, 0]}}
            try:
                sp = make_solver(cfgp)
            except Exception as ex:
                ck.violation("C08/build/penalty/raises", "%r" % ex, {"kind": "solver", "cfg": cfgp, "theta": []}, True)
                continue
            ev = eval_point(sp, [0.0] * sp.ansatz.n_var_params)
            want = m.mf_energy + mu * (m.n_active_electrons - tgt) ** 2
            ck.case("overrides", {"cfg": cfgp}, nontrivial=False, tags=["penalty", mp])
            if abs(ev["E"] - ev["spec"]) > TOL or abs(ev["E"] - want) > 1e-6:
                ck.violation("C08/energy_estimation/penalty/value-differs", "E(0) = %.10f, numpy %.10f, mean-field + mu (n - target)^2 = %.10f"
                             % (ev["E"], ev["spec"].real, want), {"kind": "solver", "cfg": cfgp, "theta": [0.0] * sp.ansatz.n_var_params}, True)
            th = rand_theta(rng, sp.ansatz.n_var_params, "rand")
            ev = eval_point(sp, th)
            if abs(ev["E"] - ev["spec"]) > TOL:
                ck.violation("C08/energy_estimation/penalty/value-differs", "E = %.10f, numpy %.10f" % (ev["E"], ev["spec"].real),
                             {"kind": "solver", "cfg": cfgp, "theta": th}, True)


# ------------------------------------------------------------------------------------------ stream H: call histories on ONE solver
def twin_values(twin, theta):
    """independent values for the parameter vector theta: the state comes from a SECOND solver object whose ansatz is set to
    theta right now (never from the solver under test, whose circuit may be stale), evaluated with numpy."""
    twin.ansatz.update_var_params(theta)
    gs = composed_gates(twin)
    terms = ham_terms(twin.qubit_hamiltonian)
    n = width_of(gs, n_qubits_of(terms), *[d.width for d in twin.deflation_circuits])
    psi = np_sim.run(gs, n)
    plain = expect(terms, psi, n)
    ov = [abs(np.vdot(np_sim.run(gate_tuples(d), n), psi)) ** 2 for d in twin.deflation_circuits]
    return {"psi": psi, "n": n, "E": (plain + twin.deflation_coeff * sum(ov)).real}


def history_configs(rng, tier):
    out = [{"mol": "H2", "ansatz": "UCCSD", "qubit_mapping": "jw", "up_then_down": False},
           {"mol": "H2", "ansatz": "UCCSD", "qubit_mapping": rng.choice(["scbk", "bk", "jkmn"]), "up_then_down": rng.random() < 0.5},
           {"mol": "H2", "ansatz": "HEA", "qubit_mapping": "jw", "up_then_down": False, "ansatz_options": {"n_layers": 1}},
           {"mol": "H4ff", "ansatz": "UpCCGSD", "qubit_mapping": rng.choice(ENC), "up_then_down": rng.random() < 0.5, "ansatz_options": {"k": 1}},
           {"mol": "H2", "ansatz": "UCCSD", "qubit_mapping": "jw", "up_then_down": False, "ref_vec": [1, 0, 0, 1]},
           {"mol": "H2", "ansatz": "UCCSD", "qubit_mapping": "jw", "up_then_down": False,
            "defl": [[[{"name": "X", "target": [0], "control": None, "k": None, "var": False},
                       {"name": "X", "target": [1], "control": None, "k": None, "var": False},
                       {"name": "RY", "target": [2], "control": None, "k": 3, "var": False}], 4]], "deflation_coeff": 1.5},
           {"ham": [[[[0, "Z"]], "1", "0"], [[[0, "X"], [1, "Y"]], "1/2", "0"], [[[1, "Z"]], "-3/4", "0"]], "ansatz_n": 2,
            "ansatz_gates": [{"name": "RY", "target": [0], "control": None, "k": 3, "var": True},
                             {"name": "CNOT", "target": [1], "control": [0], "k": None, "var": False},
                             {"name": "RX", "target": [1], "control": None, "k": 5, "var": True}]}]
    if tier != "quick":
        out += [{"mol": "H4f", "ansatz": "UCCSD", "qubit_mapping": mp, "up_then_down": u} for mp in ENC for u in (False, True)]
        out += [{"mol": m, "ansatz": a, "qubit_mapping": mp, "up_then_down": False} for m in ("H2", "H4ff") for a in ("QCC", "VSQS", "UCCGD", "QMF")
                for mp in ("scbk", "bk")]
        out += [{"mol": "H2", "ansatz": "pUCCD", "qubit_mapping": "hcb"}]
    return out


def gen_history(rng, n_thetas, length, with_rdm):
    """calls (kind, theta index); the prefix E(a), other(b), E(a) is always present, the rest is random with repeats"""
    kinds = ["E", "E", "N", "Sz", "S^2", "op"] + (["rdm"] if with_rdm else [])
    other = lambda: rng.choice([k for k in kinds if k != "E"])
    a, b = rng.sample(range(n_thetas), 2)
    seq = [("E", a), (other(), b), ("E", a)]
    while len(seq) < length:
        seq.append((rng.choice(kinds), rng.randrange(n_thetas)))
    return seq


def run_history(ck, cfg, thetas, seq, record=True):
    """returns the list of (call index, kind, theta index, implementation value, independent value) that differ"""
    from tangelo.toolboxes.operators import QubitOperator
    s, twin = make_solver(cfg), make_solver(cfg)
    m = s.molecule
    ind = independent_sym_ops(m.n_active_mos) if m is not None else None
    hcb = s.qubit_mapping.upper() == "HCB"
    bad = []
    for i, (kind, ti) in enumerate(seq):
        theta = thetas[ti]
        tv = twin_values(twin, theta)
        psi, n = tv["psi"], tv["n"]
        if kind in ("N", "Sz", "S^2", "rdm") and (m is None or hcb and kind != "N"):
            kind = "op"
        if kind == "E":
            got, want = quiet(s.energy_estimation, theta), tv["E"]
        elif kind == "op":
            q = QubitOperator("Z0") + 0.5 * QubitOperator("X0" if n < 2 else "X0 Y1")
            got, want = quiet(s.operator_expectation, q, theta), expect(ham_terms(q), psi, n).real
        elif kind == "rdm":
            r1, _ = quiet(s.get_rdm, theta)
            got = float(np.real(np.trace(r1)))
            want = expect(ham_terms(map_independent(ind["N"], s, m)), psi, n).real
        else:
            got = quiet(s.operator_expectation, kind, theta)
            want = 2.0 * float(np.dot(np.abs(psi) ** 2, [bin(x).count("1") for x in range(1 << n)])) if hcb else \
                expect(ham_terms(map_independent(ind[kind], s, m)), psi, n).real
        got = float(np.real(got))
        if record:
            ck.case("call-histories", {"cfg": cfg, "seq": seq, "i": i}, nontrivial=i >= 2 and any(t != ti for _, t in seq[:i]),
                    sample={"cfg": cfg, "call": [kind, ti], "impl": got, "independent": want}, tags=["call:" + kind])
        if abs(got - want) > TOL:
            bad.append((i, kind, ti, got, want))
    return bad


def run_history_stream(ck, tier):
    ck.stream("call-histories", "ONE solver object driven through random sequences of energy_estimation / operator_expectation / get_rdm with 2-3 "
              "alternating parameter vectors (repeats of earlier vectors included); every returned value vs the independent value for the "
              "vector passed to THAT call (state from a second solver object); non-trivial = call preceded by a call with another vector")
    quick = tier == "quick"
    for cfg in history_configs(ck.rng, tier):
        try:
            probe = make_solver(cfg)
        except Exception as ex:
            ck.case("call-histories", {"cfg": cfg, "build": "raises"}, nontrivial=False, tags=["build-raises"])
            continue
        nv = probe.ansatz.n_var_params
        for _ in range(2 if quick else 4):
            nt = ck.rng.choice([2, 3])
            thetas = [rand_theta(ck.rng, nv, ck.rng.choice(["rand", "grid"])) for _ in range(nt)]
            seq = gen_history(ck.rng, nt, ck.rng.randint(5, 8) if quick else ck.rng.randint(6, 12),
                              with_rdm=probe.molecule is not None and probe.qubit_mapping.upper() != "HCB" and probe.molecule.n_active_sos <= 4)
            bad = run_history(ck, cfg, thetas, seq)
            for (i, kind, ti, got, want) in bad[:1]:
                # shrink: the shortest prefix that still fails at its last call
                short = seq[:i + 1]
                for j in range(i):
                    cand = short[:j] + short[j + 1:]
                    try:
                        b2 = run_history(ck, cfg, thetas, cand, record=False)
                    except Exception:
                        continue
                    if b2 and b2[0][0] == len(cand) - 1:
                        short = cand
                        break
                what = {"E": "energy_estimation", "rdm": "get_rdm"}.get(kind, "operator_expectation")
                ck.violation("C08/history/%s/value-depends-on-earlier-calls" % what,
                             "%s(theta_%d) as call %d of the history %s on one solver returns %.10f; the independent value for THAT vector is %.10f"
                             % (what, ti, i, [(k, "theta_%d" % t) for k, t in seq[:i + 1]], got, want),
                             {"kind": "history", "cfg": cfg, "thetas": thetas, "seq": [list(x) for x in short]}, found_input=True)


# ------------------------------------------------------------------------------------------ stream D: restore
def restore_cases(ck):
    from tangelo.toolboxes.operators import QubitOperator, FermionOperator
    ck.stream("attribute-restore", "qubit_hamiltonian after operator_expectation calls that return / raise; non-trivial = raising call")
    cfg = {"mol": "H2", "ansatz": "UCCSD", "qubit_mapping": "jw", "up_then_down": False}
    s = make_solver(cfg)
    nv = s.ansatz.n_var_params
    good = [0.1] * nv
    calls = [
        ("qubit-operator/ok", lambda: s.operator_expectation(QubitOperator("Z0"), good), False),
        ("fermion-operator/ok", lambda: s.operator_expectation(FermionOperator("0^ 0"), good), False),
        ("name/ok", lambda: s.operator_expectation("N", good), False),
        ("unknown-name", lambda: s.operator_expectation("Q", good), True),
        ("wrong-type", lambda: s.operator_expectation(3.0, good), True),
        ("qubit-operator/wrong-size-params", lambda: s.operator_expectation(QubitOperator("Z0"), good + [0.3]), True),
        ("name/wrong-size-params", lambda: s.operator_expectation("N", good + [0.3]), True),
        ("qubit-operator/wider-than-circuit", lambda: s.operator_expectation(QubitOperator("Z9"), good), True),
    ]
    for label, f, should_raise in calls:
        h0 = s.qubit_hamiltonian
        e_before = quiet(s.energy_estimation, good)
        try:
            quiet(f)
            raised = None
        except Exception as ex:
            raised = ex
        restored = s.qubit_hamiltonian is h0
        ck.case("attribute-restore", label, nontrivial=raised is not None, tags=[label, "raised" if raised is not None else "returned"],
                sample={"call": label, "raised": repr(raised), "restored": restored})
        rep = {"kind": "restore", "call": label}
        if not restored:
            try:
                e_after = quiet(s.energy_estimation, good)
            except Exception as ex:
                e_after = repr(ex)
            s.qubit_hamiltonian = h0
            if raised is None:
                ck.violation("C08/operator_expectation/attribute-not-restored-after-return", label, rep, found_input=True)
            else:
                ck.violation(SIG_RESTORE, "operator_expectation (%s) raises %s and leaves self.qubit_hamiltonian replaced: the next "
                             "energy_estimation returns %s instead of %.8f" % (label, type(raised).__name__, e_after, e_before), rep, found_input=True)
        if should_raise and raised is None:
            ck.violation("C08/operator_expectation/%s/accepted" % label, "call returned", rep, found_input=True)
        if not should_raise and raised is not None:
            ck.violation("C08/operator_expectation/%s/raises" % label, repr(raised), rep, found_input=True)


def witness_cases(ck, facts):
    """the witnesses of the `_refuted` theorems, on the real code; and the model evaluated on them"""
    ck.stream("witnesses", "witnesses of the _refuted theorems replayed on the real code")
    w_width = {"ham": [[[[0, "Z"]], "1", "0"]], "ansatz_gates": [{"name": "RY", "target": [0], "control": None, "k": 4, "var": True}],
               "defl": [[[{"name": "RY", "target": [0], "control": None, "k": 4, "var": False}], 2]], "deflation_coeff": 2}
    s = make_solver(w_width)
    e = quiet(s.energy_estimation, [LC.theta(4)])
    ck.case("witnesses", "deflation-width", nontrivial=True, sample={"E": e, "spec": 2.0})
    lines = ck.coq_eval("wit", PREAMBLE, [
        'match wit_width with Some v => run_energy true false 2 v | None => "none" end', "run_energy true false 2 wit_width_v",
        'match wit_ref with Some v => run_energy true false 1 v | None => "none" end', "run_energy true false 1 wit_ref_v"])
    if lines[0] != lines[1] or lines[2] != lines[3]:
        ck.violation("C08/model/witness-interpretation", "the witnesses written in QSem differ from the interpreted Python-level gates: %r" % (lines,),
                     {"kind": "witness"}, found_input=False)
    if abs(e - 2.0) > TOL:
        ck.violation(SIG_WIDTH, "witness of C08_deflation_width_mismatch_asis_refuted: H = Z0, ansatz RY(pi/2) on 1 qubit, the same circuit declared on 2 "
                     "qubits as deflation circuit with coefficient 2: energy_estimation = %.10f, <psi|H|psi> + 2*|<psi_d|psi>|^2 = 2" % e,
                     {"kind": "witness-width"}, found_input=True)
    elif facts["defl_key_is_ansatz_width"]:
        ck.notes["deflation_key_note"] = "source still builds the key from the ansatz width but the witness passes"
    w_ref = {"ham": [[[[0, "Z"]], "1", "0"]], "ansatz_gates": [{"name": "RY", "target": [0], "control": None, "k": 0, "var": True}],
             "ref_gates": [{"name": "X", "target": [0], "control": None, "k": None, "var": False}]}
    s = make_solver(w_ref)
    e = quiet(s.energy_estimation, [0.0])
    eo = quiet(s.operator_expectation, s.qubit_hamiltonian, [0.0])
    ck.case("witnesses", "reference-override", nontrivial=True, sample={"E": e, "opexp": eo})
    if abs(e + 1) > TOL:
        ck.violation("C08/energy_estimation/witness-ref/value-differs", "E = %r, expected -1" % e, {"kind": "witness-ref"}, True)
    if abs(eo - e) > TOL:
        ck.violation(SIG_REF, "witness of C08_operator_expectation_asis_ignores_reference: ref_state = X on qubit 0, H = Z0: energy_estimation = "
                     "%.6f, operator_expectation(H) = %.6f" % (e, eo), {"kind": "witness-ref"}, found_input=True)


# ------------------------------------------------------------------------------------------ run
def run(ck):
    from translator import vqe_tables
    from translator.common import TranslateError
    ck.trusted = ["Coq 8.16.1 kernel (coqc), vm_compute",
                  "axioms of the real-number instance: ClassicalDedekindReals.sig_forall_dec, sig_not_dec, functional_extensionality_dep",
                  "translator/vqe_tables.py + translator/common.py (ast pattern match of vqe_solver.py)",
                  "harness/props/C08.py + harness/np_sim.py (independent numpy statevector / Pauli algebra, canonical printers)",
                  "C02 theorems (Linq/ExpPathsProofs.routes_agree) for the backend's evaluation routes; cirq for the native route (correspondence only)",
                  "tangelo fermion_to_qubit_mapping (C03) to encode the independently built N / Sz / S^2 operators; numpy eigvalsh"]
    ck.assumptions = ["exact mode (n_shots=None, no noise): frequencies are Born weights",
                      "the spectral theorem is NOT formalised: C08_rayleigh_from_eigenbasis assumes the eigen-expansion; lambda_min comes from numpy",
                      "backend, encodings, ansatz update are abstract in the operator_expectation state machine (e_expect, e_map, e_update)",
                      "Coq-evaluated correspondence only for VariationalCircuitAnsatz solvers on <= 3 qubits (pi/8 grid); built-in ansaetze by the "
                      "numpy oracle (H2, H4 sto-3g, <= 8 qubits)"]
    ck.notes["outside_theorems"] = ["the optimiser (simulate)", "spectral theorem", "molecular integrals (C04)", "encodings (C03)",
                                    "sampled / noisy evaluation", "get_rdm"]
    tables = "regenerated from /repo"
    try:
        facts = vqe_tables.extract(REPO)
    except TranslateError as e:
        ck.violation("C08/translator/vqe_tables", "translator no longer recognises vqe_solver.py: %s" % e,
                     {"kind": "translator", "error": str(e)}, found_input=False)
        facts = dict(vqe_tables.FALLBACK)
        tables = "FALLBACK constants of translator/vqe_tables.py (the translator refused the source: %s)" % e
    ck.notes["tables"] = tables
    ck.notes["source_facts"] = {k: facts[k] for k in ("restore_in_finally", "opexp_uses_reference", "defl_key_is_ansatz_width",
                                                       "scbk_case_sensitive", "defaults_guarded_by_scbk", "opexp_circuit",
                                                       "defl_key_width", "scbk_test")}
    import time
    tm = {}

    def guarded(name, f, *a):
        """every stream runs, whatever happened before; a crash of one stream is reported and the next one starts"""
        t = time.time()
        try:
            f(*a)
        except Exception as ex:
            import traceback
            tb = traceback.format_exc()
            ck.violation("C08/harness/%s-did-not-complete" % name, "stream %s stopped: %r" % (name, ex),
                         {"kind": "crash", "stream": name, "traceback": tb[-3000:]}, found_input=False)
        tm[name] = round(time.time() - t, 1)

    def proof_step():
        ck.write_gen("VqeTables", vqe_tables.emit(facts))
        res = ck.prove()
        if not res.ok:
            ck.proof_violation(res, "(tables: %s)" % tables)
    guarded("prove", proof_step)
    try:
        with contextlib.redirect_stdout(io.StringIO()):
            import tangelo  # noqa
            from tangelo.algorithms.variational import VQESolver  # noqa
    except Exception as e:
        ck.violation("C08/import", "tangelo cannot be imported: %r" % e, {"kind": "import"}, found_input=False)
        ck.notes["timing_s"] = tm
        return
    quick = ck.tier == "quick"
    # the model evaluation (Chem/VqeRun.v) does not depend on the generated file: it runs with the variant selected by `facts`
    guarded("witnesses", witness_cases, ck, facts)
    guarded("model", run_model_stream, ck, facts, 28 if quick else 240)
    guarded("restore", restore_cases, ck)
    guarded("solver", lambda: run_solver_stream(ck, solver_configs(ck.rng, ck.tier), 1 if quick else 3))
    guarded("overrides", run_override_stream, ck, ck.tier)
    guarded("histories", run_history_stream, ck, ck.tier)
    ck.notes["timing_s"] = tm


# ------------------------------------------------------------------------------------------ replay
class _Rec:
    def __init__(self):
        import random
        self.violations = []
        self.rng = random.Random(0)
        self.tier = "quick"
        self.notes = {}
        self.not_evaluated = 0

    def violation(self, sig, desc, replay, found_input=True):
        self.violations.append(sig)
        print("FAIL", sig, desc[:700])

    def case(self, *a, **k):
        pass

    def stream(self, *a, **k):
        return {}


def replay(data):
    r = data["replay"]
    kind = r.get("kind")
    ck = _Rec()
    with contextlib.redirect_stdout(io.StringIO()):
        import tangelo  # noqa
    if kind in ("solver", "deflation"):
        if kind == "deflation":
            print("deflation case: re-run the check with the same seed (circuits are derived from the solver); parameters:", json.dumps(r)[:600])
            return 1
        s = make_solver(r["cfg"])
        theta = r["theta"] or [0.0] * s.ansatz.n_var_params
        ev = eval_point(s, theta)
        print("energy_estimation = %.12f ; independent value = %.12f" % (ev["E"], ev["spec"].real))
        if abs(ev["E"] - ev["spec"]) > TOL:
            ck.violations.append("value")
        lm = lambda_min(s, ev["terms"], ev["n"])
        if lm is not None:
            print("lambda_min = %.12f" % lm)
            if ev["E"] < lm - 1e-9:
                ck.violations.append("below")
        if s.molecule is not None and s.molecule.mf_energy is not None and not any(theta):
            print("mean-field energy = %.12f" % s.molecule.mf_energy)
            if r["cfg"].get("ansatz") in UCC_LIKE + ("pUCCD", "UCC1", "UCC3") and abs(ev["E"] - s.molecule.mf_energy) > 1e-6:
                ck.violations.append("mean-field")
        generic = list(ck.violations)
        if s.molecule is not None:
            sym_checks(ck, s, r["cfg"], theta, ev, {"kind": "solver", "cfg": r["cfg"], "theta": theta})
        target = data.get("signature")
        # violations with another signature (e.g. recorded known findings met on the way) do not count
        return 1 if generic or target in ck.violations else 0
    if kind == "history":
        seq = [tuple(x) for x in r["seq"]]
        bad = run_history(ck, r["cfg"], r["thetas"], seq, record=False)
        for b in bad:
            print("call %d %s(theta_%d): returned %.10f, independent value %.10f" % b)
        if not bad:
            print("every call of the history returns the value of the vector passed to it")
        return 1 if bad else 0
    if kind == "restore":
        restore_cases(ck)
        return 1 if data.get("signature") in ck.violations else 0
    if kind == "model":
        s = make_solver(r["cfg"])
        theta = [g.parameter for g in s.ansatz.circuit._variational_gates]
        ev = eval_point(s, theta)
        eo = quiet(s.operator_expectation, s.qubit_hamiltonian, theta)
        print("energy_estimation = %.12f ; <psi|H|psi> + sum coeff*overlap = %.12f ; operator_expectation(H) = %.12f ; plain = %.12f"
              % (ev["E"], ev["spec"].real, eo, ev["plain"].real))
        return 1 if abs(ev["E"] - ev["spec"]) > TOL or abs(eo - ev["plain"]) > TOL else 0
    if kind in ("witness-width", "witness-ref", "witness"):
        class _CK(_Rec):
            def coq_eval(self, *a, **k):
                return ["", "", "", ""]
        ck = _CK()
        witness_cases(ck, {"defl_key_is_ansatz_width": True})
        return 1 if ck.violations else 0
    print(json.dumps(r, indent=1)[:4000])
    return 1
