"""C04 — qubit Hamiltonians reproduce mean-field and full-CI energies (DESIGN §7.C04).

  regenerate  gen/ChemTables.v (every transpose(a,b,c,d) tuple, contraction factors, core-orbital table)
  prove       coq/props/C04.v: partition, electron/spin bookkeeping, folding of frozen orbitals (restricted
              and UHF), spin-orbital assembly, index conventions over the regenerated tuples
  correspond  a stub IntegralSolver hands prescribed mo_occ and small-integer integrals to the real
              SecondQuantizedMolecule; partition lists, electron/spin bookkeeping, active-space integrals and
              fermionic_hamiltonian.terms must equal the Coq model's (Chem/ChemQ.v c04_r / c04_u) exactly
  oracle      the property on the implementation alone: energy of the reference determinant from the full
              integrals (textbook chemist formula, exact rationals) == <D|H_active|D> from the implementation's
              fermionic Hamiltonian; alpha/beta electron counts recounted from mo_occ
  support     (numerical, never proof) real PySCF molecules: mean-field energy == expectation of the qubit
              Hamiltonian in the encoded reference state; thorough: lowest sector eigenvalue == FCISolver,
              invariance under active-space orbital rotations
"""
import json
import math
from fractions import Fraction

import numpy as np

from harness.lib import REPO, VERIF
from harness import chem_common as CC

LEVEL = "proof"

PREAMBLE = """From Coq Require Import String ZArith List Bool.
From Tangelo Require Import Num.Show.
From Tangelo Require Import Chem.Integrals.
From Tangelo Require Import Chem.Rdm.
From Tangelo Require Import Chem.ChemQ.
From Gen Require Import ChemTables.
Import ListNotations.
Open Scope string_scope.
"""

ELEMENT_SETS = [("H", "H"), ("Li", "H"), ("H", "O", "H"), ("Na", "H"), ("Xx", "C")]
CORE_ORBITALS_PY = None   # filled from the translator output (for tags only)


# ------------------------------------------------------------------------------------------ specifications
def gen_spec(rng, n, uhf, elements, occ_idx=()):
    """-> (python value, Coq fspec term, kind)"""
    def items(vals, np_at=(), bad_at=None):
        py, cq = [], []
        for k, v in enumerate(vals):
            if bad_at is not None and k == bad_at[0]:
                py.append(bad_at[1])
                cq.append("FBad")
            elif k in np_at:
                py.append(np.int64(v))
                cq.append("(FNp (%d)%%Z)" % v)
            else:
                py.append(int(v))
                cq.append("(FI (%d)%%Z)" % v)
        return py, "[" + "; ".join(cq) + "]"

    def some_list():
        pool = list(range(n))
        if occ_idx and rng.random() < 0.8:
            pool.remove(rng.choice(list(occ_idx)))      # keep at least one occupied orbital active (mostly)
        k = rng.randint(0, min(len(pool), 3))
        l = sorted(rng.sample(pool, k))
        style = rng.choice(["sorted", "sorted", "unsorted", "oob", "dup"])
        if style == "unsorted":
            rng.shuffle(l)
        elif style == "oob":
            l.insert(rng.randint(0, len(l)), rng.choice([-1, -2, n, n + 2]))
        elif style == "dup" and l:
            l.insert(rng.randint(0, len(l)), rng.choice(l))
        else:
            style = "sorted" if style == "dup" else style
        return l, style

    r = rng.random()
    if r < 0.08:
        return None, "FNone", "none"
    if r < 0.26:
        k = rng.randint(0, max(0, len(occ_idx) - 1)) if rng.random() < 0.7 else rng.randint(-1, n + 1)
        return (np.int64(k) if rng.random() < 0.2 else k), "(FInt (%d)%%Z)" % k, "int"
    if r < 0.32:
        return "frozen_core", "(FInt (Z.of_nat (frozen_core_count core_orbitals [%s])))" % "; ".join('"%s"' % e for e in elements), "frozen_core"
    if r < 0.40:
        v = rng.choice(["abc", 1.5, (0, 1), {0}])
        return v, "FOther", "other"
    if (not uhf and r < 0.94) or (uhf and r < 0.46):
        l, style = some_list()
        q = rng.random()
        if q < 0.10 and l:
            py, cq = items(l, np_at={rng.randrange(len(l))})
            return py, "(FList %s)" % cq, "list-np"
        if q < 0.20 and l:
            py, cq = items(l, bad_at=(rng.randrange(len(l)), rng.choice([1.5, "a", None, [0]])))
            return py, "(FList %s)" % cq, "list-bad"
        py, cq = items(l)
        return py, "(FList %s)" % cq, "list-" + style
    la, sa = some_list()
    lb, sb = some_list()
    q = rng.random()
    if q < 0.15 and la:
        pa, ca = items(la, np_at={rng.randrange(len(la))})
        pb, cb = items(lb)
        return [pa, pb], "(FPair %s %s)" % (ca, cb), "pair-np"
    if q < 0.25 and lb:
        pa, ca = items(la)
        pb, cb = items(lb, bad_at=(rng.randrange(len(lb)), rng.choice([1.5, "a", None])))
        return [pa, pb], "(FPair %s %s)" % (ca, cb), "pair-bad"
    pa, ca = items(la)
    pb, cb = items(lb)
    st = "dup" if "dup" in (sa, sb) else ("oob" if "oob" in (sa, sb) else ("unsorted" if "unsorted" in (sa, sb) else "sorted"))
    return [pa, pb], "(FPair %s %s)" % (ca, cb), "pair-" + st


def gen_case(rng, tier, uhf):
    nmax = 4 if tier == "quick" else 5
    n = rng.randint(3, nmax) if rng.random() < 0.85 else 2
    elements = rng.choice(ELEMENT_SETS)
    sym = rng.random() < 0.6
    core = rng.randint(-3, 3)
    if not uhf:
        nd = rng.randint(1, n - 1) if rng.random() < 0.85 else rng.randint(0, n)
        ns = rng.randint(0, min(2, n - nd)) if rng.random() < 0.35 else 0
        occ = [2] * nd + [1] * ns + [0] * (n - nd - ns)
        if rng.random() < 0.12:
            rng.shuffle(occ)
        spin = ns if rng.random() < 0.9 else rng.randint(0, 3)
        h = CC.rand_h(rng, n, sym)
        eri = CC.rand_eri(rng, n, sym)
        spec_py, spec_cq, kind = gen_spec(rng, n, False, elements, [i for i in range(n) if occ[i] > 0])
        return {"uhf": False, "n": n, "occ": occ, "spin": spin, "core": core, "h": h, "eri": eri, "sym": sym,
                "spec_py": spec_py, "spec_cq": spec_cq, "kind": kind, "elements": elements}
    na_el = rng.randint(1, n - 1) if rng.random() < 0.85 else rng.randint(0, n)
    nb_el = rng.randint(max(0, na_el - 2), na_el - 1) if (na_el >= 1 and rng.random() < 0.6) else rng.randint(max(0, na_el - 2), na_el)
    occa = [1] * na_el + [0] * (n - na_el)
    occb = [1] * nb_el + [0] * (n - nb_el)
    if rng.random() < 0.1:
        rng.shuffle(occb)
    ha, hb = CC.rand_h(rng, n, sym), CC.rand_h(rng, n, sym)
    eaa, ebb = CC.rand_eri(rng, n, sym), CC.rand_eri(rng, n, sym)
    eab = CC.rand_eri(rng, n, False)
    if sym:   # (ij|kl) with ij alpha, kl beta: symmetric within each pair
        eab = eab + eab.transpose(1, 0, 2, 3)
        eab = eab + eab.transpose(0, 1, 3, 2)
    spec_py, spec_cq, kind = gen_spec(rng, n, True, elements, [i for i in range(n) if occa[i] > 0])
    a_only = [i for i in range(n) if occa[i] > 0 and occb[i] == 0]
    b_only = [i for i in range(n) if occb[i] > 0 and occa[i] == 0]
    if (a_only or b_only) and rng.random() < 0.45:
        # per-spin lists that reach into the OTHER channel's occupied-only range: the beta list contains an orbital that
        # is alpha-occupied but beta-virtual (and/or the alpha list one that is beta-occupied but alpha-virtual)
        la = sorted(rng.sample(range(n), rng.randint(0, min(2, n))))
        lb = sorted(rng.sample(range(n), rng.randint(0, min(2, n))))
        if a_only:
            lb = sorted(set(lb) | {rng.choice(a_only)})
            if rng.random() < 0.5:
                la = [x for x in la if x not in a_only]
        if b_only:
            la = sorted(set(la) | {rng.choice(b_only)})
        both_occ = [i for i in range(n) if occa[i] > 0 and occb[i] > 0]
        if both_occ and rng.random() < 0.7:      # keep some electrons active
            keep = rng.choice(both_occ)
            la = [x for x in la if x != keep]
            lb = [x for x in lb if x != keep]
        spec_py = [[int(x) for x in la], [int(x) for x in lb]]
        spec_cq = "(FPair [%s] [%s])" % ("; ".join("(FI (%d)%%Z)" % x for x in la), "; ".join("(FI (%d)%%Z)" % x for x in lb))
        kind = "pair-cross-spin"
    oa = [i for i in range(n) if occa[i] > 0]
    ob = [i for i in range(n) if occb[i] > 0]
    if len(oa) >= 1 and len(ob) >= 1 and rng.random() < 0.22:
        # more occupied alpha than beta orbitals frozen: the active space holds more beta than alpha electrons
        # (negative active spin, odd and even)
        want = rng.choice([-1, -1, -2, -3])
        nbf = rng.randint(0, max(0, len(ob) - 1))                  # frozen occupied beta
        naf = len(oa) - (len(ob) - nbf) - want                     # active alpha = active beta + want
        naf = max(0, min(len(oa), naf))
        if (len(oa) - naf) - (len(ob) - nbf) < 0:
            fa = sorted(rng.sample(oa, naf))
            fb = sorted(rng.sample(ob, nbf))
            la = fa + [i for i in range(n) if occa[i] == 0 and rng.random() < 0.2]
            lb = fb + [i for i in range(n) if occb[i] == 0 and rng.random() < 0.2]
            spec_py = [[int(x) for x in la], [int(x) for x in lb]]
            spec_cq = "(FPair [%s] [%s])" % ("; ".join("(FI (%d)%%Z)" % x for x in la), "; ".join("(FI (%d)%%Z)" % x for x in lb))
            kind = "pair-negative-active-spin"
            if not sym:
                sym = True
                ha, hb = CC.rand_h(rng, n, True), CC.rand_h(rng, n, True)
                eaa, ebb = CC.rand_eri(rng, n, True), CC.rand_eri(rng, n, True)
                eab = CC.rand_eri(rng, n, False)
                eab = eab + eab.transpose(1, 0, 2, 3)
                eab = eab + eab.transpose(0, 1, 3, 2)
    elif len(oa) >= 2 and len(ob) >= 1 and rng.random() < 0.35:
        # DIFFERENT non-empty frozen occupied sets for alpha and beta (the frozen-frozen alpha-beta Coulomb term of the
        # core constant is then not symmetric under exchanging the two sets), optionally with frozen virtuals
        fb = sorted(rng.sample(ob, rng.randint(1, len(ob))))
        ka = rng.randint(1, len(oa) - (1 if len(fb) == len(ob) else 0))
        fa = sorted(rng.sample(oa, ka))
        if fa == fb:
            alt = [x for x in oa if x not in fa]
            fa = sorted(fa[:-1] + [alt[0]]) if alt else fa
        if fa != fb:
            la = fa + [i for i in range(n) if occa[i] == 0 and rng.random() < 0.25]
            lb = fb + [i for i in range(n) if occb[i] == 0 and rng.random() < 0.25]
            if rng.random() < 0.3:
                rng.shuffle(la)
            spec_py = [[int(x) for x in la], [int(x) for x in lb]]
            spec_cq = "(FPair [%s] [%s])" % ("; ".join("(FI (%d)%%Z)" % x for x in la), "; ".join("(FI (%d)%%Z)" % x for x in lb))
            kind = "pair-diff-frozen-occ"
            if not sym:       # the energy oracle needs integrals with the symmetries of real orbitals
                sym = True
                ha, hb = CC.rand_h(rng, n, True), CC.rand_h(rng, n, True)
                eaa, ebb = CC.rand_eri(rng, n, True), CC.rand_eri(rng, n, True)
                eab = CC.rand_eri(rng, n, False)
                eab = eab + eab.transpose(1, 0, 2, 3)
                eab = eab + eab.transpose(0, 1, 3, 2)
    return {"uhf": True, "n": n, "occa": occa, "occb": occb, "spin": na_el - nb_el, "core": core,
            "ha": ha, "hb": hb, "eaa": eaa, "eab": eab, "ebb": ebb, "sym": sym,
            "spec_py": spec_py, "spec_cq": spec_cq, "kind": kind, "elements": elements}


def case_json(c):
    out = {}
    for k, v in c.items():
        if isinstance(v, np.ndarray):
            out[k] = v.astype(int).tolist()
        elif k == "spec_py":
            out[k] = repr(v)
        else:
            out[k] = v
    return json.loads(json.dumps(out, default=str))


# ------------------------------------------------------------------------------------------ implementation
def build_molecule(c):
    if not c["uhf"]:
        g = CC.chem_to_phys(np.asarray(c["eri"], dtype=float))
        return CC.stub_molecule(c["occ"], c["spin"], c["spec_py"], c["core"], np.asarray(c["h"], dtype=float), g,
                                uhf=False, elements=tuple(c["elements"]))
    gs = [CC.chem_to_phys(np.asarray(c[k], dtype=float)) for k in ("eaa", "eab", "ebb")]
    hs = [np.asarray(c["ha"], dtype=float), np.asarray(c["hb"], dtype=float)]
    return CC.stub_molecule([c["occa"], c["occb"]], c["spin"], c["spec_py"], c["core"], hs, gs,
                            uhf=True, elements=tuple(c["elements"]))


def show_part(ao, fo, av, fv):
    return "ao=%s fo=%s av=%s fv=%s" % (CC.show_nats(ao), CC.show_nats(fo), CC.show_nats(av), CC.show_nats(fv))


def impl_string(c):
    """-> (canonical string, molecule or None)"""
    try:
        mol = build_molecule(c)
    except (TypeError, ValueError, NotImplementedError) as e:
        return "Err:" + type(e).__name__, None
    except Exception as e:
        return "Crash:construct:%s:%s" % (type(e).__name__, str(e)[:120]), None
    try:
        return _impl_string_of(c, mol), mol
    except Exception as e:
        return "Crash:observe:%s:%s" % (type(e).__name__, str(e)[:120]), mol


def _impl_string_of(c, mol):
    core, h1, g1 = mol.get_active_space_integrals()
    terms, bad = CC.show_terms(mol.fermionic_hamiltonian.terms)
    if bad:
        terms += " UNEXPECTED-KEYS:%s" % bad[:3]
    ab = mol.n_active_ab_electrons
    if not c["uhf"]:
        fm = mol.frozen_mos
        s = (show_part(mol.active_occupied, mol.frozen_occupied, mol.active_virtual, mol.frozen_virtual)
             + " ab=%d,%d spin=%d nmos=%d nsos=%d fmos=%s" % (ab[0], ab[1], mol.active_spin, mol.n_active_mos, mol.n_active_sos,
                                                              "None" if fm is None else CC.show_nats(fm))
             + " | core=" + CC.show_q(core) + " | h=" + CC.show_tensor(h1) + " | g=" + CC.show_tensor(g1)
             + " | terms=" + terms)
    else:
        nm = mol.n_active_mos
        s = ("a:" + show_part(mol.active_occupied[0], mol.frozen_occupied[0], mol.active_virtual[0], mol.frozen_virtual[0])
             + " b:" + show_part(mol.active_occupied[1], mol.frozen_occupied[1], mol.active_virtual[1], mol.frozen_virtual[1])
             + " ab=%d,%d spin=%d nmos=%d,%d nsos=%d" % (ab[0], ab[1], mol.active_spin, nm[0], nm[1], mol.n_active_sos)
             + " | core=" + CC.show_q(core) + " | ha=" + CC.show_tensor(h1[0]) + " | hb=" + CC.show_tensor(h1[1])
             + " | gaa=" + CC.show_tensor(g1[0]) + " | gab=" + CC.show_tensor(g1[1]) + " | gbb=" + CC.show_tensor(g1[2])
             + " | terms=" + terms)
    return s


def model_expr(c):
    if not c["uhf"]:
        g = CC.chem_to_phys(np.asarray(c["eri"], dtype=float))
        return "c04_r %s (%d)%%Z %s (%d)%%Z %s %s" % (CC.coq_nats(c["occ"]), c["spin"], c["spec_cq"], c["core"],
                                                     CC.coq_znest(c["h"]), CC.coq_znest(g))
    gs = [CC.chem_to_phys(np.asarray(c[k], dtype=float)) for k in ("eaa", "eab", "ebb")]
    return "c04_u %s %s %s (%d)%%Z %s %s %s %s %s" % (CC.coq_nats(c["occa"]), CC.coq_nats(c["occb"]), c["spec_cq"], c["core"],
                                                     CC.coq_znest(c["ha"]), CC.coq_znest(c["hb"]),
                                                     CC.coq_znest(gs[0]), CC.coq_znest(gs[1]), CC.coq_znest(gs[2]))


# ------------------------------------------------------------------------------------------ oracle on the implementation
def spec_has_repeat(c):
    v = c["spec_py"]
    def rep(l):
        try:
            l = [int(x) for x in l]
        except Exception:
            return False
        return len(set(l)) != len(l)
    if isinstance(v, list):
        if c["uhf"]:
            return len(v) == 2 and all(isinstance(x, list) for x in v) and (rep(v[0]) or rep(v[1]))
        return rep(v)
    return False


def reference_energy_oracle(c, mol):
    """The property on the implementation: energy of the reference determinant computed from the FULL
    chemist integrals == expectation of the implementation's active-space fermionic Hamiltonian in the
    active reference determinant.  Returns None or a description of the disagreement."""
    terms = mol.fermionic_hamiltonian.terms
    if not c["uhf"]:
        occ = c["occ"]
        oa = [i for i in range(c["n"]) if occ[i] >= 1]
        ob = [i for i in range(c["n"]) if occ[i] == 2]
        e_full = CC.slater_condon_chem(c["core"], np.asarray(c["h"]), np.asarray(c["eri"]), oa, ob)
        act = list(mol.active_mos)
        D = [2 * p for p, o in enumerate(act) if occ[o] >= 1] + [2 * p + 1 for p, o in enumerate(act) if occ[o] == 2]
    else:
        oa = [i for i in range(c["n"]) if c["occa"][i] >= 1]
        ob = [i for i in range(c["n"]) if c["occb"][i] >= 1]
        ha, hb, eaa, eab, ebb = (np.asarray(c[k]) for k in ("ha", "hb", "eaa", "eab", "ebb"))
        e = CC.frac(c["core"])
        for i in oa:
            e += CC.frac(ha[i, i])
        for i in ob:
            e += CC.frac(hb[i, i])
        for i in oa:
            for j in oa:
                e += Fraction(1, 2) * (CC.frac(eaa[i, i, j, j]) - CC.frac(eaa[i, j, j, i]))
        for i in ob:
            for j in ob:
                e += Fraction(1, 2) * (CC.frac(ebb[i, i, j, j]) - CC.frac(ebb[i, j, j, i]))
        for i in oa:
            for j in ob:
                e += CC.frac(eab[i, i, j, j])
        e_full = e
        acta, actb = list(mol.active_mos[0]), list(mol.active_mos[1])
        D = [2 * p for p, o in enumerate(acta) if c["occa"][o] >= 1] + [2 * p + 1 for p, o in enumerate(actb) if c["occb"][o] >= 1]
    e_act = CC.det_expectation(terms, D)
    if e_act != e_full:
        return "reference determinant: full-space energy %s, active-space <D|H|D> %s" % (e_full, e_act)
    # the occupation vector Tangelo itself builds for the reference state (Jordan-Wigner, alternating order = plain
    # spin-orbital occupations) must be this determinant
    c["_e_full"] = e_full
    if not c["uhf"]:
        if c["spin"] != sum(1 for x in c["occ"] if x == 1):
            return None       # declared spin inconsistent with the occupation: no reference determinant is defined by it
        aocc = [c["occ"][o] for o in mol.active_occupied]
        if aocc != sorted(aocc, reverse=True):
            c["_nonaufbau"] = True
            return None       # non-aufbau stub occupation (singly before doubly occupied): outside what a mean-field produces
    from tangelo.toolboxes.qubit_mappings.statevector_mapping import get_vector
    vec = get_vector(mol.n_active_sos, mol.n_active_electrons, "JW", up_then_down=False, spin=mol.active_spin)
    Dt = sorted(int(i) for i, b in enumerate(vec) if b)
    if Dt != sorted(D):
        return ("get_vector(n_active_sos=%d, n_active_electrons=%d, spin=active_spin=%d) occupies spin-orbitals %s, the reference determinant of the "
                "occupations is %s (energy %s instead of %s)" % (mol.n_active_sos, mol.n_active_electrons, mol.active_spin, Dt, sorted(D),
                                                                CC.det_expectation(terms, Dt), e_full))
    c["_e_full"] = e_full
    return None


ALL_MAPPINGS = [("JW", False), ("JW", True), ("BK", False), ("BK", True), ("scBK", True), ("JKMN", False), ("JKMN", True)]


def encoded_reference_oracle(c, mol):
    """<ref|H_qubit|ref> through the real chain (fermion_to_qubit_mapping + get_reference_circuit + simulator) for EVERY
    encoding and ordering must be the exact energy of the reference determinant."""
    want = float(c["_e_full"])
    for mapping, utd in ALL_MAPPINGS:
        e = reference_expectation(mol, mapping, utd)
        if e is None:
            continue
        if abs(e - want) > 1e-8:
            return mapping, "encoded reference state (%s, up_then_down=%s): <ref|H|ref> = %.9f, energy of the reference determinant %.9f (active spin %d)" % (
                mapping, utd, e, want, mol.active_spin)
    return None, None


def spin_class(mol):
    s = mol.active_spin
    return "active-spin-negative-odd" if (s < 0 and s % 2) else ("active-spin-negative-even" if s < 0 else "active-spin-nonnegative")


def partition_oracle(c, mol):
    """The boolean conditions of C04_partition_is_partition evaluated on the lists the implementation produced
    (per spin channel for UHF, each against ITS OWN occupation vector)."""
    chans = []
    if c["uhf"]:
        for e, occ in enumerate((c["occa"], c["occb"])):
            chans.append(("alpha" if e == 0 else "beta", occ, list(mol.active_occupied[e]), list(mol.frozen_occupied[e]),
                          list(mol.active_virtual[e]), list(mol.frozen_virtual[e]), _spec_list(c, e)))
    else:
        chans.append(("restricted", c["occ"], list(mol.active_occupied), list(mol.frozen_occupied), list(mol.active_virtual),
                      list(mol.frozen_virtual), _spec_list(c, None)))
    for name, occ, ao, fo, av, fv, want_frozen in chans:
        n = len(occ)
        ao, fo, av, fv = ([int(x) for x in l] for l in (ao, fo, av, fv))
        allo = ao + fo + av + fv
        if sorted(allo) != list(range(n)):
            return "%s: the four lists %s %s %s %s are not a partition of range(%d)" % (name, ao, fo, av, fv, n)
        if any(occ[i] <= 0 for i in ao + fo):
            return "%s: an orbital listed as occupied has occupation 0 (mo_occ=%s, active_occupied=%s, frozen_occupied=%s)" % (name, occ, ao, fo)
        if any(occ[i] != 0 for i in av + fv):
            return "%s: an orbital listed as virtual is occupied (mo_occ=%s, active_virtual=%s, frozen_virtual=%s)" % (name, occ, av, fv)
        if ao != sorted(ao) or av != sorted(av):
            return "%s: active lists are not increasing: %s %s" % (name, ao, av)
        if want_frozen is not None:
            inside = sorted(set(x for x in want_frozen if 0 <= x < n))
            if sorted(fo + fv) != inside:
                return "%s: frozen lists %s + %s do not hold exactly the requested orbitals %s" % (name, fo, fv, inside)
        if sum(occ[i] for i in ao) + sum(occ[i] for i in fo) != sum(occ):
            return "%s: active + frozen-occupied electrons differ from the electron count" % name
    return None


def _spec_list(c, e):
    """the list of orbitals the specification asks to freeze (channel e for UHF), or None when not a plain list/int"""
    v = c["spec_py"]
    try:
        if v is None:
            return []
        if isinstance(v, (int, np.integer)) and not isinstance(v, bool):
            return list(range(int(v)))
        if isinstance(v, str) and v == "frozen_core":
            return None
        if isinstance(v, list):
            if e is None:
                return [int(x) for x in v]
            return [int(x) for x in v[e]]
    except Exception:
        return None
    return None


def electron_count_oracle(c, mol):
    if c["uhf"]:
        want = (sum(1 for o in mol.active_mos[0] if c["occa"][o] >= 1), sum(1 for o in mol.active_mos[1] if c["occb"][o] >= 1))
    else:
        if c["spin"] != sum(1 for x in c["occ"] if x == 1):
            return None     # spin inconsistent with the occupation: the formula has no defined meaning
        want = (sum(1 for o in mol.active_mos if c["occ"][o] >= 1), sum(1 for o in mol.active_mos if c["occ"][o] == 2))
    got = tuple(int(x) for x in mol.n_active_ab_electrons)
    if got != want or mol.n_active_electrons != sum(want) or mol.active_spin != want[0] - want[1]:
        return "n_active_ab_electrons %s, recount from mo_occ %s" % (got, want)
    return None


def run_stub(ck, n_r, n_u):
    cases = []
    corpus = VERIF / "corpus" / "C04"
    if corpus.exists():
        for f in sorted(corpus.glob("*.json")):
            cases.append(case_from_json(json.loads(f.read_text())["case"]))
    for _ in range(n_r):
        cases.append(gen_case(ck.rng, ck.tier, False))
    for _ in range(n_u):
        cases.append(gen_case(ck.rng, ck.tier, True))
    ck.stream("stub-molecules", "stub IntegralSolver: 2-5 orbitals, RHF/ROHF/UHF occupations (12%% non-aufbau), integer "
              "integrals (60%% with the symmetries of real orbitals), frozen specifications None / int / frozen_core / "
              "list (sorted, unsorted, out of range, repeated, numpy ints, bad elements) / per-spin pairs / other; "
              "non-trivial = accepted with >= 1 frozen occupied and >= 1 active orbital and non-zero two-body integrals")
    impl, exprs = [], []
    enc_budget = [10, 45] if ck.tier == "quick" else [60, 400]     # [sampled non-negative-spin cases, total] through the encoded chain
    for c in cases:
        s, mol = impl_string(c)
        impl.append(s)
        exprs.append(model_expr(c))
        ref = "uhf" if c["uhf"] else "rhf"
        nontrivial = False
        if s.startswith("Crash:"):
            ck.violation("C04/stub/%s/exception/%s/%s" % (ref, s.split(":")[1] + "-" + s.split(":")[2], c["kind"]),
                         "the implementation raised an unexpected exception on a generated molecule: %s" % s,
                         {"kind": "stub", "case": case_json(c)}, found_input=True)
        if mol is not None:
            try:
                msg = partition_oracle(c, mol)
            except Exception as e:
                msg = "partition lists cannot be inspected: %r" % e
            if msg and not spec_has_repeat(c):
                ck.violation("C04/stub/%s/partition/%s" % (ref, c["kind"]), msg, {"kind": "stub", "case": case_json(c)}, found_input=True)
        if mol is not None and not s.startswith("Crash:"):
            fo = mol.frozen_occupied
            nfo = len(fo[0]) + len(fo[1]) if c["uhf"] else len(fo)
            nontrivial = nfo >= 1 and " | terms=" in s and ";" in s.split(" | terms=")[1]
            rep = spec_has_repeat(c)
            if c["sym"] and not rep:
                try:
                    msg = reference_energy_oracle(c, mol)
                except Exception as e:
                    msg = "reference determinant energy cannot be evaluated on the implementation's Hamiltonian: %r" % e
                if msg:
                    ck.violation("C04/stub/%s/reference-energy/%s/%s" % (ref, c["kind"], spin_class(mol)), msg,
                                 {"kind": "stub", "case": case_json(c)}, found_input=True)
                elif (c["uhf"] or (c["spin"] == sum(1 for x in c["occ"] if x == 1) and not c.get("_nonaufbau"))) and mol.n_active_sos <= 8 and (mol.active_spin < 0 or enc_budget[0] > 0 and ck.rng.random() < 0.1) and enc_budget[1] > 0:
                    enc_budget[1] -= 1
                    if mol.active_spin >= 0:
                        enc_budget[0] -= 1
                    try:
                        mp, msg = encoded_reference_oracle(c, mol)
                    except Exception as e:
                        mp, msg = "exception", "encoded reference expectation raised %r" % e
                    ck.notes["stub_encoded_reference_cases"] = ck.notes.get("stub_encoded_reference_cases", 0) + 1
                    if msg:
                        ck.violation("C04/stub/%s/encoded-reference-energy/%s/%s" % (ref, mp, spin_class(mol)), msg,
                                     {"kind": "stub", "case": case_json(c), "encoded": True}, found_input=True)
            elif c["sym"] and rep:
                try:
                    msg = reference_energy_oracle(c, mol)
                except Exception as e:
                    msg = repr(e)
                ck.notes["repeated_index_specs"] = ck.notes.get("repeated_index_specs", 0) + 1
                if msg:
                    ck.notes["repeated_index_energy_differs"] = ck.notes.get("repeated_index_energy_differs", 0) + 1
            try:
                msg = electron_count_oracle(c, mol)
            except Exception as e:
                msg = "electron bookkeeping cannot be read: %r" % e
            if msg:
                ck.violation("C04/stub/%s/electron-count/%s" % (ref, c["kind"]), msg,
                             {"kind": "stub", "case": case_json(c)}, found_input=True)
        ck.case("stub-molecules", json.dumps(case_json(c), sort_keys=True), nontrivial=nontrivial,
                sample={"case": {k: v for k, v in case_json(c).items() if k in ("uhf", "n", "occ", "occa", "occb", "spec_py", "kind")},
                        "impl": s[:300]},
                tags=[ref, "spec:" + c["kind"], "ok" if mol is not None else s.split(":")[0] + ":" + s.split(":")[1] if ":" in s else s,
                      "sym" if c["sym"] else "asym"] + ([spin_class(mol)] if (mol is not None and not s.startswith("Crash:")) else []))
    try:
        model = ck.coq_eval("stub", PREAMBLE, exprs, shard=12, jobs=3)
    except Exception as e:
        ck.violation("C04/correspondence/model-evaluation", "the Coq model could not be evaluated: %s" % str(e)[-600:],
                     {"kind": "model-eval"}, found_input=False)
        return
    for c, a, b in zip(cases, impl, model):
        if a.startswith("Crash:"):
            continue            # already reported with its case
        if a != b:
            part = next((k for k, (x, y) in enumerate(zip(a.split(" | "), b.split(" | "))) if x != y), -1)
            what = ["partition-bookkeeping", "core", "one-body", "two-body", "terms"]
            if a.startswith("Err") or b.startswith("Err"):
                w = "accept-reject"
            elif c["uhf"]:
                w = ["partition-bookkeeping", "core", "one-body", "one-body", "two-body", "two-body", "two-body", "terms"][part] if 0 <= part < 8 else "?"
            else:
                w = what[part] if 0 <= part < 5 else "?"
            ck.violation("C04/correspondence/%s/%s/%s" % ("uhf" if c["uhf"] else "rhf", w, c["kind"]),
                         "model and implementation differ (%s): impl=%s model=%s" % (w, a[:500], b[:500]),
                         {"kind": "stub", "case": case_json(c), "impl": a, "model": b}, found_input=False)


def case_from_json(j):
    c = dict(j)
    for k in ("h", "eri", "ha", "hb", "eaa", "eab", "ebb"):
        if k in c:
            c[k] = np.asarray(c[k], dtype=float)
    c["spec_py"] = eval(c["spec_py"], {"np": np, "int64": np.int64, "__builtins__": {}})  # literals produced by repr()
    return c


# ------------------------------------------------------------------------------------------ PySCF support
def pyscf_cases(ck):
    def chain(n, d):
        return [("H", (0., 0., d * i)) for i in range(n)]
    rng = ck.rng
    fixed = [
        {"name": "H2-RHF", "xyz": chain(2, 0.74), "q": 0, "spin": 0, "uhf": False, "frozen": None},
        {"name": "H3-ROHF-doublet", "xyz": [("H", (0., 0., 0.)), ("H", (0., 0., 0.9)), ("H", (0.3, 0., 1.9))], "q": 0, "spin": 1, "uhf": False, "frozen": None},
        {"name": "H4-RHF-frozen[0,3]", "xyz": chain(4, 0.85), "q": 0, "spin": 0, "uhf": False, "frozen": [0, 3]},
        {"name": "H4+-UHF-frozen[[0],[]]", "xyz": chain(4, 0.9), "q": 1, "spin": 1, "uhf": True, "frozen": [[0], []]},
        {"name": "H4-RHF-bent", "xyz": [("H", (0., 0., 0.)), ("H", (0., 0., 0.9)), ("H", (0.4, 0., 1.8)), ("H", (0.9, 0.2, 2.6))], "q": 0, "spin": 0,
         "uhf": False, "frozen": None},
        {"name": "H4+-ROHF-doublet-bent-frozen[3]", "xyz": [("H", (0., 0., 0.)), ("H", (0., 0., 0.9)), ("H", (0.4, 0., 1.8)), ("H", (0.9, 0.2, 2.6))], "q": 1,
         "spin": 1, "uhf": False, "frozen": [3]},
        # high-spin restricted open shells with frozen orbitals (FCISolver then goes through its CAS path)
        {"name": "H4-ROHF-triplet-frozen[3]", "xyz": chain(4, 0.9), "q": 0, "spin": 2, "uhf": False, "frozen": [3]},
        {"name": "H4-ROHF-triplet-frozen[0]", "xyz": chain(4, 1.0), "q": 0, "spin": 2, "uhf": False, "frozen": [0]},
        {"name": "H5-ROHF-quartet-frozen[0,4]", "xyz": chain(5, 0.95), "q": 0, "spin": 3, "uhf": False, "frozen": [0, 4]},
        {"name": "H6-ROHF-quintet-frozen[0,5]", "xyz": chain(6, 1.0), "q": 0, "spin": 4, "uhf": False, "frozen": [0, 5]},
        # genuinely open-shell UHF with DIFFERENT non-empty frozen occupied sets for alpha and beta
        {"name": "H4-UHF-triplet-frozen[[1],[0]]", "xyz": chain(4, 0.9), "q": 0, "spin": 2, "uhf": True, "frozen": [[1], [0]]},
        {"name": "H4-UHF-triplet-frozen[[0,1],[0]]", "xyz": chain(4, 0.9), "q": 0, "spin": 2, "uhf": True, "frozen": [[0, 1], [0]]},
        {"name": "H3-UHF-doublet-frozen[[1],[0]]", "xyz": chain(3, 0.95), "q": 0, "spin": 1, "uhf": True, "frozen": [[1], [0]]},
        # unequal numbers of active orbitals per spin, two active alpha electrons; a one-electron UHF molecule
        {"name": "H5-UHF-quartet-frozen[[0,1],[0]]", "xyz": chain(5, 0.9), "q": 0, "spin": 3, "uhf": True, "frozen": [[0, 1], [0]]},
        {"name": "H4-UHF-triplet-frozen[[0],[]]", "xyz": chain(4, 0.9), "q": 0, "spin": 2, "uhf": True, "frozen": [[0], []]},
        {"name": "H2+-UHF-one-electron", "xyz": chain(2, 1.0), "q": 1, "spin": 1, "uhf": True, "frozen": None},
        # more occupied alpha than beta orbitals frozen: negative active spin (-1, -1, -2), all encodings
        {"name": "H3-UHF-doublet-frozen[[0,1],[]]", "xyz": chain(3, 0.95), "q": 0, "spin": 1, "uhf": True, "frozen": [[0, 1], []], "all_mappings": True},
        {"name": "H4-UHF-triplet-frozen[[0,1,2],[3]]", "xyz": chain(4, 0.9), "q": 0, "spin": 2, "uhf": True, "frozen": [[0, 1, 2], [3]], "all_mappings": True},
        {"name": "H4-UHF-singlet-frozen[[0,1],[3]]", "xyz": chain(4, 1.3), "q": 0, "spin": 0, "uhf": True, "frozen": [[0, 1], [3]], "all_mappings": True},
    ]
    if ck.tier == "quick":
        return fixed
    out = list(fixed)
    for k in range(24):
        n = rng.choice([2, 3, 4, 4])
        d = rng.uniform(0.6, 1.6)
        xyz = [("H", (rng.uniform(-0.15, 0.15), rng.uniform(-0.15, 0.15), d * i)) for i in range(n)]
        q = rng.choice([0, 0, 1, -1]) if n > 2 else 0
        nel = n - q
        if nel < 1:
            q, nel = 0, n
        spin = nel % 2 if rng.random() < 0.8 else (nel % 2) + 2
        if spin > nel or spin > 2 * n - nel:
            spin = nel % 2
        uhf = rng.random() < 0.35
        frozen = None
        r = rng.random()
        if r < 0.35 and n >= 3:
            frozen = sorted(rng.sample(range(n), rng.randint(1, n - 2)))
            if uhf:
                frozen = [frozen, sorted(rng.sample(range(n), rng.randint(0, n - 2)))]
        elif r < 0.5 and n >= 3:
            frozen = 1
        out.append({"name": "H%d(q=%d,spin=%d,%s)-rand%d" % (n, q, spin, "UHF" if uhf else "R(O)HF", k), "xyz": xyz, "q": q,
                    "spin": spin, "uhf": uhf, "frozen": frozen})
    for k in range(6):
        n = rng.choice([4, 4, 5])
        d = rng.uniform(0.8, 1.4)
        spin = 2 if n == 4 else rng.choice([1, 3])
        nd = (n - spin) // 2                                  # doubly occupied orbitals 0..nd-1, singly nd..nd+spin-1
        cand = list(range(nd)) + list(range(nd + spin, n))
        fr = sorted(rng.sample(cand, rng.randint(1, max(1, len(cand) - 1)))) if cand else None
        out.append({"name": "H%d-ROHF-spin%d-frozen%s-rand%d" % (n, spin, fr, k), "xyz": chain(n, d), "q": 0, "spin": spin, "uhf": False, "frozen": fr})
    for k in range(6):
        n = rng.choice([4, 4, 5])
        d = rng.uniform(0.8, 1.3)
        spin = 2 if n == 4 else rng.choice([1, 3])
        na, nb = (n + spin) // 2, (n - spin) // 2
        fb = sorted(rng.sample(range(nb), rng.randint(1, nb))) if nb else []
        fa = sorted(rng.sample(range(na), rng.randint(1, na - 1)))
        if fa == fb:
            fa = sorted(set(range(na)) - set(fa))[:max(1, len(fa))] or fa
        out.append({"name": "H%d-UHF-spin%d-frozen%s-rand%d" % (n, spin, [fa, fb], k), "xyz": chain(n, d), "q": 0, "spin": spin, "uhf": True, "frozen": [fa, fb]})
    out.append({"name": "H5-UHF-doublet-frozen[[0,1],[]]", "xyz": chain(5, 0.95), "q": 0, "spin": 1, "uhf": True, "frozen": [[0, 1], []], "all_mappings": True})
    out.append({"name": "H5-UHF-quartet-frozen[[0,1,2,3],[4]]", "xyz": chain(5, 1.0), "q": 0, "spin": 3, "uhf": True, "frozen": [[0, 1, 2, 3], [4]], "all_mappings": True})
    for k in range(5):
        n = rng.choice([3, 4, 4, 5])
        spin = n % 2 if rng.random() < 0.6 else n % 2 + 2
        na, nb = (n + spin) // 2, (n - spin) // 2
        if nb < 1 or na - nb + 1 > na:
            continue
        kf = rng.randint(na - nb + 1, na)                      # frozen occupied alpha orbitals: active alpha < active beta
        fa = sorted(rng.sample(range(na), kf))
        fb = [n - 1] if rng.random() < 0.5 else []
        out.append({"name": "H%d-UHF-spin%d-frozen%s-negspin%d" % (n, spin, [fa, fb], k), "xyz": chain(n, rng.uniform(0.85, 1.3)), "q": 0, "spin": spin,
                    "uhf": True, "frozen": [fa, fb], "all_mappings": True})
    out.append({"name": "H5-UHF-doublet-frozen[[0,2],[1,4]]", "xyz": chain(5, 0.95), "q": 0, "spin": 1, "uhf": True, "frozen": [[0, 2], [1, 4]]})
    out.append({"name": "LiH-RHF-frozen_core", "xyz": [("Li", (0., 0., 0.)), ("H", (0., 0., rng.uniform(1.4, 1.8)))], "q": 0, "spin": 0,
                "uhf": False, "frozen": "frozen_core"})
    out.append({"name": "LiH-RHF-frozen[0,3,4]", "xyz": [("Li", (0., 0., 0.)), ("H", (0., 0., 1.6))], "q": 0, "spin": 0,
                "uhf": False, "frozen": [0, 3, 4]})
    return out


def reference_expectation(mol, mapping, up_then_down):
    from tangelo.toolboxes.qubit_mappings.mapping_transform import fermion_to_qubit_mapping
    from tangelo.toolboxes.qubit_mappings.statevector_mapping import get_reference_circuit
    from tangelo.linq import get_backend
    qu = fermion_to_qubit_mapping(mol.fermionic_hamiltonian, mapping, mol.n_active_sos, mol.n_active_electrons,
                                  up_then_down, mol.active_spin)
    circ = get_reference_circuit(mol.n_active_sos, mol.n_active_electrons, mapping, up_then_down, mol.active_spin)
    if circ.size == 0:          # all-zero encoded vector: an empty circuit needs its width to be simulated
        from tangelo.linq import Circuit
        from tangelo.toolboxes.qubit_mappings.mapping_transform import get_qubit_number
        nq = get_qubit_number(mapping, mol.n_active_sos)
        if nq < 1:
            return None
        circ = Circuit(n_qubits=nq)
    return get_backend("cirq").get_expectation_value(qu, circ)


def _jw_matrix(fh, nq):
    import openfermion as of
    op = of.FermionOperator()
    for k, v in fh.terms.items():
        op += of.FermionOperator(k, v)
    return of.get_sparse_operator(op, n_qubits=nq).toarray()


def _lowest_in(mat, nq, pred):
    keep = []
    for idx in range(2 ** nq):
        bits = [(idx >> (nq - 1 - q)) & 1 for q in range(nq)]     # openfermion: qubit 0 is the most significant bit
        if pred(bits):
            keep.append(idx)
    if not keep:
        raise ValueError("empty sector")
    sub = mat[np.ix_(keep, keep)]
    return float(np.linalg.eigvalsh((sub + sub.conj().T) / 2)[0])


def target_sector(mol):
    """(n_alpha, n_beta) of the ACTIVE space and of the full space, recounted from the occupations / charge / spin,
    not taken from the molecule's own bookkeeping properties."""
    if mol.uhf:
        occ = np.asarray(mol.mo_occ)
        full = (int(round(occ[0].sum())), int(round(occ[1].sum())))
        act = (full[0] - len(mol.frozen_occupied[0]), full[1] - len(mol.frozen_occupied[1]))
    else:
        n = int(mol.n_electrons)
        full = ((n + mol.spin) // 2, (n - mol.spin) // 2)
        nf = len(mol.frozen_occupied)
        act = (full[0] - nf, full[1] - nf)
    return act, full


def sector_ground_energy(mol, both=False):
    """lowest eigenvalue of the ACTIVE-space fermionic Hamiltonian (JW matrix from openfermion) in the target
    (n_alpha, n_beta) sector.  both=True: also the value with the padding spin-orbitals kept empty (UHF molecules with
    different numbers of active orbitals per spin are padded to 2*max(n_a, n_b) spin-orbitals)."""
    nq = mol.n_active_sos
    (na, nb), _ = target_sector(mol)
    mat = _jw_matrix(mol.fermionic_hamiltonian, nq)
    e_all = _lowest_in(mat, nq, lambda bits: sum(bits[0::2]) == na and sum(bits[1::2]) == nb)
    if not both:
        return e_all
    pad = []
    if mol.uhf:
        nma, nmb = mol.n_active_mos
        pad = [2 * p for p in range(nma, nq // 2)] + [2 * p + 1 for p in range(nmb, nq // 2)]
    e_nopad = e_all if not pad else _lowest_in(mat, nq, lambda bits: sum(bits[0::2]) == na and sum(bits[1::2]) == nb
                                               and not any(bits[x] for x in pad))
    return e_all, e_nopad, pad


def sector_spectrum(mol):
    """all eigenvalues of the active-space Hamiltonian in the target (n_alpha, n_beta) sector (small sizes only)"""
    nq = mol.n_active_sos
    (na, nb), _ = target_sector(mol)
    mat = _jw_matrix(mol.fermionic_hamiltonian, nq)
    keep = [i for i in range(2 ** nq) if (lambda b: sum(b[0::2]) == na and sum(b[1::2]) == nb)([(i >> (nq - 1 - q)) & 1 for q in range(nq)])]
    sub = mat[np.ix_(keep, keep)]
    return [float(x) for x in np.linalg.eigvalsh((sub + sub.conj().T) / 2)]


def projected_full_space_energy(mol):
    """Independent 'full CI with the same frozen orbitals': the FULL-space Hamiltonian (nothing folded) restricted to the
    basis states in which every frozen occupied spin-orbital is filled, every frozen virtual one empty, with the full
    (n_alpha, n_beta).  Uses only the unfolded integrals; equals the active-space sector ground energy iff the folding
    (core constant and one-body terms) is right."""
    full = mol.freeze_mos(None, inplace=False)
    nq = full.n_active_sos
    _, (na, nb) = target_sector(mol)
    if mol.uhf:
        on = [2 * i for i in mol.frozen_occupied[0]] + [2 * i + 1 for i in mol.frozen_occupied[1]]
        off = [2 * i for i in mol.frozen_virtual[0]] + [2 * i + 1 for i in mol.frozen_virtual[1]]
    else:
        on = [q for i in mol.frozen_occupied for q in (2 * i, 2 * i + 1)]
        off = [q for i in mol.frozen_virtual for q in (2 * i, 2 * i + 1)]
    mat = _jw_matrix(full.fermionic_hamiltonian, nq)
    return _lowest_in(mat, nq, lambda bits: sum(bits[0::2]) == na and sum(bits[1::2]) == nb
                      and all(bits[q] for q in on) and not any(bits[q] for q in off))


def run_pyscf_support(ck):
    from tangelo.toolboxes.molecular_computation.molecule import SecondQuantizedMolecule
    tol = 1e-7
    ck.stream("pyscf-support", "SUPPORT (numerical, not proof): real PySCF molecules sto-3g; mean-field energy vs expectation of "
              "the encoded Hamiltonian in the encoded reference state (tolerance 1e-7); lowest eigenvalue in the (n_alpha, n_beta) sector vs "
              "FCISolver.simulate()/get_rdm() (RHF, ROHF doublet..quintet, with and without frozen orbitals) and vs the unfolded Hamiltonian "
              "restricted to the frozen pattern (also UHF with different frozen lists per spin); thorough: more molecules, active-space "
              "rotations; non-trivial = has frozen orbitals or open shell")
    mappings = [("JW", False), ("JW", True)] if ck.tier == "quick" else \
               [("JW", False), ("JW", True), ("BK", False), ("BK", True), ("scBK", True), ("JKMN", False), ("JKMN", True)]
    for pc in pyscf_cases(ck):
        try:
            mol = SecondQuantizedMolecule(pc["xyz"], pc["q"], pc["spin"], basis="sto-3g", frozen_orbitals=pc["frozen"], uhf=pc["uhf"])
        except Exception as e:
            ck.case("pyscf-support", pc["name"], nontrivial=False, tags=["build-failed:" + type(e).__name__])
            ck.notes.setdefault("pyscf_build_failures", []).append("%s: %r" % (pc["name"], e))
            continue
        conv = getattr(mol.mean_field, "converged", True)
        tags = ["uhf" if pc["uhf"] else ("rohf" if pc["spin"] else "rhf"), "frozen" if pc["frozen"] else "no-frozen"]
        ck.case("pyscf-support", pc["name"], nontrivial=bool(pc["frozen"]) or pc["spin"] > 0,
                sample={"molecule": pc["name"], "mf_energy": mol.mf_energy}, tags=tags)
        if not conv:
            ck.notes.setdefault("pyscf_unconverged", []).append(pc["name"])
            continue
        for mapping, utd in (ALL_MAPPINGS if pc.get("all_mappings") else mappings):
            if pc["uhf"] and mapping == "scBK" and not pc.get("all_mappings") and ck.tier == "quick":
                continue
            try:
                e = reference_expectation(mol, mapping, utd)
                if e is None:
                    continue
            except Exception as ex:
                cls = "uhf/one-electron" if (pc["uhf"] and mol.n_electrons == 1) else ("uhf" if pc["uhf"] else "restricted")
                ck.violation("C04/pyscf/%s/hamiltonian-raises/%s" % (cls, type(ex).__name__),
                             "%s: building the qubit Hamiltonian / reference expectation (%s, up_then_down=%s) raised %r" % (pc["name"], mapping, utd, ex),
                             {"kind": "pyscf", "case": json.loads(json.dumps(pc)), "mapping": mapping, "up_then_down": utd}, found_input=True)
                break
            if abs(e - mol.mf_energy) > tol:
                ck.violation("C04/pyscf/reference-energy/%s/%s/%s" % ("uhf" if pc["uhf"] else ("rohf" if pc["spin"] else "rhf"), mapping, spin_class(mol)),
                             "%s: mean-field energy %.10f, <ref|H|ref> %.10f (%s, up_then_down=%s)" % (pc["name"], mol.mf_energy, e, mapping, utd),
                             {"kind": "pyscf", "case": json.loads(json.dumps(pc)), "mapping": mapping, "up_then_down": utd}, found_input=True)
        if mol.n_active_sos > (8 if ck.tier == "quick" else 10):
            continue
        ref = "uhf" if pc["uhf"] else ("rohf-spin%d" % pc["spin"] if pc["spin"] else "rhf")
        pcj = json.loads(json.dumps(pc))
        try:
            e_all, e0, pad = sector_ground_energy(mol, both=True)
        except Exception as ex:
            ck.notes.setdefault("pyscf_sector_errors", []).append("%s: %r" % (pc["name"], ex))
            continue
        (na, nb), _ = target_sector(mol)
        if pc["uhf"] and mol.n_electrons == 1:
            # a one-electron molecule: the UHF and the restricted-open-shell descriptions span the same one-electron space, so the
            # (1,0)-sector spectra of the two qubit Hamiltonians must coincide (finding repaired by /repo commit f1d9c10: the UHF
            # integrals could not be built at all)
            try:
                rmol = SecondQuantizedMolecule(pc["xyz"], pc["q"], pc["spin"], basis="sto-3g", frozen_orbitals=pc["frozen"], uhf=False)
                su = sector_spectrum(mol)
                sr = sector_spectrum(rmol)
                if len(su) != len(sr) or max(abs(a - b) for a, b in zip(su, sr)) > 1e-7 or abs(mol.mf_energy - rmol.mf_energy) > 1e-7:
                    ck.violation("C04/pyscf/uhf/one-electron/spectrum-differs-from-restricted",
                                 "%s: (1,0)-sector spectrum with uhf=True %s, restricted %s; mean-field energies %.9f / %.9f"
                                 % (pc["name"], [round(x, 8) for x in su], [round(x, 8) for x in sr], mol.mf_energy, rmol.mf_energy),
                                 {"kind": "pyscf", "case": pcj, "what": "sector"}, found_input=True)
            except Exception as ex:
                ck.violation("C04/pyscf/uhf/one-electron/restricted-comparison-raises/%s" % type(ex).__name__,
                             "%s: %r" % (pc["name"], ex), {"kind": "pyscf", "case": pcj, "what": "sector"}, found_input=True)
        if pad and e0 - e_all > 1e-7:
            # the comparisons below continue with the padding orbitals kept empty (e0), so that this input class does not
            # hide another failure
            ck.violation("C04/pyscf/uhf/unequal-active-spaces/padding-spin-orbital-lowers-sector-energy",
                         "%s: active orbitals per spin %s are padded to %d spin-orbitals; the lowest eigenvalue of the qubit Hamiltonian in sector "
                         "(n_alpha,n_beta)=(%d,%d) is %.9f, but %.9f when the coefficient-free padding spin-orbital(s) %s stay empty (= full CI with this "
                         "frozen pattern)" % (pc["name"], mol.n_active_mos, mol.n_active_sos, na, nb, e_all, e0, pad),
                         {"kind": "pyscf", "case": pcj, "what": "sector"}, found_input=True)
        if tuple(int(x) for x in mol.n_active_ab_electrons) != (na, nb):
            ck.violation("C04/pyscf/electron-count/%s" % ref, "%s: n_active_ab_electrons %s, recount from occupations/charge/spin %s"
                         % (pc["name"], mol.n_active_ab_electrons, (na, nb)), {"kind": "pyscf", "case": pcj, "what": "sector"}, found_input=True)
        # (1) full CI with the same frozen orbitals, from the unfolded Hamiltonian restricted to the frozen pattern
        if mol.n_sos <= (8 if ck.tier == "quick" else 10) and mol.frozen_mos is not None:
            try:
                ep = projected_full_space_energy(mol)
                if abs(ep - e0) > 1e-7:
                    ck.violation("C04/pyscf/frozen-pattern-energy/%s" % ref, "%s: lowest eigenvalue of the active-space Hamiltonian in sector (%d,%d) is %.9f, the "
                                 "full-space Hamiltonian restricted to the frozen pattern gives %.9f" % (pc["name"], na, nb, e0, ep),
                                 {"kind": "pyscf", "case": pcj, "what": "sector"}, found_input=True)
            except Exception as ex:
                ck.notes.setdefault("pyscf_projection_errors", []).append("%s: %r" % (pc["name"], ex))
        # (2) the classical solver (restricted references only): simulate and get_rdm
        if not pc["uhf"]:
            from tangelo.algorithms.classical.fci_solver import FCISolver
            try:
                fsw = FCISolver(mol)
                efci = fsw.simulate()
                fs = getattr(fsw, "solver", fsw)
                if (fs.n_alpha, fs.n_beta) != (na, nb) or fs.norb != mol.n_active_mos or fs.cas != (mol.frozen_mos is not None):
                    ck.violation("C04/pyscf/fci-arguments", "%s: FCISolver (n_alpha,n_beta,norb,cas)=%s, expected %s" % (
                        pc["name"], (fs.n_alpha, fs.n_beta, fs.norb, fs.cas), (na, nb, mol.n_active_mos, mol.frozen_mos is not None)),
                        {"kind": "pyscf", "case": pcj, "what": "sector"}, found_input=True)
                if abs(efci - e0) > 1e-6:
                    ck.violation("C04/pyscf/fci-energy/%s/%s" % (ref, "frozen" if mol.frozen_mos is not None else "no-frozen"),
                                 "%s: lowest eigenvalue of the qubit Hamiltonian in sector (n_alpha,n_beta)=(%d,%d) is %.9f, FCISolver.simulate() %.9f"
                                 % (pc["name"], na, nb, e0, efci), {"kind": "pyscf", "case": pcj, "what": "sector"}, found_input=True)
                d1, d2 = fsw.get_rdm()
                er = mol.energy_from_rdms(np.array(d1), np.array(d2))
                if abs(er - e0) > 1e-6 or abs(np.trace(np.array(d1)) - (na + nb)) > 1e-6:
                    ck.violation("C04/pyscf/fci-rdm/%s/%s" % (ref, "frozen" if mol.frozen_mos is not None else "no-frozen"),
                                 "%s: FCISolver.get_rdm(): energy from RDMs %.9f (sector eigenvalue %.9f), trace %.6f (active electrons %d)"
                                 % (pc["name"], er, e0, np.trace(np.array(d1)), na + nb), {"kind": "pyscf", "case": pcj, "what": "sector"}, found_input=True)
            except Exception as ex:
                ck.notes.setdefault("pyscf_fci_errors", []).append("%s: %r" % (pc["name"], ex))
        if not pc["uhf"]:
            try:
                for what, msg in explicit_mo_coeff_oracle(ck, mol, e0):
                    ck.violation("C04/pyscf/mo_coeff-argument/%s/%s" % (what, ref), "%s: %s" % (pc["name"], msg),
                                 {"kind": "pyscf", "case": pcj, "what": "mo_coeff-argument"}, found_input=True)
            except Exception as ex:
                ck.violation("C04/pyscf/mo_coeff-argument/raises/%s/%s" % (type(ex).__name__, ref), "%s: passing rotated mo_coeff explicitly raised %r" % (pc["name"], ex),
                             {"kind": "pyscf", "case": pcj, "what": "mo_coeff-argument"}, found_input=True)
        if ck.tier != "thorough":
            continue
        # rotation among the active orbitals leaves the sector ground energy unchanged
        try:
            rot_ok = rotation_invariance(ck, mol, e0)
            if rot_ok is not None:
                ck.violation("C04/pyscf/rotation-invariance/%s" % ("uhf" if pc["uhf"] else "restricted"),
                             "%s: %s" % (pc["name"], rot_ok), {"kind": "pyscf", "case": pcj}, found_input=True)
        except Exception as ex:
            ck.notes.setdefault("pyscf_rotation_errors", []).append("%s: %r" % (pc["name"], ex))


def _random_orthogonal(rng, n):
    a = np.array([[rng.uniform(-1, 1) for _ in range(n)] for _ in range(n)])
    q, _ = np.linalg.qr(a)
    return q


def _sector_energy_of_integrals(core, h, g, na, nb, on=(), off=()):
    """lowest eigenvalue in the (na, nb) sector of the operator openfermion assembles from spatial integrals (restricted),
    optionally with fixed occupied / empty spin-orbitals"""
    import openfermion as of
    from openfermion.chem.molecular_data import spinorb_from_spatial
    one, two = spinorb_from_spatial(np.asarray(h), np.asarray(g))
    op = of.get_fermion_operator(of.InteractionOperator(float(core), one, 0.5 * two))
    nq = 2 * np.asarray(h).shape[0]
    mat = of.get_sparse_operator(op, n_qubits=nq).toarray()
    return _lowest_in(mat, nq, lambda bits: sum(bits[0::2]) == na and sum(bits[1::2]) == nb
                      and all(bits[q] for q in on) and not any(bits[q] for q in off))


def explicit_mo_coeff_oracle(ck, mol, e0):
    """Rotated molecular-orbital coefficients handed over EXPLICITLY through the documented `mo_coeff` argument of
    _get_fermionic_hamiltonian / get_active_space_integrals / get_full_space_integrals / get_integrals (restricted references):
      - any orthogonal rotation among the active orbitals leaves the lowest (n_alpha, n_beta)-sector eigenvalue unchanged;
      - a rotation inside the doubly occupied, the singly occupied and the virtual active blocks also leaves <ref|H|ref> = mean-field energy;
      - for the full-space integrals any orthogonal rotation of ALL orbitals that keeps the frozen ones fixed leaves the sector eigenvalue of the
        Hamiltonian restricted to the frozen pattern unchanged.
    Returns a list of (what, message)."""
    out = []
    C = np.array(mol.mo_coeff, dtype=float)
    occ = np.asarray(mol.mo_occ)
    act = list(mol.active_mos)
    if len(act) < 2:
        return out
    (na, nb), (fna, fnb) = target_sector(mol)
    nq = mol.n_active_sos
    # (a) general rotation among the active orbitals
    Ca = C.copy()
    Ca[:, act] = C[:, act] @ _random_orthogonal(ck.rng, len(act))
    # (b) rotation inside the blocks of equal occupation of the active space
    Cb = C.copy()
    for val in (2, 1, 0):
        blk = [o for o in act if int(round(occ[o])) == val]
        if len(blk) >= 2:
            Cb[:, blk] = C[:, blk] @ _random_orthogonal(ck.rng, len(blk))
    D = [2 * p for p, o in enumerate(act) if occ[o] >= 1] + [2 * p + 1 for p, o in enumerate(act) if occ[o] == 2]
    for label, Cr, check_ref in (("active-rotation", Ca, False), ("block-rotation", Cb, True)):
        # _get_fermionic_hamiltonian(mo_coeff)
        fh = mol._get_fermionic_hamiltonian(Cr)
        e1 = _lowest_in(_jw_matrix(fh, nq), nq, lambda bits: sum(bits[0::2]) == na and sum(bits[1::2]) == nb)
        if abs(e1 - e0) > 1e-7:
            out.append(("_get_fermionic_hamiltonian/" + label, "_get_fermionic_hamiltonian(mo_coeff=rotated): lowest eigenvalue in sector (%d,%d) %.9f, "
                        "with the molecule's own orbitals %.9f" % (na, nb, e1, e0)))
        if check_ref:
            er = float(sum(float(np.real(v)) * CCm_det(k, D) for k, v in fh.terms.items()))
            if abs(er - mol.mf_energy) > 1e-7:
                out.append(("_get_fermionic_hamiltonian/reference/" + label, "_get_fermionic_hamiltonian(mo_coeff=rotated within occupation blocks): "
                            "<ref|H|ref> = %.9f, mean-field energy %.9f" % (er, mol.mf_energy)))
        # get_active_space_integrals(mo_coeff) and get_integrals(mo_coeff, True)
        for fname, call in (("get_active_space_integrals", lambda: mol.get_active_space_integrals(Cr)),
                            ("get_integrals", lambda: mol.get_integrals(Cr, True))):
            core, h1, g1 = call()
            e2 = _sector_energy_of_integrals(core, h1, g1, na, nb)
            if abs(e2 - e0) > 1e-7:
                out.append((fname + "/" + label, "%s(mo_coeff=rotated): lowest eigenvalue in sector (%d,%d) %.9f, with the molecule's own orbitals %.9f"
                            % (fname, na, nb, e2, e0)))
    # (c) full-space integrals with a rotation of all non-frozen orbitals... = active rotation embedded, plus (no frozen orbitals) a general one
    if mol.n_sos <= 8:
        frozen_o, frozen_v = list(mol.frozen_occupied), list(mol.frozen_virtual)
        on = [q for i in frozen_o for q in (2 * i, 2 * i + 1)]
        off = [q for i in frozen_v for q in (2 * i, 2 * i + 1)]
        core, hf, gf = mol.get_full_space_integrals(Ca)
        e3 = _sector_energy_of_integrals(core, hf, gf, fna, fnb, on, off)
        if abs(e3 - e0) > 1e-7:
            out.append(("get_full_space_integrals/active-rotation", "get_full_space_integrals(mo_coeff=rotated), restricted to the frozen pattern: lowest eigenvalue "
                        "in sector (%d,%d) %.9f, active-space value with the molecule's own orbitals %.9f" % (fna, fnb, e3, e0)))
        Cg = C @ _random_orthogonal(ck.rng, C.shape[1])
        core, hg, gg = mol.get_full_space_integrals(Cg)
        core0, h0, g0 = mol.get_full_space_integrals()
        e4, e5 = _sector_energy_of_integrals(core, hg, gg, fna, fnb), _sector_energy_of_integrals(core0, h0, g0, fna, fnb)
        if abs(e4 - e5) > 1e-7:
            out.append(("get_full_space_integrals/general-rotation", "get_full_space_integrals(mo_coeff=general rotation of all orbitals): full-space lowest eigenvalue "
                        "in sector (%d,%d) %.9f, with the molecule's own orbitals %.9f" % (fna, fnb, e4, e5)))
    return out


def CCm_det(key, D):
    """contribution factor of one fermionic term to <D|.|D> (see chem_common.det_expectation)"""
    Ds = set(D)
    if len(key) == 0:
        return 1
    if len(key) == 2:
        (p, _), (q, _) = key
        return 1 if (p == q and p in Ds) else 0
    if len(key) == 4:
        (p, _), (q, _), (r, _), (s_, _) = key
        if p in Ds and q in Ds and p != q:
            return (1 if (p == s_ and q == r) else 0) - (1 if (p == r and q == s_) else 0)
    return 0


def rotation_invariance(ck, mol, e0):
    """replace mo_coeff by a random rotation among the active orbitals (restricted: same rotation both spins)"""
    def rot(n):
        a = np.array([[ck.rng.uniform(-1, 1) for _ in range(n)] for _ in range(n)])
        q, _ = np.linalg.qr(a)
        return q
    if mol.uhf:
        new = []
        for s in range(2):
            c = np.array(mol.mo_coeff[s]).copy()
            act = list(mol.active_mos[s])
            if len(act) >= 2:
                c[:, act] = c[:, act] @ rot(len(act))
            new.append(c)
        old = (np.array(mol.mo_coeff[0]).copy(), np.array(mol.mo_coeff[1]).copy())
        mol.mo_coeff = new
    else:
        c = np.array(mol.mo_coeff).copy()
        act = list(mol.active_mos)
        if len(act) < 2:
            return None
        old = c.copy()
        c[:, act] = c[:, act] @ rot(len(act))
        mol.mo_coeff = c
    try:
        e1 = sector_ground_energy(mol, both=True)[1]
    finally:
        mol.mo_coeff = old
    if abs(e1 - e0) > 1e-6:
        return "lowest sector eigenvalue %.9f before, %.9f after an active-space rotation" % (e0, e1)
    return None


# ------------------------------------------------------------------------------------------ main
def run(ck):
    from translator import chem_tables
    from translator.common import TranslateError
    ck.trusted = ["Coq 8.16.1 kernel (coqc), vm_compute",
                  "translator/chem_tables.py, translator/common.py (ast pattern match of the transpose tuples / factors)",
                  "harness/props/C04.py + harness/chem_common.py (stub solver, generators, canonical printers, rational oracle)",
                  "model of frozen_orbitals.py / molecule.py / openfermion's get_active_space_integrals, spinorb_from_spatial in "
                  "coq/theories/Chem/Integrals.v tied by exact correspondence on integer integrals",
                  "Slater-Condon rules as the specification of 'energy of a determinant' (definitions e_det, e_det_u, e_so)"]
    ck.assumptions = ["mo_occ entries are the integers 0, 1, 2 (fractional occupations are not modelled)",
                      "frozen specifications are modelled for None / int / numpy int / 'frozen_core' / list / pair of lists / other; bool elements are not generated",
                      "partition theorem assumes a specification without a repeated index (repeated indices are accepted by the code: Example C04_duplicate_index_not_rejected)",
                      "folding theorems assume the electron-exchange symmetry g[p,q,r,s] = g[q,p,s,r] of the two-body tensor (holds for any integrals of a two-body operator)",
                      "PySCF SCF / AO->MO transformation / FCI and the eigen-solver are external: FCI equality and rotation invariance are numerical support only"]
    fallback = False
    try:
        t = chem_tables.extract(REPO)
    except TranslateError as e:
        ck.violation("C04/translator/chem_tables", "translator no longer recognises the source: %s" % e,
                     {"kind": "translator", "error": str(e)}, found_input=False)
        t, fallback = chem_tables.FALLBACK, True
    ck.notes["tables"] = "FALLBACK last-known-good constants (translator failed; reported)" if fallback else "regenerated from /repo"
    ck.write_gen("ChemTables", chem_tables.emit(t))
    try:
        res = ck.prove()
        if not res.ok:
            ck.proof_violation(res, "(against FALLBACK tables)" if fallback else "")
    except Exception as e:
        ck.violation("C04/proof/build", "the proof step could not be run: %s" % str(e)[-600:], {"kind": "proof"}, found_input=False)
    try:
        import tangelo.toolboxes.molecular_computation.molecule  # noqa
    except Exception as e:
        ck.violation("C04/import", "tangelo cannot be imported: %r" % e, {"kind": "import"}, found_input=False)
        return
    n_r, n_u = (240, 160) if ck.tier == "quick" else (2000, 1200)
    import traceback
    for name, fn in (("stub-molecules", lambda: run_stub(ck, n_r, n_u)), ("pyscf-support", lambda: run_pyscf_support(ck))):
        try:
            fn()
        except Exception:
            tb = traceback.format_exc()
            ck.violation("C04/stream/%s/aborted" % name, "stream %s stopped early: %s" % (name, tb.splitlines()[-1]),
                         {"kind": "stream-abort", "traceback": tb}, found_input=False)
    ck.notes["theorem_status"] = {"full": ["C04_partition_is_partition", "C04_partition_is_partition_uhf", "C04_int_spec_valid",
                                           "C04_frozen_lists_sorted", "C04_convert_errors", "C04_freeze_no_half_filled",
                                           "C04_n_active_electrons", "C04_n_active_ab_correct", "C04_fold_restricted_energy",
                                           "C04_fold_unrestricted_energy", "C04_interaction_operator_matches",
                                           "C04_index_convention", "C04_reverse_tuples_undo_forward"],
                                  "partial": [], "refuted": [],
                                  "not_covered": ["UHF spin-orbital assembly (aa, bb, abba, baab) vs e_det_u: modelled (uso1/uso2) and tied by correspondence, no theorem",
                                                  "expectation in the ENCODED reference state (needs C03/C05 theorems): numerical support only",
                                                  "FCI equality, orbital-rotation invariance: numerical support only"]}


def replay(data):
    r = data["replay"]
    if r.get("kind") == "stub":
        c = case_from_json(r["case"])
        s, mol = impl_string(c)
        print("implementation:", s[:2000])
        if "model" in r:
            print("model:         ", r["model"][:2000])
        bad = 1 if s.startswith("Crash:") else 0
        if mol is not None:
            if r.get("encoded"):
                m0 = reference_energy_oracle(c, mol)
                mp, m = (None, m0) if m0 else encoded_reference_oracle(c, mol)
                if m:
                    print("ORACLE:", m)
                    bad = 1
            for f in (partition_oracle, reference_energy_oracle, electron_count_oracle):
                if f is reference_energy_oracle and not c["sym"]:
                    continue
                try:
                    m = f(c, mol)
                except Exception as e:
                    m = "%s raised %r" % (f.__name__, e)
                if m:
                    print("ORACLE:", m)
                    bad = 1
        if "model" in r and r["model"] != s:
            bad = 1
        return bad
    if r.get("kind") == "pyscf":
        from tangelo.toolboxes.molecular_computation.molecule import SecondQuantizedMolecule
        pc = r["case"]
        mol = SecondQuantizedMolecule([(a, tuple(x)) for a, x in pc["xyz"]], pc["q"], pc["spin"], basis="sto-3g",
                                      frozen_orbitals=pc["frozen"], uhf=pc["uhf"])
        print("mf_energy", mol.mf_energy)
        if r.get("what") == "mo_coeff-argument":
            import random
            class _K:  # minimal stand-in for the check object: only the PRNG is used
                rng = random.Random(0)
            e0 = sector_ground_energy(mol, both=True)[1]
            res = explicit_mo_coeff_oracle(_K, mol, e0)
            for what, msg in res:
                print("FINDING", what, msg)
            return 1 if res else 0
        if r.get("what") == "sector":
            e_all, e0, pad = sector_ground_energy(mol, both=True)
            (na, nb), _ = target_sector(mol)
            print("sector", (na, nb), "lowest eigenvalue of the active-space Hamiltonian", e_all, "with padding spin-orbitals", pad, "empty:", e0)
            bad = 1 if e0 - e_all > 1e-7 else 0
            if mol.frozen_mos is not None and mol.n_sos <= 10:
                ep = projected_full_space_energy(mol)
                print("full-space Hamiltonian restricted to the frozen pattern", ep)
                bad |= abs(ep - e0) > 1e-7
            if not pc["uhf"]:
                from tangelo.algorithms.classical.fci_solver import FCISolver
                f = FCISolver(mol)
                ef = f.simulate()
                print("FCISolver.simulate()", ef)
                bad |= abs(ef - e0) > 1e-6
            return 1 if bad else 0
        if "mapping" in r:
            try:
                e = reference_expectation(mol, r["mapping"], r["up_then_down"])
            except Exception as ex:
                print("raised", repr(ex))
                return 1
            print("<ref|H|ref>", e)
            return 1 if abs(e - mol.mf_energy) > 1e-7 else 0
        return 1
    print(json.dumps(r, indent=1)[:4000])
    return 1
