"""C02 — expectation values equal <psi|H|psi> on every evaluation path (DESIGN §7.C02).

  regenerate  gen/ExpvalTables.v (measurement_basis.py: Pauli -> basis-change gate/angle; backend.py: conditions of
              the dispatch of get_expectation_value / get_variance, what is forwarded to simulate())
  prove       coq/props/C02.v
  correspond  random (operator, circuit, initial statevector, backend, desired_meas_result) through the real
              get_expectation_value / get_variance / get_standard_error and the two private routes, against the exact
              value of the Coq model in Q(zeta_32) (Linq/ExpPathsRun.v: the same generic definitions the theorems are
              about) — value, variance, and WHICH route was taken (counters in a harness subclass vs the model of the
              dispatch over the regenerated conditions); model of measurement_basis_gates vs the real gate list
  oracle      independent numpy evaluation (harness/np_sim.py) of <psi|H|psi> and sum c_k^2 (1 - <P_k>^2) for every
              case; sampled mode (n_shots = 10^4) only where outcomes are deterministic (eigenstates: exact value,
              variance 0, standard error 0) plus the bound |estimate| <= sum |c_k|; statistical agreement recorded
              as support only
"""
import itertools
import json
import math
import re
from fractions import Fraction

import numpy as np

from harness.lib import REPO, coq_Z, coq_N, coq_list, coq_bool, coq_opt, coq_nat, coq_str
from harness import linq_common as LC
from harness import np_sim as NS

LEVEL = "proof"
TOL = 1e-9
SHOTS = 10000

SIG_VAR_DMR = "C02/get_variance/desired_meas_result-ignored"
SIG_ISV_DMR = "C02/get_expectation_value/cirq/sampled+desired_meas_result/initial_statevector-ignored"
SIG_SYMPY_FREQ = "C02/sympy/frequency-route/non-diagonal-term-raises"
SIG_SYMPY_ORDER = "C02/sympy/frequency-route/statevector-bit-order"

PREAMBLE = """From Coq Require Import String ZArith NArith QArith List Bool.
From Tangelo Require Import Num.Show Pauli.Word Linq.GateModel Linq.LinqZ Linq.ExpPaths Linq.ExpPathsRun.
From Gen Require Import ExpvalTables.
Import ListNotations.
Open Scope string_scope.
"""

ZETA = [complex(math.cos(math.pi * k / 16), math.sin(math.pi * k / 16)) for k in range(16)]
PAULI_COQ = {"X": "PX", "Y": "PY", "Z": "PZ"}


def cy_to_complex(body):
    body = body.strip()
    if not body:
        return 0j
    return sum(float(Fraction(t)) * ZETA[k] for k, t in enumerate(body.split()))


def parse_model(s):
    out = {}
    for k, v in re.findall(r"(\w+)=(<[^>]*>|[\w,\-]+)", s):
        if v.startswith("<"):
            out[k] = cy_to_complex(v[1:-1])
        elif v == "None":
            out[k] = None
        else:
            out[k] = v
    return out


# ------------------------------------------------------------------------------------------ numpy oracle
def gates_np(specs):
    return [(s["name"], list(s["target"]), None if s["control"] is None else list(s["control"]),
             LC.theta(s["k"]) if s.get("k") is not None else None) for s in specs]


def apply_word(term, psi, n):
    out = psi
    for q, p in term:
        out = NS.apply_gate(out, n, p, [q], None, None)
    return out


def project(psi, n, q, b):
    idx = np.arange(1 << n)
    return np.where(((idx >> q) & 1) == b, psi, 0)


def branches(case, start=None):
    """[(probability, normalised state, outcome string)] of the preparation; with desired outcomes only that branch."""
    n = case["n"]
    psi0 = NS.run(gates_np(case["prefix"]), n) if start is None else start
    cur = [(psi0, "")]
    for specs, meas in case["segs"]:
        nxt = []
        for psi, s in cur:
            psi = NS.run(gates_np(specs), n, psi)
            if meas is None:
                nxt.append((psi, s))
            else:
                q, want = meas
                for b in (0, 1):
                    if case["dmr"] is not None and b != want:
                        continue
                    nxt.append((project(psi, n, q, b), s + str(b)))
        cur = nxt
    out = []
    for psi, s in cur:
        p = float(np.vdot(psi, psi).real)
        if p > 1e-14:
            out.append((p, psi / math.sqrt(p), s))
    return out


def coef_c(t):
    return complex(float(t[1]), float(t[2]))


def oracle(case, start=None):
    """Exact values for the prepared (possibly post-selected or mixed) state."""
    n = case["n"]
    br = branches(case, start)
    tot = sum(p for p, _, _ in br)
    if not br:
        return {"E": None, "V": None, "mus": [], "p": 0.0, "deterministic": False, "near_threshold": False, "n_branches": 0}
    mus = []
    for t in case["op"]:
        term = [(q, l) for q, l in t[0]]
        mu = sum(p * np.vdot(psi, apply_word(term, psi, n)) for p, psi, _ in br) / tot
        mus.append(mu)
    E = sum(coef_c(t) * mu for t, mu in zip(case["op"], mus))
    V = sum((float(t[1]) ** 2 + float(t[2]) ** 2) * (1 - mu.real ** 2) for t, mu in zip(case["op"], mus))
    det = all(abs(abs(mu.real) - 1) < 1e-12 for t, mu in zip(case["op"], mus) if t[0]) and \
        all(abs(np.vdot(psi, apply_word(t[0], psi, n)).real - mu.real) < 1e-12 for t, mu in zip(case["op"], mus) for _, psi, _ in br)
    # nearest non-zero probability to the frequency threshold 1e-10 after any basis change (sensitivity of the
    # exact-frequency route to Backend.freq_threshold; such cases are not compared on that route)
    near = False
    for t in case["op"]:
        for p, psi, _ in br:
            phi = psi
            for q, l in t[0]:
                if l == "X":
                    phi = NS.apply_gate(phi, n, "RY", [q], None, -math.pi / 2)
                elif l == "Y":
                    phi = NS.apply_gate(phi, n, "RX", [q], None, math.pi / 2)
            pr = np.abs(phi) ** 2
            if np.any((pr > 1e-13) & (pr < 1e-9)):
                near = True
    return {"E": E, "V": V, "mus": mus, "p": tot, "deterministic": det, "near_threshold": near, "n_branches": len(br)}


def reversed_oracle(case):
    """The oracle for the operator with qubit q renamed n-1-q (diagnosis of bit-order defects)."""
    n = case["n"]
    op = [[[[n - 1 - q, l] for q, l in t[0]], t[1], t[2]] for t in case["op"]]
    return oracle(dict(case, op=op))


# ------------------------------------------------------------------------------------------ implementation
def make_backend(kind, shots, noise=False):
    """A counting subclass of the real backend class (no edit of /repo): records which private route methods run."""
    from tangelo.linq.target.target_cirq import CirqSimulator
    from tangelo.linq.target.target_sympy import SympySimulator
    base = SympySimulator if kind == "sympy" else CirqSimulator

    class Counting(base):
        def _get_expectation_value_from_statevector(self, *a, **k):
            self.calls.append("sv")
            return super()._get_expectation_value_from_statevector(*a, **k)

        def _get_expectation_value_from_frequencies(self, *a, **k):
            self.calls.append("freq")
            return super()._get_expectation_value_from_frequencies(*a, **k)

        def _get_variance_from_frequencies(self, *a, **k):
            self.vcalls.append("freq")
            return super()._get_variance_from_frequencies(*a, **k)

    if kind == "generic":
        class Generic(Counting):
            @property
            def expectation_value_from_prepared_state(self):
                raise AttributeError("hidden: exercise the generic Pauli-circuit branch")
        cls = Generic
    else:
        class Native(Counting):
            def expectation_value_from_prepared_state(self, *a, **k):
                self.calls.append("native")
                return super().expectation_value_from_prepared_state(*a, **k)
        cls = Native
    nm = None
    if noise:
        from tangelo.linq.noisy_simulation import NoiseModel
        nm = NoiseModel()
        nm.add_quantum_error("X", "pauli", [0.0, 0.0, 0.0])
    b = cls(n_shots=shots, noise_model=nm)
    b.calls, b.vcalls = [], []
    return b


def build_operator(case):
    from tangelo.toolboxes.operators import QubitOperator
    op = QubitOperator()
    for term, re_, im_ in case["op"]:
        c = complex(float(re_), float(im_)) if case["ctype"] else float(re_)
        op.terms[tuple((q, l) for q, l in term)] = c
    return op


def build_circuit(case):
    from tangelo.linq import Gate, Circuit
    gates = []
    for specs, meas in case["segs"]:
        gates += [LC.make_gate(s) for s in specs]
        if meas is not None:
            gates.append(Gate("MEASURE", meas[0]))
    return Circuit(gates, n_qubits=case["n"])


def dmr_string(case):
    if case["dmr"] is None:
        return None
    return "".join(str(m[1]) for _, m in case["segs"] if m is not None)


def trace_of(calls):
    out = []
    for i, c in enumerate(calls):
        if c == "freq":
            out.append("freq")
        elif c == "sv":
            out.append("sv-native" if i + 1 < len(calls) and calls[i + 1] == "native" else "sv-pauli")
    return ",".join(out)


def base_kinds(trace):
    return [x.split("-")[0] for x in trace.split(",") if x]


def route_mismatch(impl_trace, impl_raised, model_route):
    """None when the observed routes agree with the model.  When the implementation raised inside a route only the
    kinds entered so far (a prefix) can be compared."""
    if model_route == "raise":
        return None if (impl_raised and not impl_trace) else "model: ValueError before any route"
    if not impl_raised:
        return None if impl_trace == model_route else "different routes"
    a, b = base_kinds(impl_trace), base_kinds(model_route)
    return None if (a and a == b[:len(a)]) else "different routes (implementation raised inside)"


def call(f):
    try:
        v = f()
        return ("ok", complex(v))
    except Exception as e:                                              # noqa
        return ("exc", type(e).__name__, str(e)[:160])


def run_impl(case, apis=("E", "V", "SE", "Ef", "Es")):
    """Run the real code; returns {api: ('ok', value) | ('exc', type, msg)}, the observed route traces, cfg facts."""
    op = build_operator(case)
    circ = build_circuit(case)
    n = case["n"]
    isv = NS.to_lsq_first(NS.run(gates_np(case["prefix"]), n), n) if case["pass_isv"] else None
    d = dmr_string(case)
    kw = {"initial_statevector": isv, "desired_meas_result": d}
    out = {}
    snap = None if isv is None else isv.copy()
    out["isv_mutated_by"] = []

    def callx(f):                      # the caller's initial_statevector array must come back unchanged from every call
        r = call(f)
        if snap is not None and not np.array_equal(isv, snap):
            out["isv_mutated_by"].append(len([k for k in out if k in ("E", "V", "SE", "Ef", "Es")]))
            isv[...] = snap                    # restore, so that the following calls are judged on their own
        return r
    b = make_backend(case["backend"], case["shots"], case.get("noise", False))
    if "E" in apis:
        out["E"] = callx(lambda: b.get_expectation_value(op, circ, **kw))
    out["trace"] = trace_of(b.calls)
    b.calls, b.vcalls = [], []
    if "V" in apis:
        out["V"] = callx(lambda: b.get_variance(op, circ, **kw))
        out["vtrace"] = ",".join(b.vcalls)
    if "SE" in apis:
        out["SE"] = callx(lambda: b.get_standard_error(op, circ, **kw))
    if not case["ctype"]:
        if "Ef" in apis:
            out["Ef"] = callx(lambda: b._get_expectation_value_from_frequencies(op, circ, **kw))
        if "Es" in apis and case["shots"] is None and circ.size > 0:
            out["Es"] = callx(lambda: b._get_expectation_value_from_statevector(op, circ, **kw))
    out["cfg"] = {"noise": bool(case.get("noise", False)), "sv": True, "shots": case["shots"], "mixed": bool(circ.is_mixed_state),
                  "size0": circ.size == 0, "complex": bool(case["ctype"]), "native": case["backend"] != "generic",
                  "isv": isv is not None, "width_ok": all(len(t[0]) <= circ.width for t in case["op"])}
    return out


# ------------------------------------------------------------------------------------------ Coq terms
def coq_q(fr):
    fr = Fraction(fr)
    return "(%d#%d)" % (fr.numerator, fr.denominator)


def coq_word(term):
    return coq_list(["(%s, %s)" % (coq_N(q), PAULI_COQ[l]) for q, l in term])


def coq_op(case):
    return "(" + coq_list(["(%s, coef %s %s)" % (coq_word(t), coq_q(re_), coq_q(im_)) for t, re_, im_ in case["op"]]) + " : xop)"


def coq_cfg(c):
    return "(Cfg %s %s %s %s %s %s %s %s %s)" % (
        coq_bool(c["noise"]), coq_bool(c["sv"]), coq_opt(None if c["shots"] is None else coq_N(c["shots"])),
        coq_bool(c["mixed"]), coq_bool(c["size0"]), coq_bool(c["complex"]), coq_bool(c["native"]),
        coq_bool(c["isv"]), coq_bool(c["width_ok"]))


def coq_segs(case):
    items = []
    for specs, meas in case["segs"]:
        m = "None" if (meas is None or case["dmr"] is None) else "(Some (%s, %s))" % (coq_Z(meas[0]), coq_bool(bool(meas[1])))
        items.append("(%s, %s)" % (coq_list([LC.coq_gate(s) for s in specs]), m))
    return "(" + coq_list(items) + " : list seg)"


def coq_case(case, cfg, fn):
    return "%s freq_cond sv_cond sv_exact_cond %s %s (%s : list zgate) %s %s" % (
        fn, coq_cfg(cfg), coq_nat(case["n"]), coq_list([LC.coq_gate(s) for s in case["prefix"]]), coq_segs(case), coq_op(case))


# ------------------------------------------------------------------------------------------ generators
def rand_coef(rng):
    while True:
        f = Fraction(rng.randint(-12, 12), rng.choice([1, 2, 4, 8]))
        if f != 0:
            return f


def rand_word(rng, n, maxlen):
    k = rng.randint(1, min(n, maxlen))
    qs = sorted(rng.sample(range(n), k))
    return [[q, rng.choice("XYZ")] for q in qs]


def rand_operator(rng, n, maxlen=3, n_terms=None, complex_p=0.3, identity_p=0.4):
    n_terms = n_terms if n_terms is not None else rng.randint(1, 4)
    ctype = rng.random() < complex_p
    seen, op = set(), []
    if rng.random() < identity_p:
        op.append([[], rand_coef(rng), rand_coef(rng) if ctype and rng.random() < 0.7 else Fraction(0)])
        seen.add(())
    tries = 0
    while len(op) < n_terms + (1 if () in seen else 0) and tries < 50:
        tries += 1
        w = rand_word(rng, n, maxlen)
        key = tuple(map(tuple, w))
        if key in seen:
            continue
        seen.add(key)
        op.append([w, rand_coef(rng), rand_coef(rng) if ctype and rng.random() < 0.7 else Fraction(0)])
    rng.shuffle(op)
    return op, ctype


def clean(specs):
    return [{"name": s["name"], "target": list(s["target"]), "control": None if s["control"] is None else list(s["control"]),
             "k": s["k"], "var": False} for s in specs]


def rand_exact_case(rng, n, backend, with_meas=False, maxlen=3):
    n_pre = rng.choice([0, 0, 2, 4])
    prefix = clean(LC.rand_gate_list(rng, n, n_pre, LC.ALL_UNITARY, var_p=0.0, echo_p=0.1)) if n_pre else []
    segs = []
    n_gates = rng.choice([0, 1, 3, 5, 7]) if prefix else rng.choice([1, 3, 5, 7])
    if with_meas:
        # pieces between measurements may be EMPTY: adjacent MEASUREs, or a circuit that starts with a MEASURE (then the
        # superposition comes from the initial statevector); adjacent measurements act on distinct qubits
        k = rng.choice([1, 2, 2, 3]) if n >= 3 else rng.randint(1, 2)
        last_q = None
        for j in range(k):
            empty = rng.random() < (0.35 if (j > 0 or prefix) else 0.0)
            gs = [] if empty else clean(LC.rand_gate_list(rng, n, rng.randint(1, 4), LC.ALL_UNITARY, var_p=0.0, echo_p=0.1))
            q = rng.randrange(n)
            if empty and q == last_q and n > 1:
                q = (q + 1 + rng.randrange(n - 1)) % n
            last_q = q
            segs.append([gs, [q, rng.randint(0, 1)]])
        segs.append([clean(LC.rand_gate_list(rng, n, rng.randint(0, 3), LC.ALL_UNITARY, var_p=0.0, echo_p=0.1)), None])
    else:
        segs.append([clean(LC.rand_gate_list(rng, n, n_gates, LC.ALL_UNITARY, var_p=0.0, echo_p=0.1)) if n_gates else [], None])
    op, ctype = rand_operator(rng, n, maxlen)
    case = {"n": n, "prefix": prefix, "pass_isv": bool(prefix) or rng.random() < 0.15, "segs": segs, "op": op, "ctype": ctype,
            "backend": backend, "shots": None, "dmr": "given" if with_meas else None}
    if with_meas and rng.random() < 0.9:
        # desired outcomes: mostly a string that can occur (an impossible one makes simulate raise: C10's business)
        poss = [s_ for p_, _, s_ in branches(dict(case, dmr=None)) if p_ > 1e-6]
        if poss:
            want = rng.choice(poss)
            k = 0
            for sg in segs:
                if sg[1] is not None:
                    sg[1][1] = int(want[k])
                    k += 1
    return case


EIG_PREP = {"Z": [], "X": ["H"], "Y": ["H", "S"]}


def eigen_case(rng, n, variant):
    """Product eigenstate of every word of the operator; spectators superposed.  variant in
    plain | isv-empty | isv | mixed | dmr | dmr-corr | dmr-isv | noise"""
    n_act = rng.randint(1, n - 1) if n > 1 else 1
    act = sorted(rng.sample(range(n), n_act))
    spect = [q for q in range(n) if q not in act]
    basis = {q: rng.choice("XYZ") for q in act}
    sign = {q: rng.choice([1, -1]) for q in act}
    g = lambda name, t, c=None, k=None: {"name": name, "target": [t], "control": None if c is None else [c], "k": k, "var": False}  # noqa
    prep, segs, dmr = [], [], None
    corr = None
    if variant == "dmr-corr" and spect:
        # the measured spectator m is entangled with one active qubit a: H m, CNOT a<-m, MEASURE m = d puts a in |d>
        m, a = spect[0], act[0]
        d = 1 if sign[a] == -1 else 0
        corr = (m, a, d)
    for q in act:
        if corr and q == corr[1]:
            continue
        if sign[q] == -1:
            prep.append(g("X", q))
        for nm in EIG_PREP[basis[q]]:
            prep.append(g(nm, q))
    sp_gates = []
    for q in spect:
        if corr and q == corr[0]:
            continue
        sp_gates.append(g(rng.choice(["H", "RY", "RX"]), q, None, None))
        if sp_gates[-1]["name"] != "H":
            sp_gates[-1]["k"] = rng.choice([1, 3, 5, 7, -3])
    if len(spect) - (1 if corr else 0) >= 2:
        a_, b_ = [q for q in spect if not (corr and q == corr[0])][:2]
        sp_gates.append({"name": "CNOT", "target": [b_], "control": [a_], "k": None, "var": False})
    gates = prep + sp_gates
    prefix, pass_isv = [], False
    if variant in ("isv-empty", "isv", "dmr-isv"):
        prefix, pass_isv = gates, True
        gates = [] if variant == "isv-empty" else ([g("H", spect[0]), g("H", spect[0])] if spect else [g("Z", act[0]), g("Z", act[0])])
    if variant in ("mixed", "dmr", "dmr-isv") and spect:
        m = spect[-1]
        segs = [[gates, [m, rng.randint(0, 1)]], [[g("RX", m, None, 3)], None]]
        if len(spect) >= 2 and rng.random() < 0.7:          # two measurements in a row (the usual way of measuring a register)
            segs.insert(1, [[], [spect[-2], rng.randint(0, 1)]])
        dmr = "given" if variant != "mixed" else None
    elif corr:
        m, a, d = corr
        tail = [g(nm, a) for nm in EIG_PREP[basis[a]]]
        segs = [[gates + [g("H", m), {"name": "CNOT", "target": [a], "control": [m], "k": None, "var": False}], [m, d]], [tail, None]]
        dmr = "given"
    else:
        segs = [[gates, None]]
    # operator: words over the active qubits in their bases
    op, seen = [], set()
    ctype = rng.random() < 0.2
    if rng.random() < 0.4:
        op.append([[], rand_coef(rng), rand_coef(rng) if ctype else Fraction(0)])
        seen.add(())
    for _ in range(rng.randint(1, 4)):
        qs = sorted(rng.sample(act, rng.randint(1, len(act))))
        if corr and rng.random() < 0.7 and corr[1] not in qs:
            qs = sorted(qs + [corr[1]])
        key = tuple(qs)
        if key in seen:
            continue
        seen.add(key)
        op.append([[[q, basis[q]] for q in qs], rand_coef(rng), rand_coef(rng) if ctype else Fraction(0)])
    if all(not t[0] for t in op):
        op.append([[[act[0], basis[act[0]]]], rand_coef(rng), Fraction(0)])
    expected = sum(complex(float(t[1]), float(t[2])) * np.prod([sign[q] for q, _ in t[0]]) for t in op)
    return {"n": n, "prefix": prefix, "pass_isv": pass_isv, "segs": segs, "op": op, "ctype": ctype, "backend": "cirq",
            "shots": SHOTS, "dmr": dmr, "noise": variant == "noise", "variant": variant, "expected": [expected.real, expected.imag]}


def feature(case):
    if case["dmr"] is not None:
        return "desired_meas_result"
    if any(m is not None for _, m in case["segs"]):
        return "mixed-state"
    if case["pass_isv"]:
        return "initial_statevector"
    if case["ctype"]:
        return "complex-coefficients"
    return "plain"


def jcase(case):
    return json.loads(json.dumps(case, default=str))


def nontrivial(case, orc):
    xy = any(l in "XY" for t in case["op"] for _, l in t[0])
    return bool(xy and not orc["deterministic"])


# ------------------------------------------------------------------------------------------ checks of one exact case
def close(a, b, tol=TOL):
    return abs(complex(a) - complex(b)) <= tol


def has_xy(case):
    return any(l in "XY" for t in case["op"] for _, l in t[0])


def sympy_refusal(be, r):
    """SympySimulator refuses (loud TypeError) states whose amplitudes sympy leaves as unevaluated symbolic exponentials
    (`if frequency - threshold >= 0` on a Relational): a refusal, not a wrong value; counted as not evaluated."""
    return be == "sympy" and r[0] == "exc" and r[1] == "TypeError" and "truth value of Relational" in r[2]


def check_exact(ck, case, impl, orc, model=None):
    """Property oracle on one exact-mode case (n_shots None or 0): every API against numpy; then the Coq model."""
    feat = feature(case)
    be = case["backend"]
    rep = {"kind": "case", "case": jcase(case)}
    cfg = impl["cfg"]
    sympy_freq_broken = be == "sympy" and has_xy(case)
    if not cfg["width_ok"]:
        for api in ("E", "V", "SE"):
            if api in impl and impl[api][0] == "ok":
                ck.violation("C02/%s/%s/operator-wider-than-circuit-accepted" % (api, be),
                             "a term with more factors than the circuit width was accepted: returned %r" % (impl[api][1],), rep)
        return
    # ---- value
    for api, name in (("E", "get_expectation_value"), ("Ef", "_get_expectation_value_from_frequencies"),
                      ("Es", "_get_expectation_value_from_statevector")):
        if api not in impl:
            continue
        r = impl[api]
        freq_like = api == "Ef" or (api == "E" and "freq" in impl["trace"])
        if freq_like and orc["near_threshold"]:
            ck.not_evaluated += 1
            continue
        if r[0] == "ok" and close(r[1], orc["E"]):
            continue
        if sympy_refusal(be, r):
            ck.not_evaluated += 1
            continue
        desc = "%s (%s backend, %s) returned %s, <psi|H|psi> = %r" % (name, be, feat, r[1] if r[0] == "ok" else "%s: %s" % r[1:], orc["E"])
        if be == "sympy" and freq_like and r[0] == "ok" and close(r[1], reversed_oracle(case)["E"]):
            ck.violation(SIG_SYMPY_ORDER, desc + " — the value for the operator with the qubit order reversed (sympy's statevector is "
                         "little-endian but is read as lsq_first by _statevector_to_frequencies; root cause shared with C01)", rep)
        elif sympy_freq_broken and freq_like and r[0] == "exc":
            ck.violation(SIG_SYMPY_FREQ, desc, rep)
        elif api == "Ef" and be == "sympy" and r[0] == "exc" and has_xy(case):
            ck.violation(SIG_SYMPY_FREQ, desc, rep)
        else:
            ck.violation("C02/%s/%s/%s" % (name, be, feat), desc, rep)
    # ---- variance and standard error
    if "V" in impl and not orc["near_threshold"]:
        r = impl["V"]
        if sympy_refusal(be, r):
            ck.not_evaluated += 1
        elif not (r[0] == "ok" and close(r[1], orc["V"], 1e-8)):
            desc = "get_variance (%s backend, %s) returned %s, sum c_k^2 (1 - <P_k>^2) = %r" % (
                be, feat, r[1] if r[0] == "ok" else "%s: %s" % r[1:], orc["V"])
            if case["dmr"] is not None and (r[0] == "exc" or close(r[1], oracle(dict(case, dmr=None))["V"], 1e-6)):
                ck.violation(SIG_VAR_DMR, desc + " (the post-selection is not applied: n_shots=None raises, otherwise the unconditioned distribution is used)", rep)
            elif sympy_freq_broken and r[0] == "exc":
                ck.violation(SIG_SYMPY_FREQ, desc, rep)
            elif be == "sympy" and r[0] == "ok" and close(r[1], reversed_oracle(case)["V"], 1e-8):
                ck.violation(SIG_SYMPY_ORDER, desc + " — the value for the operator with the qubit order reversed", rep)
            else:
                ck.violation("C02/get_variance/%s/%s" % (be, feat), desc, rep)
    if "SE" in impl:
        r = impl["SE"]
        v_ok = "V" in impl and impl["V"][0] == "ok"
        if case["shots"]:
            if r[0] == "ok" and not orc["near_threshold"] and not close(r[1], math.sqrt(max(orc["V"], 0.0) / case["shots"]), 1e-8):
                ck.violation("C02/get_standard_error/%s/%s" % (be, feat), "n_shots=%d on an exact distribution: standard error %r, sqrt(variance/n_shots) = %r"
                             % (case["shots"], r[1], math.sqrt(max(orc["V"], 0.0) / case["shots"])), rep)
        elif r[0] == "ok" and abs(r[1]) > 1e-15:
            ck.violation("C02/get_standard_error/%s/exact-mode-nonzero" % be, "n_shots falsy but standard error %r" % (r[1],), rep)
        elif r[0] == "exc" and v_ok:
            ck.violation("C02/get_standard_error/%s/%s" % (be, feat), "raises %s although get_variance succeeds" % (r[1],), rep)
    # ---- model
    if model is None:
        return
    m = parse_model(model)
    mrep = {"kind": "case", "case": jcase(case), "model": model}
    p = m["p"].real
    if abs(p - orc["p"]) > TOL or not close(m["spec"] / p, orc["E"]):
        ck.violation("C02/correspondence/oracle-vs-model", "numpy oracle %r (p=%r) and exact model %r (p=%r) disagree on <psi|H|psi>"
                     % (orc["E"], orc["p"], m["spec"] / p, p), mrep, found_input=False)
        return
    if "E" in impl and be != "sympy" and route_mismatch(impl["trace"], impl["E"][0] == "exc", m["route"]):
        ck.violation("C02/correspondence/dispatch/%s" % feat, "route taken by get_expectation_value: implementation %r, model of the dispatch %r (cfg %s)"
                     % (impl["trace"], m["route"], cfg), mrep, found_input=False)
    if "vtrace" in impl and impl["V"][0] == "ok":
        want = {"freq": "freq", "split": "freq,freq", "raise": ""}[m["vroute"]]
        if impl["vtrace"] != want:
            ck.violation("C02/correspondence/dispatch-variance", "get_variance: implementation entered %r, model %r" % (impl["vtrace"], m["vroute"]), mrep, found_input=False)
    pairs = []
    if "eval" in m:
        pairs = [("E", m["eval"], "eval_expect"), ("Ef", m["freq"], "freq_route"), ("Es", m["sv"] if be == "generic" else m["spec"], "sv_route"),
                 ("V", m["var"], "eval_var")]
    else:
        pairs = [("E", m["spec"] / p, "expect_op / p"), ("Ef", m["freqh"] / p, "freq_route_h / p")]
    for api, mv, nm in pairs:
        if api not in impl or impl[api][0] != "ok" or mv is None:
            continue
        if orc["near_threshold"] and api in ("Ef", "V"):
            continue
        if not close(impl[api][1], mv, 1e-8 if api == "V" else TOL):
            # a disagreement already reported by the oracle (with an input) explains it; otherwise a broken correspondence
            ck.violation("C02/correspondence/%s/%s" % (nm.split(" ")[0], feat), "implementation %s = %r, model %s = %r" % (api, impl[api][1], nm, mv),
                         mrep, found_input=False)


def record(ck, stream, case, orc, extra_tags=()):
    ck.case(stream, json.dumps(jcase(case), sort_keys=True), nontrivial=nontrivial(case, orc),
            sample={"n": case["n"], "backend": case["backend"], "shots": case["shots"], "feature": feature(case),
                    "op": [["".join("%s%d" % (l, q) for q, l in t[0]) or "I", str(t[1]), str(t[2])] for t in case["op"]][:4]},
            tags=[case["backend"], feature(case), "n=%d" % case["n"], "complex" if case["ctype"] else "real"] + list(extra_tags))


# ------------------------------------------------------------------------------------------ sampled mode
def check_sampled(ck, case, notes, apis=("E", "V", "SE")):
    """Finite shots.  Deterministic outcomes (every branch an eigenstate with the same eigenvalues) -> exact checks."""
    rep = {"kind": "case", "case": jcase(case)}
    orc = oracle(case)
    impl = run_impl(case, apis=apis)
    report_mutation(ck, case, impl)
    feat = case.get("variant", feature(case))
    record(ck, "sampled", case, orc, [feat])
    bound = sum(abs(coef_c(t)) for t in case["op"]) + 1e-9
    r = impl["E"]
    if r[0] == "ok" and abs(r[1]) > bound:
        ck.violation("C02/get_expectation_value/cirq/sampled/estimate-exceeds-bound", "|estimate| = %r > sum |c_k| = %r" % (abs(r[1]), bound), rep)
    if orc["deterministic"]:
        if not (r[0] == "ok" and close(r[1], orc["E"])):
            desc = "deterministic outcomes (eigenstate), n_shots=%d, %s: get_expectation_value returned %s, exact value %r" % (
                case["shots"], feat, r[1] if r[0] == "ok" else "%s: %s" % r[1:], orc["E"])
            ignored, impossible = None, False
            if case["pass_isv"] and case["dmr"] is not None:
                n = case["n"]
                z = np.zeros(1 << n, dtype=complex)
                z[0] = 1
                try:
                    o2 = oracle(case, start=z)
                    ignored, impossible = o2["E"], o2["n_branches"] == 0
                except Exception:
                    ignored = None
            if (ignored is not None and r[0] == "ok" and abs(r[1] - ignored) < 0.1) or (impossible and r[0] == "exc"):
                ck.violation(SIG_ISV_DMR, desc + " — the value of the circuit run from |0...0> (initial_statevector ignored; same defect as C10)", rep)
            else:
                ck.violation("C02/get_expectation_value/cirq/sampled/%s" % feat, desc, rep)
        else:
            v = impl["V"]
            if not (v[0] == "ok" and abs(v[1]) < 1e-12):
                desc = "deterministic outcomes, n_shots=%d, %s: get_variance returned %s, must be 0" % (case["shots"], feat, v[1] if v[0] == "ok" else "%s: %s" % v[1:])
                unc = oracle(dict(case, dmr=None))["V"] if case["dmr"] is not None else None
                if unc is not None and v[0] == "ok" and abs(v[1].real - unc) < 0.15 * max(1.0, unc) and unc > 1e-6:
                    ck.violation(SIG_VAR_DMR, desc + " — it is the variance %.4g of the distribution WITHOUT post-selection" % unc, rep)
                else:
                    ck.violation("C02/get_variance/cirq/sampled/%s" % feat, desc, rep)
            elif "SE" in impl:
                s = impl["SE"]
                if not (s[0] == "ok" and abs(s[1]) < 1e-9):
                    ck.violation("C02/get_standard_error/cirq/sampled/%s" % feat, "deterministic outcomes: standard error %r, must be 0" % (s[1:],), rep)
    else:
        # support only: statistical agreement with the exact distribution (never an alarm)
        for api in ("E", "V", "SE"):
            if api in impl and impl[api][0] == "exc" and impl["cfg"]["width_ok"]:
                ck.violation("C02/%s/cirq/sampled/%s/raises" % (api, feat), "n_shots=%d: %s: %s on a generated case" % ((case["shots"],) + impl[api][1:]), rep)
        if r[0] == "ok" and impl["V"][0] == "ok" and impl.get("SE", ("exc",))[0] == "ok":
            sigma = math.sqrt(max(orc["V"], 0) / case["shots"]) * max(1, len(case["op"]))
            notes["n"] += 1
            notes["within_5_sigma"] += int(abs(r[1] - orc["E"]) <= 5 * sigma + 1e-12)
            notes["variance_rel_dev_max"] = max(notes["variance_rel_dev_max"], abs(impl["V"][1].real - orc["V"]) / max(orc["V"], 1e-9))
            if abs(impl["SE"][1] ** 2 * case["shots"] - impl["V"][1]) > 0.1 * max(1e-9, abs(impl["V"][1])):
                notes["se_formula_mismatch"] += 1
    return impl


# ------------------------------------------------------------------------------------------ measurement_basis_gates
def basis_gate_stream(ck, gen_ok=True):
    """Model of measurement_basis_gates over the regenerated table vs the real function: every word on <= 3 of 4 qubits
    (exhaustive for 1 and 2 factors), and an unknown letter."""
    from tangelo.linq.helpers.circuits.measurement_basis import measurement_basis_gates
    ck.stream("basis-gates", "all Pauli words with 1-2 factors on 4 qubits + sampled 3-factor words + malformed letters: "
              "gate list of the real measurement_basis_gates vs the table-driven Coq model")
    terms = []
    for k in (1, 2):
        for qs in itertools.combinations(range(4), k):
            for ls in itertools.product("XYZ", repeat=k):
                terms.append([[q, l] for q, l in zip(qs, ls)])
    for ls in itertools.product("XYZI", repeat=3):
        terms.append([[q, l] for q, l in zip((0, 2, 3), ls)])
    terms += [[[0, "Q"]], [[1, "X"], [2, "x"]], []]
    exprs, impls = [], []
    for t in terms:
        try:
            gs = measurement_basis_gates(tuple((q, l) for q, l in t))
            s, ok = LC.show_gates_impl(gs)
            impls.append(s if ok else "offgrid:" + s)
        except RuntimeError:
            impls.append("Err:RuntimeError")
        except Exception as e:                                              # noqa
            impls.append("Err:" + type(e).__name__)
        exprs.append("show_basis_gates basis_table %s" % coq_list(["(%s, %s)" % (coq_Z(q), coq_str(l)) for q, l in t]))
    model = model_eval(ck, "basis", exprs, shard=80, jobs=3) if gen_ok else None
    if model is None:
        model = [None] * len(terms)
    for t, a, b in zip(terms, impls, model):
        ck.case("basis-gates", json.dumps(t), nontrivial=any(l in "XY" for _, l in t), sample={"term": t, "gates": a}, tags=["len=%d" % len(t)])
        if a.startswith("Err") and all(l in "XYZI" for _, l in t):
            ck.violation("C02/measurement_basis_gates/raises", "term %s: %s" % (t, a), {"kind": "basis", "term": t})
        if b is not None and a != b:
            ck.violation("C02/correspondence/measurement_basis_gates", "term %s: implementation %r, model %r" % (t, a, b),
                         {"kind": "basis", "term": t}, found_input=False)
        # property oracle on the real gates: B^dagger Z_supp B = P as matrices
        if not a.startswith("Err") and t:
            n = 4
            gs = measurement_basis_gates(tuple((q, l) for q, l in t))
            B = NS.unitary(NS.gates_of(gs), n)
            Zs = NS.unitary([("Z", [q], None, None) for q, l in t if l != "I"], n)
            P = NS.unitary([(l, [q], None, None) for q, l in t if l != "I"], n)
            if np.max(np.abs(B.conj().T @ Zs @ B - P)) > TOL:
                ck.violation("C02/measurement_basis_gates/wrong-rotation", "term %s: B^dagger Z B differs from the Pauli word (gates %s)" % (t, a),
                             {"kind": "basis", "term": t})


# ------------------------------------------------------------------------------------------ dispatch grid
def py_dispatch(cfg):
    """The routing the property statement documents (used only when the Coq model cannot be evaluated)."""
    if (cfg["isv"] and not cfg["sv"]) or not cfg["width_ok"]:
        return "raise", "raise"
    r = "freq" if (cfg["noise"] or not cfg["sv"] or cfg["shots"] is not None or cfg["size0"]) else ("sv-native" if cfg["native"] else "sv-pauli")
    return (r + "," + r, "split") if cfg["complex"] else (r, "freq")


def dispatch_stream(ck, gen_ok=True):
    """Every configuration reachable with the installed backends: which private route runs, vs the model."""
    from tangelo.linq import Gate, Circuit
    ck.stream("dispatch", "grid backend x n_shots in {None,0,40} x noise x mixed x empty circuit x complex x initial statevector x width: "
              "methods entered by get_expectation_value / get_variance (counters in a harness subclass) vs the Coq model of the dispatch")
    g = lambda name, t: {"name": name, "target": [t], "control": None, "k": None, "var": False}  # noqa
    cases = []
    for be, shots, noise, mixed, size0, cx, isv, wide in itertools.product(
            ("cirq", "generic"), (None, 0, 40), (False, True), (False, True), (False, True), (False, True), (False, True), (False, True)):
        if noise and not shots:
            continue                                   # constructor raises (checked below)
        if size0 and mixed:
            continue
        segs = [[[], None]] if size0 else ([[[g("X", 0)], [1, 0]], [[g("H", 1)], None]] if mixed else [[[g("X", 0), g("H", 1)], None]])
        op = [[[[0, "Z"]], Fraction(1), Fraction(1, 2) if cx else Fraction(0)], [[], Fraction(1, 4), Fraction(0)]]
        if wide:
            op.append([[[0, "Z"], [1, "Z"], [2, "Z"]], Fraction(1), Fraction(0)])
        cases.append({"n": 2, "prefix": [], "pass_isv": isv, "segs": segs, "op": op, "ctype": cx, "backend": be, "shots": shots,
                      "dmr": None, "noise": noise})
    exprs, impls = [], []
    kept = []
    for c in cases:
        impl = safe_impl(ck, "dispatch", c, apis=("E", "V"))
        if impl is None:
            continue
        kept.append(c)
        impls.append(impl)
        exprs.append("run_dispatch freq_cond sv_cond sv_exact_cond %s" % coq_cfg(impl["cfg"]))
    cases = kept
    model = model_eval(ck, "dispatch", exprs, shard=100, jobs=3) if gen_ok else None
    if model is None:
        ck.notes["dispatch_expected_from"] = "python restatement of the documented routing (Coq model not evaluable in this run)"
        model = ["%s|%s" % py_dispatch(impl["cfg"]) for impl in impls]
    for c, impl, m in zip(cases, impls, model):
        route, vroute = m.split("|")
        ck.case("dispatch", json.dumps(jcase(c), sort_keys=True), nontrivial=True, sample={"cfg": impl["cfg"], "route": route, "vroute": vroute},
                tags=[route.split(",")[0], "v:" + vroute])
        rep = {"kind": "dispatch", "case": jcase(c), "model": m}
        if route_mismatch(impl["trace"], impl["E"][0] == "exc", route):
            ck.violation("C02/correspondence/dispatch/route", "cfg %s: implementation entered %r, model says %r (result %s)" % (impl["cfg"], impl["trace"], route, impl["E"][:2]),
                         rep, found_input=False)
        want = {"freq": "freq", "split": "freq,freq", "raise": ""}[vroute]
        if impl["vtrace"] != want and not (impl["V"][0] == "exc" and want.startswith(impl["vtrace"]) and impl["vtrace"]):
            ck.violation("C02/correspondence/dispatch/variance-route", "cfg %s: get_variance entered %r, model says %r" % (impl["cfg"], impl["vtrace"], vroute), rep, found_input=False)
        # property: a deterministic state (X0 -> Z0 = -1, identity 1/4): the value is -1 (+ i/2 * -1) + 1/4 whenever a number is returned
        if impl["E"][0] == "ok" and not c["op"][2:] and not c["pass_isv"]:
            z0 = 1.0 if c["segs"][0][0] == [] else -1.0
            want_e = z0 * complex(1, 0.5 if c["ctype"] else 0) + 0.25
            if not close(impl["E"][1], want_e):
                ck.violation("C02/get_expectation_value/%s/dispatch-grid" % c["backend"], "cfg %s: returned %r, expected %r" % (impl["cfg"], impl["E"][1], want_e), rep)
    # Backend.__init__: a noise model or no statevector needs shots
    from tangelo.linq.target.target_cirq import CirqSimulator
    from tangelo.linq.noisy_simulation import NoiseModel
    nm = NoiseModel()
    nm.add_quantum_error("X", "pauli", [0.0, 0.0, 0.0])
    for shots in (None, 0):
        try:
            CirqSimulator(n_shots=shots, noise_model=nm)
            ck.violation("C02/Backend.__init__/noise-without-shots", "noise model accepted with n_shots=%r" % shots, {"kind": "init", "shots": shots})
        except ValueError:
            pass


# ------------------------------------------------------------------------------------------ main
def exhaustive_words(n=2):
    words = []
    for k in (1, 2):
        for qs in itertools.combinations(range(n), k):
            for ls in itertools.product("XYZ", repeat=k):
                words.append([[q, l] for q, l in zip(qs, ls)])
    return words


# ------------------------------------------------------------------------------------------ histories on one backend object
def gen_history(rng, kind, n):
    """A sequence of evaluations on ONE backend object: operators (two objects) are mutated IN PLACE between calls
    (op += term, op *= scalar, op.terms[t] = c, del op.terms[t]), different operators / circuits / initial statevectors are
    interleaved.  Pure data (replayable): {"n", "backend", "shots", "ctype", "circuits": [...], "isv": [...], "steps": [...]}"""
    ctype = rng.random() < 0.25
    circuits = [clean(LC.rand_gate_list(rng, n, rng.randint(1, 5), LC.ALL_UNITARY, var_p=0.0, echo_p=0.1)) for _ in range(2)]
    isvs = [[], clean(LC.rand_gate_list(rng, n, 3, LC.ALL_UNITARY, var_p=0.0))]
    steps = []
    for which in (0, 1):
        op, _ = rand_operator(rng, n, maxlen=2, complex_p=0.0)
        steps.append(["new", which, [[t[0], str(t[1]), str(rand_coef(rng) if ctype else 0)] for t in op]])
    steps.append(["eval", 0, rng.choice(["E", "E", "V"]), 0, 0])
    for _ in range(rng.randint(5, 9)):
        r = rng.random()
        which = rng.randint(0, 1)
        if r < 0.45:
            steps.append(["eval", which, rng.choice(["E", "E", "E", "V"]), rng.randint(0, 1), rng.choice([0, 0, 1])])
            continue
        if r < 0.65:
            steps.append(["iadd", which, rand_word(rng, n, 2) if rng.random() < 0.85 else [], str(rand_coef(rng)), str(rand_coef(rng) if ctype else 0)])
        elif r < 0.8:
            steps.append(["imul", which, str(rng.choice([Fraction(-1), Fraction(1, 2), Fraction(2), Fraction(-3, 4)]))])
        elif r < 0.95:
            steps.append(["setterm", which, rand_word(rng, n, 2), str(rand_coef(rng)), str(rand_coef(rng) if ctype else 0)])
        else:
            steps.append(["delterm", which])
        # every mutation is followed by an evaluation of the mutated object with the arguments of an earlier call
        steps.append(["eval", which, rng.choice(["E", "E", "V"]), rng.randint(0, 1), 0])
    # a circuit whose FIRST gate is a MEASURE (post-selected): used with the superposed initial statevector, which is the SAME
    # array object for all calls of the history; evaluations on it are interleaved with the others
    mq = rng.randrange(n)
    mc = {"q": mq, "b": rng.randint(0, 1), "gates": clean(LC.rand_gate_list(rng, n, rng.randint(0, 3), LC.ALL_UNITARY, var_p=0.0))}
    extra = []
    for st in steps:
        extra.append(st)
        if st[0] == "eval" and rng.random() < 0.35:
            extra.append(["eval", st[1], rng.choice(["E", "E", "V", "S"]), 2, 1])
            extra.append(["eval", st[1], "E", rng.randint(0, 1), 1])          # the same array again, plain circuit
    return {"n": n, "backend": kind, "shots": rng.choice([None, None, 0]), "ctype": ctype, "circuits": circuits, "isv": isvs, "steps": extra,
            "mcirc": mc}


def run_history(h):
    """Replays a history on the real classes with a tracked copy of every operator's VALUE; returns the list of
    (step index, api, implementation result, exact value, last mutation) of the evaluations."""
    from tangelo.linq import Circuit
    from tangelo.toolboxes.operators import QubitOperator
    n = h["n"]
    b = make_backend(h["backend"], h["shots"])
    from tangelo.linq import Gate
    circs = [Circuit([LC.make_gate(g) for g in gs], n_qubits=n) for gs in h["circuits"]]
    mc = h.get("mcirc")
    if mc is not None:
        circs.append(Circuit([Gate("MEASURE", mc["q"])] + [LC.make_gate(g) for g in mc["gates"]], n_qubits=n))
    user_isv = NS.to_lsq_first(NS.run(gates_np(h["isv"][1]), n), n).astype(np.complex128)      # ONE array, reused by every call
    snap = user_isv.copy()
    ops, vals, last = {}, {}, {0: "new", 1: "new"}

    def num(re_, im_):
        re_, im_ = Fraction(re_), Fraction(im_)
        return complex(float(re_), float(im_)) if h["ctype"] else float(re_)
    out = []
    for i, st in enumerate(h["steps"]):
        kind, which = st[0], st[1]
        if kind == "new":
            o = QubitOperator()
            vals[which] = {}
            for term, re_, im_ in st[2]:
                key = tuple((q, l) for q, l in term)
                o.terms[key] = num(re_, im_)
                vals[which][key] = (Fraction(re_), Fraction(im_))
            ops[which] = o
        elif kind == "iadd":
            key = tuple((q, l) for q, l in st[2])
            ops[which] += QubitOperator(key, num(st[3], st[4]))
            a = vals[which].get(key, (Fraction(0), Fraction(0)))
            v = (a[0] + Fraction(st[3]), a[1] + Fraction(st[4]))
            if v == (0, 0):
                vals[which].pop(key, None)
            else:
                vals[which][key] = v
        elif kind == "imul":
            f = Fraction(st[2])
            ops[which] *= float(f)
            vals[which] = {k: (v[0] * f, v[1] * f) for k, v in vals[which].items()}
        elif kind == "setterm":
            key = tuple((q, l) for q, l in st[2])
            ops[which].terms[key] = num(st[3], st[4])
            vals[which][key] = (Fraction(st[3]), Fraction(st[4]))
        elif kind == "delterm":
            if len(vals[which]) > 1:
                key = sorted(vals[which])[0]
                del ops[which].terms[key]
                del vals[which][key]
        if kind != "eval":
            last[which] = kind
            continue
        api, ci, use_isv = st[2], st[3], st[4]
        segs = [[h["circuits"][ci], None]] if ci < 2 else [[[], [mc["q"], mc["b"]]], [mc["gates"], None]]
        case = {"n": n, "prefix": h["isv"][1] if use_isv else [], "pass_isv": bool(use_isv), "segs": segs,
                "op": [[[list(f_) for f_ in k], v[0], v[1]] for k, v in vals[which].items()], "ctype": h["ctype"], "backend": h["backend"],
                "shots": h["shots"], "dmr": None if ci < 2 else "given"}
        orc = oracle(case)
        if orc["n_branches"] == 0 or (ci == 2 and h["shots"] == 0):
            continue                                   # impossible desired outcome / mixed circuit with n_shots = 0: not this stream's business
        isv = user_isv if use_isv else None
        kw = {"initial_statevector": isv}
        if ci == 2:
            kw["desired_meas_result"] = str(mc["b"])
        if api == "S":
            r = call(lambda: b.simulate(circs[ci], **kw)[0].get("0" * n, 0.0))
            want, api_name = None, "simulate"
        else:
            f = b.get_expectation_value if api == "E" else b.get_variance
            r = call(lambda: f(ops[which], circs[ci], **kw))
            want, api_name = (orc["E"] if api == "E" else orc["V"]), api
        if not np.array_equal(user_isv, snap):
            out.append((i, "M:" + api_name, r, want, last[which], False))
            user_isv[...] = snap
            continue
        if api != "S":
            out.append((i, api, r, want, last[which], orc["near_threshold"]))
    return out


def stream_history(ck):
    rng, quick = ck.rng, ck.tier == "quick"
    ck.stream("history", "sequences of 6-12 get_expectation_value / get_variance calls on ONE backend object (cirq native, cirq generic; n_shots None or 0): "
              "two operator objects mutated in place between calls (+=, *=, terms[t] = c, del terms[t]), different operators, circuits and initial "
              "statevectors interleaved; every returned value vs the numpy value of the operator's CURRENT content; non-trivial = an evaluation follows a mutation")
    for hi in range(40 if quick else 600):
        h = gen_history(rng, rng.choice(["cirq", "cirq", "generic"]), rng.choice([2, 2, 3]))
        try:
            res = run_history(h)
        except Exception as e:                                              # noqa
            ck.violation("C02/history/%s/exception" % h["backend"], "tangelo raised %s: %s during a history of evaluations" % (type(e).__name__, str(e)[:200]),
                         {"kind": "history", "history": h})
            continue
        ck.case("history", json.dumps(h, sort_keys=True, default=str), nontrivial=True,
                sample={"backend": h["backend"], "shots": h["shots"], "steps": [s_[0] for s_ in h["steps"]]},
                tags=[h["backend"], "complex" if h["ctype"] else "real", "evals=%d" % len(res)])
        for (i, api, r, want, lastmut, near) in res:
            if api.startswith("M:"):
                nm = {"E": "get_expectation_value", "V": "get_variance"}.get(api[2:], api[2:])
                ck.violation("C02/history/%s/%s/initial_statevector-modified-in-place" % (h["backend"], nm),
                             "step %d of a history: %s changed the caller's initial_statevector array (complex128 ndarray reused by the following calls) in place" % (i, nm),
                             {"kind": "history", "history": dict(h, steps=h["steps"][:i + 1])})
                break
            if near and (api == "V" or h["shots"] == 0):
                continue
            if not (r[0] == "ok" and close(r[1], want, 1e-8 if api == "V" else TOL)):
                hh = dict(h, steps=h["steps"][:i + 1])
                name = "get_expectation_value" if api == "E" else "get_variance"
                ck.violation("C02/history/%s/%s/after-%s" % (h["backend"], name, lastmut),
                             "step %d of a history on one backend object: %s returned %s, exact value for the operator's current content %r "
                             "(last in-place change of that operator object: %s)" % (i, name, r[1] if r[0] == "ok" else "%s: %s" % r[1:], want, lastmut),
                             {"kind": "history", "history": hh})
                break


def guarded(ck, name, f, *args):
    """Run one stream; a crash of the stream itself is reported (no input) and the other streams still run."""
    import traceback
    try:
        return f(*args)
    except Exception:                                                   # noqa
        tb = traceback.format_exc()
        ck.violation("C02/harness/stream-%s-crashed" % name, "stream %s could not complete: %s" % (name, tb.splitlines()[-1]),
                     {"kind": "crash", "stream": name, "traceback": tb[-3000:]}, found_input=False)
        return None


API_NAMES = {"E": "get_expectation_value", "V": "get_variance", "SE": "get_standard_error", "Ef": "_get_expectation_value_from_frequencies",
             "Es": "_get_expectation_value_from_statevector"}


def report_mutation(ck, case, impl):
    """The caller's initial_statevector array was modified by a call: every later evaluation with that array is wrong."""
    done = [k for k in ("E", "V", "SE", "Ef", "Es") if k in impl]
    for idx in impl.get("isv_mutated_by", []):
        api = API_NAMES[done[idx]] if idx < len(done) else "call"
        ck.violation("C02/%s/%s/initial_statevector-modified-in-place/%s" % (api, case["backend"], feature(case)),
                     "%s changed the caller's initial_statevector array in place (%s): a later evaluation that reuses the array sees another state"
                     % (api, feature(case)), {"kind": "case", "case": jcase(case), "check": "initial_statevector unchanged"})


def safe_impl(ck, stream, case, apis=("E", "V", "SE", "Ef", "Es")):
    """run_impl; an exception outside the API calls proper (building the operator / circuit / backend inside tangelo)
    is a violation carrying the case."""
    try:
        impl = run_impl(case, apis=apis)
        report_mutation(ck, case, impl)
        return impl
    except Exception as e:                                              # noqa
        ck.violation("C02/%s/%s/exception-while-building-case" % (stream, case["backend"]),
                     "tangelo raised %s: %s while building / running a generated case" % (type(e).__name__, str(e)[:200]),
                     {"kind": "case", "case": jcase(case)})
        return None


def model_eval(ck, name, exprs, **kw):
    """coq_eval that never stops the check: None when the model cannot be evaluated (reported, no input)."""
    if not exprs:
        return []
    try:
        return ck.coq_eval(name, PREAMBLE, exprs, **kw)
    except Exception as e:                                              # noqa
        ck.violation("C02/correspondence/model-not-evaluable/%s" % name, "the Coq model could not be evaluated for stream %s: %s" % (name, str(e)[-600:]),
                     {"kind": "model", "stream": name}, found_input=False)
        return None


def stream_exact(ck, gen_ok, timing):
    import time
    T0 = time.time()
    rng, quick = ck.rng, ck.tier == "quick"
    ck.stream("exact", "random (operator with identity / complex / 1-3 factor words, circuit on the pi/8 grid with 0-7 gates of every unitary kind, "
              "initial statevector from a prefix circuit, 0-2 post-selected MEASUREs, backend cirq / cirq-generic) with n_shots=None: "
              "get_expectation_value, get_variance, get_standard_error, both private routes vs numpy <psi|H|psi> and vs the exact Coq model "
              "(value, variance, route taken); non-trivial = operator has an X or Y factor and the state is not an eigenstate of every term")
    cases = []
    # exhaustive: all 1- and 2-qubit words x all exact paths x states
    states2 = [[], [{"name": "H", "target": [0], "control": None, "k": None, "var": False},
                    {"name": "T", "target": [0], "control": None, "k": None, "var": False},
                    {"name": "CNOT", "target": [1], "control": [0], "k": None, "var": False},
                    {"name": "RY", "target": [1], "control": None, "k": 3, "var": False}],
               [{"name": "RX", "target": [0], "control": None, "k": 5, "var": False},
                {"name": "RY", "target": [1], "control": None, "k": -3, "var": False},
                {"name": "XX", "target": [0, 1], "control": None, "k": 3, "var": False},
                {"name": "S", "target": [1], "control": None, "k": None, "var": False}]]
    if not quick:
        states2.append(clean(LC.rand_gate_list(rng, 2, 6, LC.ALL_UNITARY, var_p=0.0)))
    for w in exhaustive_words(2):
        for st in states2:
            for be in ("cirq", "generic"):
                for mode in ("circuit", "isv"):
                    if mode == "isv" and not st:
                        continue
                    cases.append({"n": 2, "prefix": st if mode == "isv" else [], "pass_isv": mode == "isv",
                                  "segs": [[[] if mode == "isv" else st, None]], "op": [[w, Fraction(1), Fraction(0)]], "ctype": False,
                                  "backend": be, "shots": None, "dmr": None, "exhaustive": True})
    n_rand = 90 if quick else 5000
    for i in range(n_rand):
        n = rng.choice([1, 2, 2, 3, 3, 3, 4])
        be = rng.choice(["cirq", "cirq", "generic"])
        cases.append(rand_exact_case(rng, n, be, with_meas=(rng.random() < 0.25 and n >= 2), maxlen=3 if n < 4 else 4))
    # designated edge cases: empty operator, identity only, empty circuit (+ isv), n_shots = 0, operator wider than the circuit
    h0 = {"name": "H", "target": [0], "control": None, "k": None, "var": False}
    ry1 = {"name": "RY", "target": [1], "control": None, "k": 3, "var": False}
    for be in ("cirq", "generic"):
        base = {"n": 2, "prefix": [], "pass_isv": False, "segs": [[[h0, ry1], None]], "ctype": False, "backend": be, "shots": None, "dmr": None}
        cases.append(dict(base, op=[]))
        cases.append(dict(base, op=[[[], Fraction(5, 4), Fraction(0)]]))
        cases.append(dict(base, op=[[[], Fraction(5, 4), Fraction(-1, 2)]], ctype=True))
        cases.append(dict(base, op=[[[[0, "X"]], Fraction(1), Fraction(0)], [[[1, "Z"]], Fraction(1, 2), Fraction(0)]], segs=[[[], None]]))
        cases.append(dict(base, op=[[[[0, "X"]], Fraction(1), Fraction(0)], [[[1, "Y"]], Fraction(1, 2), Fraction(0)]], segs=[[[], None]],
                          prefix=[h0, ry1], pass_isv=True))
        cases.append(dict(base, op=[[[[0, "X"], [1, "Y"]], Fraction(1), Fraction(0)]], shots=0))
        cases.append(dict(base, op=[[[[0, "X"], [1, "Y"], [2, "Z"]], Fraction(1), Fraction(0)]]))
        cases.append(dict(base, op=[[[[0, "X"], [1, "Y"], [2, "Z"]], Fraction(1), Fraction(1)]], ctype=True))
    # designated: adjacent MEASUREs and a leading MEASURE on superposed / entangled qubits, every desired outcome, every route
    h1 = {"name": "H", "target": [1], "control": None, "k": None, "var": False}
    ry2 = {"name": "RY", "target": [2], "control": None, "k": 3, "var": False}
    cx20 = {"name": "CNOT", "target": [2], "control": [0], "k": None, "var": False}
    rx1 = {"name": "RX", "target": [1], "control": None, "k": 5, "var": False}
    zz_op = [[[[0, "Z"]], Fraction(1), Fraction(0)], [[[1, "Z"], [2, "X"]], Fraction(1, 2), Fraction(0)], [[[0, "Z"], [1, "Z"]], Fraction(-3, 4), Fraction(0)],
             [[], Fraction(1, 4), Fraction(0)]]
    for be in ("cirq", "generic"):
        for b0, b1 in itertools.product((0, 1), repeat=2):
            base = {"n": 3, "ctype": False, "backend": be, "shots": None, "dmr": "given", "op": zz_op, "designated": "adjacent-measures"}
            # H0 RY2 H1 CNOT(2<-0); MEASURE 0; MEASURE 1; RX1
            cases.append(dict(base, prefix=[], pass_isv=False, segs=[[[h0, ry2, h1, cx20], [0, b0]], [[], [1, b1]], [[rx1], None]]))
            # the same state supplied as initial statevector; the circuit STARTS with MEASURE 0, MEASURE 1
            cases.append(dict(base, prefix=[h0, ry2, h1, cx20], pass_isv=True, segs=[[[], [0, b0]], [[], [1, b1]], [[rx1], None]]))
            # the circuit ends with the two measurements
            cases.append(dict(base, prefix=[], pass_isv=False, segs=[[[h0, ry2, h1, cx20], [1, b1]], [[], [0, b0]], [[], None]]))
    exprs, todo = [], []
    n_coq = 0
    coq_budget = 150 if quick else 2000
    for case in cases:
        if any(len(t[0]) > case["n"] or any(q >= case["n"] for q, _ in t[0]) for t in case["op"]):
            impl = safe_impl(ck, "exact", case, apis=("E", "V", "SE"))
            ck.case("exact", json.dumps(jcase(case), sort_keys=True), nontrivial=False, tags=[case["backend"], "operator-wider-than-circuit"])
            if impl is not None:
                check_exact(ck, case, impl, None, None)
            continue
        try:
            orc = oracle(case)
        except Exception as e:                                              # noqa
            ck.not_evaluated += 1
            continue
        if case["dmr"] is not None and orc["n_branches"] == 0:
            ck.not_evaluated += 1          # desired outcome has probability zero: simulate raises (C10)
            continue
        impl = safe_impl(ck, "exact", case)
        record(ck, "exact", case, orc, (["exhaustive-2q-words"] if case.get("exhaustive") else []) + (
            ["adjacent-or-leading-measure"] if any(m is not None and not gs for gs, m in case["segs"]) else []))
        if impl is None:
            continue
        # in the quick tier the exhaustive single-word cases go through Coq only on the generic backend (it exercises both
        # Tangelo routes: Pauli-circuit overlap and frequencies); all of them do in the thorough tier
        use_coq = gen_ok and impl["cfg"]["width_ok"] and n_coq < coq_budget and (
            case["n"] <= 3 or (case["n"] == 4 and sum(len(t[0]) for t in case["op"]) <= 4 and rng.random() < 0.3)) and \
            not (quick and case.get("exhaustive") and case["backend"] != "generic")
        if use_coq:
            n_coq += 1
            exprs.append(coq_case(case, impl["cfg"], "run_case_ps" if case["dmr"] is not None else "run_case"))
        todo.append((case, impl, orc, use_coq))
    timing["exact-impl"] = round(time.time() - T0, 1)
    T0 = time.time()
    model = model_eval(ck, "cases", exprs, shard=max(8, (len(exprs) + 3) // 4) if quick else 60, jobs=3, timeout=1500)
    it = iter(model) if model is not None else None
    for case, impl, orc, use_coq in todo:
        try:
            check_exact(ck, case, impl, orc, next(it) if (use_coq and it is not None) else None)
        except Exception as e:                                              # noqa
            ck.violation("C02/harness/check_exact-crashed", "%s: %s" % (type(e).__name__, e), {"kind": "case", "case": jcase(case)}, found_input=False)
    ck.notes["exact_cases_evaluated_in_coq"] = n_coq if model is not None else 0
    timing["exact-coq"] = round(time.time() - T0, 1)


def stream_beyond(ck):
    """A qubit index beyond the circuit width with few factors (passes the length check): must not return a number."""
    from tangelo.linq import Gate, Circuit
    from tangelo.toolboxes.operators import QubitOperator
    for be, shots, term in itertools.product(("cirq", "generic"), (None, 50), ("Z5", "X5", "Y0 Z4")):
        b = make_backend(be, shots)
        c = Circuit([Gate("H", 0), Gate("CNOT", 1, 0)], n_qubits=3)
        for api in ("get_expectation_value", "get_variance"):
            r = call(lambda: getattr(b, api)(QubitOperator(term, 1.0), c))
            ck.case("exact", "beyond:%s:%s:%s:%s" % (be, shots, term, api), nontrivial=False, tags=["index-beyond-width"])
            if r[0] == "ok":
                ck.violation("C02/%s/%s/index-beyond-width-accepted" % (api, be), "operator %s on a 3-qubit circuit returned %r" % (term, r[1]),
                             {"kind": "beyond", "backend": be, "shots": shots, "term": term, "api": api})


def check_sympy_shots(ck, case, impl, orc, notes):
    """SympySimulator with n_shots set: terms with a basis change are evaluated on exact frequencies, Z-type / identity terms
    through Backend.simulate's empty-circuit shortcut, which SAMPLES.  Exact checks only where outcomes are deterministic;
    otherwise no exception, the bound |estimate| <= sum |c_k|, 0 <= variance <= sum |c_k|^2 (agreement recorded as support)."""
    rep = {"kind": "case", "case": jcase(case)}
    bound = sum(abs(coef_c(t)) for t in case["op"]) + 1e-9
    vbound = sum(abs(coef_c(t)) ** 2 for t in case["op"]) + 1e-9
    for api, name in (("E", "get_expectation_value"), ("Ef", "_get_expectation_value_from_frequencies"), ("V", "get_variance")):
        if api not in impl:
            continue
        r = impl[api]
        if sympy_refusal("sympy", r):
            ck.not_evaluated += 1
            continue
        want = orc["E"] if api != "V" else 0.0
        if r[0] == "exc":
            sig = SIG_SYMPY_FREQ if has_xy(case) else "C02/%s/sympy/n_shots/raises" % name
            ck.violation(sig, "%s (sympy backend, n_shots=%d) raises %s: %s" % ((name, case["shots"]) + r[1:]), rep)
        elif orc["deterministic"] and not close(r[1], want, 1e-8):
            ck.violation("C02/%s/sympy/n_shots/deterministic" % name, "deterministic outcomes, n_shots=%d: returned %r, exact %r" % (case["shots"], r[1], want), rep)
        elif api != "V" and abs(r[1]) > bound:
            ck.violation("C02/%s/sympy/n_shots/estimate-exceeds-bound" % name, "|estimate| = %r > sum |c_k| = %r" % (abs(r[1]), bound), rep)
        elif api == "V" and not (-1e-9 <= r[1].real <= vbound and abs(r[1].imag) < 1e-9):
            ck.violation("C02/get_variance/sympy/n_shots/out-of-range", "variance %r outside [0, sum |c_k|^2 = %r]" % (r[1], vbound), rep)
        elif api == "E":
            sigma = math.sqrt(max(orc["V"], 0) / case["shots"]) * max(1, len(case["op"]))
            notes["n"] += 1
            notes["within_5_sigma"] += int(abs(r[1] - orc["E"]) <= 5 * sigma + 1e-9)


def stream_sympy(ck):
    rng, quick = ck.rng, ck.tier == "quick"
    ck.stream("sympy", "SympySimulator, 1-2 qubits, <= 4 gates: get_expectation_value (native route), get_variance, frequency route vs numpy; "
              "a third of the cases with n_shots=100 (exact where deterministic, bounds otherwise), some with an empty circuit")
    snotes = ck.notes.setdefault("sympy_n_shots_support_only", {"n": 0, "within_5_sigma": 0})
    n_sym = 24 if quick else 120
    for i in range(n_sym):
        n = rng.choice([1, 2, 2])
        case = rand_exact_case(rng, n, "sympy", with_meas=False, maxlen=2)
        case["prefix"], case["pass_isv"] = [], False
        names = [x for x in LC.ONE_Q + LC.ONE_Q_ROT + ["CNOT", "CZ", "CRZ", "SWAP"]]
        case["segs"] = [[clean(LC.rand_gate_list(rng, n, rng.randint(1, 4), names, max_controls=1, var_p=0.0)), None]]
        case["op"] = case["op"][:3]
        if i % 4 == 3:
            case["op"] = [t for t in case["op"] if all(l == "Z" for _, l in t[0])] or [[[[0, "Z"]], Fraction(3, 4), Fraction(0)]]
        if i % 3 == 1:
            case["shots"] = 100          # sympy does not sample: the frequency route on exact frequencies must give the exact value
        if i % 6 == 5:
            case["segs"] = [[[], None]]  # empty circuit: frequency route from the all-zero state (1D ndarray handed back)
        try:
            orc = oracle(case)
        except Exception as e:                                              # noqa
            ck.not_evaluated += 1
            continue
        impl = safe_impl(ck, "sympy", case, apis=("E", "V", "Ef") if (i % 2 == 0 or case["shots"]) else ("E",))
        record(ck, "sympy", case, orc, ["n_shots" if case["shots"] else "exact"])
        if impl is not None:
            (check_sympy_shots(ck, case, impl, orc, snotes) if case["shots"] else check_exact(ck, case, impl, orc, None))
    # designated cases: the witness of the frequency-route finding (X term), and a Z term on an asymmetric 2-qubit state
    # (bit order of the statevector handed to _statevector_to_frequencies)
    h0 = {"name": "H", "target": [0], "control": None, "k": None, "var": False}
    x0 = {"name": "X", "target": [0], "control": None, "k": None, "var": False}
    wit = {"n": 1, "prefix": [], "pass_isv": False, "segs": [[[h0], None]], "op": [[[[0, "X"]], Fraction(1), Fraction(0)]], "ctype": False,
           "backend": "sympy", "shots": None, "dmr": None}
    wit2 = dict(wit, n=2, segs=[[[x0], None]], op=[[[[0, "Z"]], Fraction(1), Fraction(0)]])
    wit3 = dict(wit, n=2, segs=[[[h0, x0], None]], op=[[[[0, "X"], [1, "Z"]], Fraction(1, 2), Fraction(0)], [[], Fraction(3, 4), Fraction(0)]], shots=10)
    wit4 = dict(wit, segs=[[[], None]])
    for w_, apis in ((wit, ("E", "V", "Ef")), (wit2, ("E", "V", "Ef")), (wit3, ("E", "V", "Ef")), (wit4, ("E", "V"))):
        impl = safe_impl(ck, "sympy", w_, apis=apis)
        orc = oracle(w_)
        record(ck, "sympy", w_, orc, ["witness"])
        if impl is not None:
            (check_sympy_shots(ck, w_, impl, orc, snotes) if w_["shots"] else check_exact(ck, w_, impl, orc, None))


def stream_sampled(ck):
    rng, quick = ck.rng, ck.tier == "quick"
    ck.stream("sampled", "n_shots=%d on the cirq backend: eigenstates of every term (product eigenstates in X/Y/Z bases, superposed spectators) prepared by "
              "a circuit / an initial statevector with an empty or non-empty circuit / with a MEASURE on a spectator (mixed state) / post-selected "
              "(desired_meas_result, incl. a measured qubit entangled with the operator's support) / with a zero-rate noise model: exact value, "
              "variance 0, standard error 0; random states: |estimate| <= sum |c_k| (+ statistical agreement as support)" % SHOTS)
    notes = {"n": 0, "within_5_sigma": 0, "variance_rel_dev_max": 0.0, "se_formula_mismatch": 0}
    ck.notes["sampled_support_only"] = notes
    variants = ["plain", "isv-empty", "isv", "mixed", "dmr", "dmr-corr", "dmr-isv", "noise"]
    cheap = ("plain", "isv-empty", "isv")

    def one(case, apis=("E", "V", "SE")):
        try:
            check_sampled(ck, case, notes, apis)
        except Exception as e:                                              # noqa
            ck.violation("C02/sampled/%s/exception" % case.get("variant", feature(case)), "%s: %s on a generated case" % (type(e).__name__, str(e)[:200]),
                         {"kind": "case", "case": jcase(case)})
    slow = ("dmr", "dmr-isv")
    for v in variants:
        # mixed-state / noisy runs loop over the shots in Python (0.3-0.6 s per simulate); with desired_meas_result every simulate of
        # the real code costs ~0.5 ms per shot (5 s at 10^4 shots, per term and per API): those use 10^3 shots in the quick tier
        # and get_standard_error (a second get_variance) is left to the other variants
        n_eig = (4 if v in cheap else 1) if quick else (60 if v in cheap else (8 if v in slow else 25))
        if quick and v == "dmr-corr":
            n_eig = 2
        for i in range(n_eig):
            n = rng.choice([2, 3, 3, 4]) if v in cheap or not quick else rng.choice([2, 3])
            case = eigen_case(rng, n, v)
            if v in slow or (quick and v not in cheap):
                case["op"] = case["op"][:2]
            if v in slow and quick:
                case["shots"] = 1000
            one(case, ("E", "V") if v in slow else ("E", "V", "SE"))
    # designated: initial statevector |q0=1>, circuit H1 MEASURE1 (post-selected on 0), operator Z0 -> -1 exactly
    g1 = lambda name, t: {"name": name, "target": [t], "control": None, "k": None, "var": False}  # noqa
    one({"n": 2, "prefix": [g1("X", 0)], "pass_isv": True, "segs": [[[g1("H", 1)], [1, 0]], [[], None]], "op": [[[[0, "Z"]], Fraction(1), Fraction(0)]],
         "ctype": False, "backend": "cirq", "shots": 1000, "dmr": "given", "noise": False, "variant": "dmr-isv"}, ("E", "V"))
    for i in range(10 if quick else 150):
        n = rng.choice([2, 3])
        case = rand_exact_case(rng, n, "cirq", with_meas=False, maxlen=2)
        case["shots"] = SHOTS
        one(case)
    # all 1- and 2-qubit words, sampled, on their eigenstates
    for w in exhaustive_words(2):
        for signs in itertools.product((1, -1), repeat=len(w)):
            gates = []
            for (q, l), s in zip(w, signs):
                if s == -1:
                    gates.append({"name": "X", "target": [q], "control": None, "k": None, "var": False})
                for nm in EIG_PREP[l]:
                    gates.append({"name": nm, "target": [q], "control": None, "k": None, "var": False})
            if not gates:
                gates = [{"name": "Z", "target": [0], "control": None, "k": None, "var": False}]
            one({"n": 2, "prefix": [], "pass_isv": False, "segs": [[gates, None]], "op": [[w, Fraction(1), Fraction(0)]], "ctype": False,
                 "backend": "cirq", "shots": SHOTS, "dmr": None, "variant": "exhaustive-2q-words"})


def run(ck):
    import time
    from translator import expval_tables
    from translator.common import TranslateError
    ck.trusted = ["Coq 8.16.1 kernel (coqc), vm_compute",
                  "translator/expval_tables.py, translator/common.py (ast extraction of the basis table and of the dispatch conditions)",
                  "hand-written model Linq/ExpPaths.v of backend.py's routes, tied by the correspondence run; interpretation of gate names (Linq/Interp.v)",
                  "harness/np_sim.py (independent numpy reference: property oracle), harness/props/C02.py",
                  "axioms: Reals (sig_forall_dec, sig_not_dec) and functional_extensionality_dep for the theorems stated over real amplitudes"]
    ck.assumptions = ["distribution over basis INDICES (bit q = qubit q); the bitstring-key form of the parity function and the bit order of keys are C18 / C01",
                      "the prepared state handed to the routes is the normalised (post-selected) vector: C10; cirq's native expectation_from_state_vector is external (correspondence only)",
                      "finite n_shots: only exact invariants (deterministic outcomes, |estimate| <= sum |c_k|); statistical agreement is recorded as support",
                      "exact streams: circuits on the pi/8 angle grid, dyadic coefficients; frequencies below Backend.freq_threshold (1e-10) make a case 'not evaluated' on the frequency route"]
    keys = ("basis_table", "basis_else_raises", "freq_cond", "sv_cond", "sv_exact_cond", "prep_cond_e", "prep_cond_v", "e_complex_types",
            "e_split_forwards_dmr", "sim_forwards_dmr_e", "v_real_forwards_dmr", "v_split_forwards_dmr", "sim_forwards_dmr_v")
    # 1. tables: regenerated from /repo; on a translator failure the failure is reported and the run continues on the
    #    last-known-good FALLBACK constants (translator/expval_tables.py), labelled as such in the evidence
    source = "regenerated from /repo"
    try:
        tabs = expval_tables.extract(REPO)
    except Exception as e:                                              # TranslateError, or a crash of the translator itself
        ck.violation("C02/translator", "translator no longer recognises the source: %s: %s" % (type(e).__name__, e),
                     {"kind": "translator", "error": str(e)}, found_input=False)
        tabs = expval_tables.fallback()
        source = "FALLBACK constants (translator failed: theorems and model correspondence below are about the last-known-good tables, not the current source)"
    ck.write_gen("ExpvalTables", expval_tables.emit(tabs))
    # 2. proofs
    res = None
    try:
        res = ck.prove(timeout=1500)
        if not res.ok:
            ck.proof_violation(res)
    except Exception as e:                                              # noqa
        ck.violation("C02/proof/build", "the proof step could not run: %s" % str(e)[-800:], {"kind": "proof", "error": str(e)[-3000:]}, found_input=False)
    gen_vo = ck.work / "gen" / "ExpvalTables.vo"
    if not gen_vo.exists() and not source.startswith("FALLBACK"):
        # the regenerated file does not type-check (already reported by the proof step): evaluate the model on the fallback
        try:
            p = ck.write_gen("ExpvalTables", expval_tables.emit(expval_tables.fallback()))
            ck.coqc(p, 600)
            source = "FALLBACK constants for the model correspondence (the regenerated file does not type-check; reported as a proof violation)"
        except Exception:                                               # noqa
            pass
    gen_ok = gen_vo.exists()
    ck.notes["tables_used"] = source if gen_ok else "none (generated tables could not be compiled): implementation-only oracles"
    ck.notes["regenerated_from_source" if source.startswith("regenerated") else "fallback_tables"] = {k: tabs[k] for k in keys}
    try:
        import tangelo.linq  # noqa
        from tangelo.linq.target.target_cirq import CirqSimulator  # noqa
    except Exception as e:
        ck.violation("C02/import", "tangelo.linq cannot be imported: %r" % e, {"kind": "import"}, found_input=False)
        return
    timing = ck.notes.setdefault("timing_s", {})
    timing["prove"] = round(time.time() - ck.t0, 1)
    # 3. streams: each on its own; the implementation-only oracles run whatever happened above
    for name, f, args in (("basis-gates", basis_gate_stream, (ck, gen_ok)), ("dispatch", dispatch_stream, (ck, gen_ok)),
                          ("exact", stream_exact, (ck, gen_ok, timing)), ("index-beyond-width", stream_beyond, (ck,)),
                          ("history", stream_history, (ck,)), ("sympy", stream_sympy, (ck,)), ("sampled", stream_sampled, (ck,))):
        T0 = time.time()
        guarded(ck, name, f, *args)
        timing[name] = round(time.time() - T0, 1)
    ck.notes["theorem_status"] = {
        "full": ["C02_parity_is_Z_expectation", "C02_parity_mask_formulation", "C02_basis_matrices", "C02_basis_rotation_word", "C02_statevector_route",
                 "C02_routes_agree", "C02_complex_split", "C02_split_parts_real", "C02_variance_pm1", "C02_variance_pm1_list", "C02_variance_reported",
                 "C02_standard_error", "C02_dispatch_total", "C02_dispatch_value", "C02_dispatch_variance", "C02_postselected_scaling",
                 "C02_mixed_state_frequencies"],
        "not_covered_by_a_theorem": ["statistics of finite-shot estimates", "cirq / sympy native expectation (external)",
                                     "bitstring keys <-> basis indices (C01, C18)"]}


# ------------------------------------------------------------------------------------------ replay
def replay(data):
    r = data["replay"]
    if r.get("kind") in ("case", "dispatch"):
        case = r["case"]
        for t in case["op"]:
            t[1], t[2] = Fraction(t[1]), Fraction(t[2])
        impl = run_impl(case, apis=("E", "V", "SE"))
        orc = oracle(case)
        print("case   :", json.dumps(jcase(case))[:2000])
        print("oracle : E=%r V=%r deterministic=%s" % (orc["E"], orc["V"], orc["deterministic"]))
        print("impl   : E=%s V=%s SE=%s routes=%r" % (impl.get("E"), impl.get("V"), impl.get("SE"), impl.get("trace")))
        bad = 0
        if impl.get("isv_mutated_by"):
            print("the caller's initial_statevector array was modified in place")
            bad = 1
        if case["shots"] in (None, 0) or orc["deterministic"]:
            for api, want in (("E", orc["E"]), ("V", orc["V"] if case["shots"] in (None, 0) else 0.0)):
                x = impl.get(api)
                if x is None:
                    continue
                if impl["cfg"]["width_ok"]:
                    if x[0] != "ok" or abs(x[1] - want) > 1e-8:
                        bad = 1
                elif x[0] == "ok":
                    bad = 1
        print("still fails" if bad else "passes now")
        return bad
    if r.get("kind") == "history":
        bad = 0
        for (i, api, x, want, lastmut, near) in run_history(r["history"]):
            if api.startswith("M:"):
                print("step %d: %s modified the caller's initial_statevector array in place   <-- differs" % (i, api[2:]))
                bad = 1
                continue
            ok = x[0] == "ok" and abs(x[1] - want) <= 1e-8
            print("step %d %s after %s: impl %s, exact %r%s" % (i, api, lastmut, x[1:] if x[0] == "exc" else x[1], want, "" if ok else "   <-- differs"))
            bad |= (not ok)
        print("still fails" if bad else "passes now")
        return int(bad)
    if r.get("kind") == "beyond":
        from tangelo.linq import Gate, Circuit
        from tangelo.toolboxes.operators import QubitOperator
        b = make_backend(r["backend"], r["shots"])
        c = Circuit([Gate("H", 0), Gate("CNOT", 1, 0)], n_qubits=3)
        x = call(lambda: getattr(b, r["api"])(QubitOperator(r["term"], 1.0), c))
        print(x)
        return 1 if x[0] == "ok" else 0
    print(json.dumps(r, indent=1)[:3000])
    return 1
