"""C03 — fermion-to-qubit encodings are faithful representations (DESIGN §7.C03).

  regenerate  gen/EncodingTables.v from jkmn.py (sigma_map, node-value formula) and combinatorial.py
              (base case of recursive_mapping, bit pairs of int_to_tuple)
  prove       coq/props/C03.v (generic Majorana => CAR lemma, JW for all n, spin re-ordering, scBK parity
              factors, bounded BK / BK-tree / JKMN anticommutation, regenerated tables = model tables)
  correspond  fermion_to_qubit_mapping(op, mapping, n, n_electrons, up_then_down, spin) on the real code
              versus Fermion.Mapping.f2q evaluated by vm_compute in the exact instance (Q(i) coefficients):
              every single ladder operator and every ordered pair on n modes (exhaustive), random
              number- and spin-conserving Hamiltonians, excitation generators, random products,
              registers larger than the operator's support, error cases
  oracle      numpy, on the implementation alone: CAR residuals, products/sums/adjoints map to
              products/sums/adjoints, spectrum on the represented space equals the spectrum of the Fock
              matrix (sector for scBK / combinatorial, seniority-zero space for HCB)
"""
import itertools
import json
from fractions import Fraction

from harness.lib import REPO, VERIF, coq_Z, coq_N, coq_list, coq_bool, coq_nat

LEVEL = "proof"
TOL = 1e-9

PREAMBLE = """From Coq Require Import String ZArith NArith List Bool.
From Tangelo Require Import Pauli.Word Fermion.Fock Fermion.CAR Fermion.JKMN Fermion.Mapping Fermion.ShowEnc Fermion.HCB Fermion.Comb.
From Gen Require Import EncodingTables.
Import ListNotations.
Open Scope string_scope.
"""
COQ_MAP = {"JW": "MJW", "BK": "MBK", "SCBK": "MSCBK", "JKMN": "MJKMN"}
FULL = ["JW", "BK", "JKMN"]


# ------------------------------------------------------------------------------------------ canonical forms
def word_key(term):
    return ".".join("%s%d" % (p, q) for q, p in term) if term else "I"


def qop_dict(qop):
    return {word_key(t): complex(c) for t, c in qop.terms.items()}


def parse_model(s):
    """'Ok w:re,im;...' -> ('Ok', {w: complex}) ; 'Err:Kind' -> ('Err', Kind)"""
    if s.startswith("Err:"):
        return "Err", s[4:]
    body = s[2:].strip()
    d = {}
    if body:
        for item in body.split(";"):
            w, c = item.split(":")
            if c == "NOT-GAUSSIAN":
                raise RuntimeError("model produced a coefficient outside Q(i): %s" % s[:200])
            re_, im_ = c.split(",")
            d[w] = complex(float(Fraction(re_)), float(Fraction(im_)))
    return "Ok", d


def dict_diff(a, b, tol=TOL):
    """keys on which two coefficient dictionaries differ by more than tol (absent = 0)"""
    return sorted(k for k in set(a) | set(b) if abs(a.get(k, 0) - b.get(k, 0)) > tol)


def dyadic(c):
    """complex with dyadic parts -> (re, im, m) with c = (re + i im)/2^m, or None"""
    c = complex(c)
    fr, fi = Fraction(c.real), Fraction(c.imag)
    den = max(fr.denominator, fi.denominator)
    if den & (den - 1) or den > 2 ** 40:
        return None
    m = den.bit_length() - 1
    return int(fr * den), int(fi * den), m


def coq_fop(terms):
    items = []
    for t, c in terms:
        d = dyadic(c)
        items.append("(%s, (%s, %s, %s))" % (
            coq_list(["(%s, %s)" % (coq_N(p), coq_bool(a)) for p, a in t]), coq_Z(d[0]), coq_Z(d[1]), coq_nat(d[2])))
    return coq_list(items)


def coq_case(mapping, n, ne, spin, utd, terms_list):
    return "run_f2q_batch jkmn_tab_gen %s %s %s %s %s %s" % (
        COQ_MAP[mapping], coq_N(n), coq_Z(ne), coq_Z(spin), coq_bool(utd), coq_list([coq_fop(t) for t in terms_list]))


# ------------------------------------------------------------------------------------------ implementation
def make_fop(terms):
    from tangelo.toolboxes.operators import FermionOperator
    op = FermionOperator()
    for t, c in terms:
        op += FermionOperator(tuple(t), c)
    return op


def run_impl(mapping, n, ne, spin, utd, terms):
    from tangelo.toolboxes.qubit_mappings.mapping_transform import fermion_to_qubit_mapping
    try:
        q = fermion_to_qubit_mapping(make_fop(terms), mapping, n_spinorbitals=n, n_electrons=ne,
                                     up_then_down=utd, spin=spin)
        return "Ok", qop_dict(q)
    except Exception as e:
        return "Err", type(e).__name__


# ------------------------------------------------------------------------------------------ numpy oracle
def fock_matrix(terms, n):
    """dense matrix of a fermionic operator on n modes; basis index = occupation bitmask (bit p = mode p);
    a_p |d> = (-1)^{#occupied below p} |d - p>  (written independently of the Coq model)"""
    import numpy as np
    dim = 1 << n
    M = np.zeros((dim, dim), dtype=complex)
    for t, c in terms:
        for d in range(dim):
            s, e, ok = 1, d, True
            for p, a in reversed(t):
                occ = (e >> p) & 1
                if occ == a:
                    ok = False
                    break
                if bin(e & ((1 << p) - 1)).count("1") & 1:
                    s = -s
                e ^= 1 << p
            if ok:
                M[e, d] += s * c
    return M


_P = None


def qubit_matrix(qd, nq):
    """dense matrix of a word->coefficient dictionary on nq qubits, qubit q = bit q of the index"""
    import numpy as np
    global _P
    if _P is None:
        _P = {"I": np.eye(2, dtype=complex), "X": np.array([[0, 1], [1, 0]], dtype=complex),
              "Y": np.array([[0, -1j], [1j, 0]], dtype=complex), "Z": np.array([[1, 0], [0, -1]], dtype=complex)}
    dim = 1 << nq
    M = np.zeros((dim, dim), dtype=complex)
    for w, c in qd.items():
        if abs(c) < 1e-14:
            continue
        fac = ["I"] * nq
        if w != "I":
            for f in w.split("."):
                q = int(f[1:])
                if q >= nq:
                    raise ValueError("qubit %d outside the %d-qubit register" % (q, nq))
                fac[q] = f[0]
        m = np.array([[1]], dtype=complex)
        for q in range(nq):          # qubit 0 least significant
            m = np.kron(_P[fac[q]], m)
        M += c * m
    return M


def spectra_equal(A, B, tol=1e-7):
    import numpy as np
    if A.shape != B.shape:
        return False
    ea, eb = np.linalg.eigvalsh(A), np.linalg.eigvalsh(B)
    return bool(np.max(np.abs(ea - eb)) < tol) if len(ea) else True


def scbk_sector(n, ne, spin):
    """determinants (alternating ordering: even = alpha) with the number parity and alpha parity of (ne, spin)"""
    na = (ne + spin) // 2
    return [d for d in range(1 << n)
            if bin(d).count("1") % 2 == ne % 2 and sum((d >> p) & 1 for p in range(0, n, 2)) % 2 == na % 2]


def herm_part(terms):
    """(op + op^dagger) as a term list"""
    out = list(terms)
    for t, c in terms:
        out.append((tuple((p, 1 - a) for p, a in reversed(t)), complex(c).conjugate()))
    return out


def oracle_spectrum(mapping, n, ne, spin, utd, terms, impl):
    """the property itself on the implementation: the (Hermitian) operator and its image have the same
    spectrum on the represented space.  Returns None if fine, else a description."""
    import numpy as np
    F = fock_matrix(terms, n)
    if np.max(np.abs(F - F.conj().T)) > 1e-12:
        return None
    if impl[0] != "Ok":
        return None
    if mapping in FULL:
        Q = qubit_matrix(impl[1], n)
        if not spectra_equal(F, Q):
            return "spectrum of the %s image differs from the Fock-space spectrum" % mapping
    elif mapping == "SCBK":
        if (ne + spin) % 2:
            return None           # n_alpha = (n_e + spin)/2 is not an integer: no sector is documented
        idx = scbk_sector(n, ne, spin)
        Q = qubit_matrix(impl[1], n - 2)
        Fs = F[np.ix_(idx, idx)]
        if not spectra_equal(Fs, Q):
            return "spectrum of the scBK image differs from the spectrum on the (N parity, N_alpha parity) sector"
    return None


def oracle_car(mapping, n, utd):
    """CAR residuals of the images of the ladder operators produced by the real code"""
    import numpy as np
    mats = {}
    for p in range(n):
        for a in (0, 1):
            r = run_impl(mapping, n, 0, 0, utd, [(((p, a),), 1.0)])
            if r[0] != "Ok":
                return "ladder operator (%d,%d) rejected: %s" % (p, a, r[1])
            mats[(p, a)] = qubit_matrix(r[1], n)
    worst = 0.0
    I = np.eye(1 << n)
    for p in range(n):
        if np.max(np.abs(mats[(p, 1)] - mats[(p, 0)].conj().T)) > 1e-12:
            return "image of a_%d^dagger is not the adjoint of the image of a_%d" % (p, p)
        for q in range(n):
            A, B, Bd = mats[(p, 0)], mats[(q, 0)], mats[(q, 1)]
            r1 = np.max(np.abs(A @ Bd + Bd @ A - (I if p == q else 0 * I)))
            r2 = np.max(np.abs(A @ B + B @ A))
            worst = max(worst, r1, r2)
            if max(r1, r2) > 1e-12:
                return "CAR violated for modes %d,%d (residual %.3g)" % (p, q, max(r1, r2))
    return None


def oracle_homomorphism(mapping, n, ne, spin, utd, ta, tb):
    """products / sums / adjoints of the implementation's own outputs"""
    from tangelo.toolboxes.operators import QubitOperator
    from openfermion.utils import hermitian_conjugated
    from tangelo.toolboxes.qubit_mappings.mapping_transform import fermion_to_qubit_mapping as f2q

    def enc(terms):
        return f2q(make_fop(terms), mapping, n_spinorbitals=n, n_electrons=ne, up_then_down=utd, spin=spin)
    try:
        qa, qb = enc(ta), enc(tb)
        prod_terms = [(tuple(s) + tuple(t), c * d) for s, c in ta for t, d in tb]
        qab = enc(prod_terms)
        qsum = enc(list(ta) + [(t, 2 * c) for t, c in tb])
        qadj = enc([(tuple((p, 1 - a) for p, a in reversed(t)), complex(c).conjugate()) for t, c in ta])
    except Exception as e:
        return "exception %s" % type(e).__name__
    def mul(x, y):
        r = QubitOperator()
        r.terms = dict(x.terms)
        r = r * y
        return r
    if dict_diff(qop_dict(qab), qop_dict(mul(qa, qb))):
        return "image of a product differs from the product of the images"
    lin = QubitOperator()
    lin.terms = dict(qa.terms)
    lin = lin + 2 * qb
    if dict_diff(qop_dict(qsum), qop_dict(lin)):
        return "image of a + 2b differs from image(a) + 2 image(b)"
    if dict_diff(qop_dict(qadj), qop_dict(hermitian_conjugated(qa))):
        return "image of the adjoint differs from the adjoint of the image"
    return None


# ------------------------------------------------------------------------------------------ generators
DY = [Fraction(k, 8) for k in range(-12, 13) if k != 0]


def rnd_coef(rng, cplx=False):
    c = float(rng.choice(DY))
    if cplx and rng.random() < 0.4:
        return complex(c, float(rng.choice(DY)))
    return c


def gen_hamiltonian(rng, n):
    """Hermitian, number- and spin-conserving (spin of mode p = p % 2), dyadic coefficients"""
    terms = []
    if rng.random() < 0.6:
        terms.append(((), float(rng.choice(DY))))
    for _ in range(rng.randint(1, 4)):
        p = rng.randrange(n)
        q = rng.choice([x for x in range(n) if x % 2 == p % 2])
        c = rnd_coef(rng, cplx=(p != q))
        if p == q:
            terms.append((((p, 1), (p, 0)), float(complex(c).real)))
        else:
            terms.append((((p, 1), (q, 0)), c))
            terms.append((((q, 1), (p, 0)), complex(c).conjugate()))
    if n >= 2:
        for _ in range(rng.randint(0, 3)):
            for _try in range(20):
                p, q = rng.sample(range(n), 2)
                r, s = rng.sample(range(n), 2)
                if (p % 2) + (q % 2) == (r % 2) + (s % 2):
                    break
            else:
                continue
            c = rnd_coef(rng, cplx=True)
            t = ((p, 1), (q, 1), (r, 0), (s, 0))
            th = ((s, 1), (r, 1), (q, 0), (p, 0))
            if t == th:
                terms.append((t, float(complex(c).real)))
            else:
                terms.append((t, c))
                terms.append((th, complex(c).conjugate()))
    return terms


def gen_excitation(rng, n):
    """anti-Hermitian generator T - T^dagger of a spin-conserving single or double excitation"""
    if n >= 4 and rng.random() < 0.5:
        for _try in range(50):
            p, q = rng.sample(range(n), 2)
            r, s = rng.sample(range(n), 2)
            if (p % 2) + (q % 2) == (r % 2) + (s % 2) and {p, q} != {r, s}:
                break
        c = float(rng.choice(DY))
        return [(((p, 1), (q, 1), (r, 0), (s, 0)), c), (((s, 1), (r, 1), (q, 0), (p, 0)), -c)]
    p = rng.randrange(n)
    q = rng.choice([x for x in range(n) if x % 2 == p % 2 and x != p] or [p])
    c = float(rng.choice(DY))
    if p == q:
        return [(((p, 1), (p, 0)), c)]
    return [(((p, 1), (q, 0)), c), (((q, 1), (p, 0)), -c)]


def gen_product(rng, n):
    k = rng.randint(1, 4)
    return [(tuple((rng.randrange(n), rng.randint(0, 1)) for _ in range(k)), rnd_coef(rng, cplx=True))]


def sectors(n):
    out = []
    for ne in range(0, n + 1):
        for na in range(0, n // 2 + 1):
            nb = ne - na
            if 0 <= nb <= n // 2:
                out.append((ne, na - nb))
    return out


def is_hermitian_terms(terms, n):
    import numpy as np
    F = fock_matrix(terms, n)
    return bool(np.max(np.abs(F - F.conj().T)) < 1e-12)


# ------------------------------------------------------------------------------------------ streams
class Batch:
    """collects (config, operator) cases, runs the implementation at once, the model in batches per config"""
    def __init__(self, ck, stream, rule):
        self.ck, self.stream = ck, stream
        ck.stream(stream, rule)
        self.groups = {}          # config -> list of (terms, tags)

    def add(self, mapping, n, ne, spin, utd, terms, tags=()):
        # both sides see the operator as the FermionOperator holds it (duplicate terms merged, cancelled terms removed)
        terms = [(t, c) for t, c in make_fop(terms).terms.items()]
        if any(dyadic(c) is None for _, c in terms):
            self.ck.not_evaluated += 1
            return
        self.groups.setdefault((mapping, n, ne, spin, utd), []).append((terms, tuple(tags)))

    def run(self, oracle=True, chunk=60):
        ck = self.ck
        exprs, index = [], []
        for cfg, cases in self.groups.items():
            for i in range(0, len(cases), chunk):
                part = cases[i:i + chunk]
                exprs.append(coq_case(*cfg, [t for t, _ in part]))
                index.append((cfg, part))
        try:
            model = ck.coq_eval(self.stream.replace("/", "_").replace("-", "_"), PREAMBLE, exprs, shard=40, jobs=3)
        except Exception as e:
            # the model cannot be evaluated (broken generated table / theory): reported, and every case still goes
            # through the implementation-only oracle
            ck.violation("C03/model-evaluation/%s" % self.stream, "the Coq model could not be evaluated: %s" % str(e)[-600:],
                         {"kind": "model-eval", "stream": self.stream, "error": str(e)[-3000:]}, found_input=False)
            model = [None] * len(exprs)
        for (cfg, part), out in zip(index, model):
            outs = out.split("|") if out is not None else [None] * len(part)
            if len(outs) != len(part):
                ck.violation("C03/model-evaluation/%s" % self.stream, "model batch returned %d results for %d cases"
                             % (len(outs), len(part)), {"kind": "model-eval", "stream": self.stream}, found_input=False)
                outs = [None] * len(part)
            for (terms, tags), ms in zip(part, outs):
                try:
                    self.compare(cfg, terms, tags, ms, oracle or ms is None)
                except Exception as e:
                    import traceback
                    ck.violation("C03/harness/%s" % self.stream, "case could not be compared: %r" % e,
                                 {"kind": "case", "case": {"cfg": list(cfg), "terms": repr(terms)},
                                  "traceback": traceback.format_exc()[-2000:]}, found_input=False)

    def compare(self, cfg, terms, tags, ms, oracle):
        ck = self.ck
        mapping, n, ne, spin, utd = cfg
        impl = run_impl(mapping, n, ne, spin, utd, terms)
        mod = parse_model(ms) if ms is not None else None
        nontrivial = impl[0] == "Ok" and sum(1 for c in impl[1].values() if abs(c) > TOL) >= 2
        case = {"mapping": mapping, "n": n, "n_electrons": ne, "spin": spin, "up_then_down": utd,
                "terms": [[list(map(list, t)), [complex(c).real, complex(c).imag]] for t, c in terms]}
        ck.case(self.stream, json.dumps(case), nontrivial=nontrivial,
                sample=dict(case, impl=str(impl)[:300], model=(ms or "not evaluated")[:300]),
                tags=[mapping, "n=%d" % n, "utd" if utd else "alt", impl[0]] + list(tags))
        bad = None
        if mod is None:
            pass
        elif impl[0] != mod[0]:
            bad = "implementation %s, model %s" % (impl if impl[0] == "Err" else "Ok", mod if mod[0] == "Err" else "Ok")
        elif impl[0] == "Ok":
            diff = dict_diff(impl[1], mod[1])
            if diff:
                bad = "coefficients differ on %s: implementation %s, model %s" % (
                    diff[:4], [impl[1].get(k, 0) for k in diff[:4]], [mod[1].get(k, 0) for k in diff[:4]])
        found = None
        # the property itself: an operator of the documented domain must be mapped, not rejected.  Valid = the model
        # (where evaluated) maps it, or: full-space encoding, operator inside the register, even n when re-ordering.
        support = max([q + 1 for t, _ in terms for q, _ in t] + [0])
        valid = (mod is not None and mod[0] == "Ok") or \
                (mapping in FULL and n >= support and not (utd and n % 2))
        if impl[0] == "Err" and valid:
            if utd and all(len(t) == 0 for t, _ in terms):
                sig = "C03/make_up_then_down/constant-operator"
                why = "an operator without ladder factors (constant / zero) is rejected when up_then_down=True"
            else:
                sig = "C03/%s/rejected-valid-operator" % mapping
                why = "an exception is raised on an operator of the documented domain"
            ck.violation(sig, "%s: %s(%s); case %s" % (why, impl[1], mapping, json.dumps(case)[:400]),
                         {"kind": "case", "case": case}, found_input=True)
            return               # a concrete failing input was reported; the mismatch with the model is explained by it
        if oracle or bad:
            found = oracle_spectrum(mapping, n, ne, spin, utd, terms, impl) if n <= 8 else None
            if found is None and bad and not is_hermitian_terms(terms, n):
                found = oracle_spectrum(mapping, n, ne, spin, utd, herm_part(terms),
                                        run_impl(mapping, n, ne, spin, utd, herm_part(terms)))
        if found:
            ck.violation("C03/%s/spectrum/%s" % (mapping, "utd" if utd else "alt"),
                         "%s; case %s" % (found, json.dumps(case)[:600]), {"kind": "case", "case": case}, found_input=True)
        if bad and not found:
            ck.violation("C03/%s/correspondence/%s" % (mapping, self.stream),
                         "model and implementation differ: %s; case %s" % (bad, json.dumps(case)[:600]),
                         {"kind": "case", "case": case, "impl": str(impl)[:2000], "model": (ms or "")[:2000]}, found_input=False)


def stream_exhaustive(ck, nmax):
    b = Batch(ck, "ladder-exhaustive",
              "every single ladder operator and every ordered pair on modes < n for n = 1..%d, mappings JW/BK/JKMN "
              "(all n) and scBK (even n, every admissible (n_electrons, spin)), both orderings; the register size n is "
              "given explicitly, so operators that do not touch the highest orbital are included; non-trivial = image "
              "has >= 2 Pauli terms" % nmax)
    for n in range(1, nmax + 1):
        lad = [(p, a) for p in range(n) for a in (0, 1)]
        ops = [[((l,), 1.0)] for l in lad] + [[((l1, l2), 1.0)] for l1 in lad for l2 in lad]
        for utd in ([False, True] if n % 2 == 0 else [False]):
            for m in FULL:
                for t in ops:
                    b.add(m, n, 0, 0, utd, t, tags=["len=%d" % len(t[0][0])])
            if n % 2 == 0:
                for ne, spin in sectors(n):
                    for t in ops:
                        b.add("SCBK", n, ne, spin, utd, t, tags=["len=%d" % len(t[0][0])])
    b.run(oracle=False)
    return b


def stream_random(ck, count, nmax):
    b = Batch(ck, "random-operators",
              "random Hermitian number- and spin-conserving Hamiltonians (dyadic, partly complex coefficients), "
              "excitation generators T - T^dagger, random products of 1-4 ladder operators; n even in 2..%d with "
              "n >= support (often larger); all four mappings, both orderings, random admissible and some "
              "inadmissible / negative (n_electrons, spin); non-trivial = image has >= 2 Pauli terms" % nmax)
    rng = ck.rng
    for _ in range(count):
        n = rng.choice([x for x in range(2, nmax + 1, 2)])
        support = rng.choice([n, n, max(2, n - 1), max(2, n - 2)])
        kind = rng.choice(["ham", "ham", "exc", "prod"])
        terms = {"ham": gen_hamiltonian, "exc": gen_excitation, "prod": gen_product}[kind](rng, support)
        utd = rng.random() < 0.5
        for m in FULL:
            if rng.random() < 0.7:
                nn = n if rng.random() < 0.8 else n + rng.choice([1, 2, 3])
                if utd and nn % 2:
                    nn += 1
                b.add(m, nn, 0, 0, utd, terms, tags=[kind])
        ne, spin = rng.choice(sectors(n))
        if rng.random() < 0.15:
            spin = rng.choice([-3, -2, -1, 1, 2, 3, 5])
            ne = rng.choice([-1, 0, 1, 2, 3, n, n + 1])
        b.add("SCBK", n, ne, spin, utd, terms, tags=[kind, "sector"])
    b.run(oracle=True)
    return b


def stream_errors(ck, count):
    b = Batch(ck, "error-cases",
              "operators outside the register (n smaller than the support), odd n with up_then_down, constant-only "
              "operators with up_then_down, parity-violating operators for scBK; compared: accepted / exception class")
    rng = ck.rng
    for _ in range(count):
        n = rng.randint(1, 5)
        kind = rng.choice(["small-n", "odd-utd", "const-utd", "parity"])
        if kind == "small-n":
            terms = gen_product(rng, n + rng.randint(1, 2))
            m = rng.choice(["BK", "SCBK", "JW"])
            utd = rng.random() < 0.5
        elif kind == "odd-utd":
            n = rng.choice([1, 3, 5])
            terms = gen_product(rng, n)
            m, utd = rng.choice(FULL + ["SCBK"]), True
        elif kind == "const-utd":
            n = rng.choice([2, 4])
            terms = [((), 1.5)]
            m, utd = rng.choice(FULL + ["SCBK"]), rng.random() < 0.7
        else:
            n = rng.choice([2, 4])
            terms = gen_product(rng, n)
            m, utd = "SCBK", rng.random() < 0.5
        if m == "SCBK" and n % 2:
            n += 1
        if m == "JKMN" and max([p for t, _ in terms for p, _ in t] + [-1]) >= n:
            continue
        b.add(m, n, rng.randint(0, n), 0, utd, terms, tags=[kind])
    b.run(oracle=False)
    return b


def stream_oracle(ck, nmax_car, count, nmax):
    st = ck.stream("oracle", "property evaluated on the implementation alone: CAR residuals of all ladder images "
                   "(JW/BK/JKMN, n <= %d, both orderings); image of product / sum / adjoint = product / sum / adjoint "
                   "of images; spectrum on the represented space for HCB (seniority-zero space) and combinatorial "
                   "(fixed n_alpha, n_beta)" % nmax_car)
    rng = ck.rng
    for n in range(1, nmax_car + 1):
        for utd in ([False, True] if n % 2 == 0 else [False]):
            for m in FULL:
                r = oracle_car(m, n, utd)
                ck.case("oracle", "car-%s-%d-%s" % (m, n, utd), nontrivial=n >= 2, tags=["car", m])
                if r:
                    ck.violation("C03/%s/car/%s" % (m, "utd" if utd else "alt"), "%s (n=%d)" % (r, n),
                                 {"kind": "car", "mapping": m, "n": n, "up_then_down": utd}, found_input=True)
    for _ in range(count):
        n = rng.choice(list(range(2, nmax + 1, 2)))
        m = rng.choice(FULL + ["SCBK"])
        utd = rng.random() < 0.5
        if m == "SCBK":
            ta, tb = gen_hamiltonian(rng, n), gen_excitation(rng, n)
            ne, spin = rng.choice(sectors(n))
        else:
            ta, tb = gen_product(rng, n) + gen_product(rng, n), gen_product(rng, n)
            ne, spin = 0, 0
        r = oracle_homomorphism(m, n, ne, spin, utd, ta, tb)
        ck.case("oracle", json.dumps([m, n, utd, str(ta), str(tb)]), nontrivial=True, tags=["homomorphism", m])
        if r:
            ck.violation("C03/%s/homomorphism" % m, "%s; a=%s b=%s n=%d utd=%s" % (r, ta, tb, n, utd),
                         {"kind": "hom", "mapping": m, "n": n, "n_electrons": ne, "spin": spin, "up_then_down": utd,
                          "a": repr(ta), "b": repr(tb)}, found_input=True)


# ------------------------------------------------------------------------------------------ main
def run(ck):
    from translator import encoding_tables
    from translator.common import TranslateError
    ck.trusted = ["Coq 8.16.1 kernel (coqc), vm_compute",
                  "translator/encoding_tables.py, translator/common.py (ast pattern match)",
                  "harness/props/C03.py (generators, canonical printers, numpy oracle)",
                  "hand-written models coq/theories/Fermion/{JW,BK,SCBK,JKMN,Mapping,HCB,Comb}.v tied by correspondence; "
                  "openfermion (jordan_wigner, bravyi_kitaev, bravyi_kitaev_tree, FermionOperator / QubitOperator / "
                  "MajoranaOperator arithmetic) is external and reached only through that correspondence"]
    ck.assumptions = ["coefficients are dyadic rationals of small size, so binary64 arithmetic in the implementation is exact",
                      "scBK is exercised for even n_spinorbitals >= 2 only (spin-orbitals come in pairs)",
                      "matrix elements of qubit operators use the closed-form word action (word_flip / word_phase) of Pauli/Action.v"]
    # every source file separately: a part the translator no longer recognises is reported and replaced by its
    # last-known-good FALLBACK constants so that correspondence and oracles keep running
    tables, terrs = encoding_tables.extract_parts(REPO)
    for part, err in terrs.items():
        ck.violation("C03/translator/encoding_tables/%s" % part, "translator no longer recognises the source: %s" % err,
                     {"kind": "translator", "part": part, "error": err}, found_input=False)
    ck.notes["tables_source"] = "regenerated from /repo" if not terrs else \
        "regenerated from /repo except %s: FALLBACK last-known-good constants from translator/encoding_tables.py (%s)" % (
            sorted(terrs), "; ".join("%s: %s" % (k, v[:160]) for k, v in terrs.items()))
    ck.write_gen("EncodingTables", encoding_tables.emit(tables))
    try:
        res = ck.prove()
        if not res.ok:
            ck.proof_violation(res)
    except Exception as e:
        ck.violation("C03/proof/build", "the proof step could not be run: %s" % str(e)[-600:],
                     {"kind": "proof", "error": str(e)[-3000:]}, found_input=False)
    try:
        import tangelo.toolboxes.qubit_mappings.mapping_transform  # noqa
    except Exception as e:
        ck.violation("C03/import", "tangelo qubit mappings cannot be imported: %r" % e, {"kind": "import"}, found_input=False)
        return                   # nothing of the implementation can be executed
    quick = ck.tier == "quick"

    def guarded(name, f):
        try:
            f()
        except Exception as e:
            import traceback
            ck.violation("C03/stream/%s" % name, "stream %s could not complete: %r" % (name, e),
                         {"kind": "stream", "stream": name, "traceback": traceback.format_exc()[-3000:]}, found_input=False)

    def corpus_stream():
        corpus = VERIF / "corpus" / "C03"
        if corpus.exists():
            b = Batch(ck, "corpus", "stored cases")
            for f in sorted(corpus.glob("*.json")):
                c = json.loads(f.read_text())["case"]
                b.add(c["mapping"], c["n"], c["n_electrons"], c["spin"], c["up_then_down"],
                      [(tuple(tuple(x) for x in t), complex(*co)) for t, co in c["terms"]])
            b.run()
    from harness.props import C03_paired
    guarded("corpus", corpus_stream)
    guarded("oracle", lambda: stream_oracle(ck, 3 if quick else 5, 60 if quick else 600, 4 if quick else 6))
    guarded("ladder-exhaustive", lambda: stream_exhaustive(ck, 4 if quick else 6))
    guarded("random-operators", lambda: stream_random(ck, 200 if quick else 3000, 6 if quick else 8))
    guarded("error-cases", lambda: stream_errors(ck, 60 if quick else 600))
    guarded("hcb", lambda: C03_paired.run_hcb_stream(ck))
    guarded("combinatorial", lambda: C03_paired.run_comb_stream(ck))
    guarded("history", lambda: C03_paired.run_history_stream(ck))


def replay(data):
    r = data["replay"]
    if r.get("kind") in ("hcb", "comb", "history"):
        from harness.props import C03_paired
        return C03_paired.replay(r)
    if r.get("kind") == "case":
        c = r["case"]
        terms = [(tuple(tuple(x) for x in t), complex(*co)) for t, co in c["terms"]]
        impl = run_impl(c["mapping"], c["n"], c["n_electrons"], c["spin"], c["up_then_down"], terms)
        print("implementation:", impl)
        found = oracle_spectrum(c["mapping"], c["n"], c["n_electrons"], c["spin"], c["up_then_down"], terms, impl)
        print("spectrum oracle:", found)
        print("model (recorded):", r.get("model"))
        support = max([q + 1 for t, _ in terms for q, _ in t] + [0])
        rejected = impl[0] == "Err" and c["mapping"] in FULL and c["n"] >= support and not (c["up_then_down"] and c["n"] % 2)
        if rejected:
            print("valid operator rejected:", impl[1])
        return 1 if found or rejected or r.get("model") is not None else 0
    if r.get("kind") == "car":
        f = oracle_car(r["mapping"], r["n"], r["up_then_down"])
        print(f)
        return 1 if f else 0
    print(json.dumps(r, indent=1)[:4000])
    return 1
