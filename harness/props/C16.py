"""C16 — operator arithmetic returns correct values and never mutates operands (DESIGN §7.C16).

  regenerate  gen/MultiformTables.v (c_calc, ConvertPauli table, do_commute reduction) from multiformoperator.py
  prove       coq/props/C16.v  (Pauli algebra, object-store model of the FermionOperator dunder methods,
              QubitHamiltonian attribute tests, array form vs symbolic form)
  probe       the witnesses of the *_refuted theorems on the real code: decides, per defect, whether the
              correspondence runs against the "as written" or the "repaired" variant of the model
  correspond  chains of operations on a store of shared FermionOperators (Tangelo / openfermion mixed,
              scalars and None on either side): full store compared after every step with the Coq model;
              QubitOperator sums/products vs Pauli/Word.v; MultiformOperator products, collapse and
              do_commute vs Pauli/Multiform.v over the regenerated tables
  oracle      on the implementation alone: operand snapshots before/after every operation; returned
              values against an independent exact reference (Fractions); array form vs symbolic form;
              do_commute vs the actual commutator
"""
import copy
import json
from fractions import Fraction

from harness.lib import REPO, VERIF, coq_list, coq_nat, coq_bool

LEVEL = "proof"

PREAMBLE = """From Coq Require Import String ZArith NArith List Bool.
From Tangelo Require Import Num.KStruct Num.Cyc Num.Show Fermion.Fock Pauli.Word Pauli.Store Pauli.Multiform Pauli.C16Exec.
From Gen Require Import MultiformTables.
Import ListNotations.
Open Scope string_scope.
Definition A3 (a b c : option Z) := mkAttrs a b c.
Definition cc := cc_of_table CycS c_calc_tab.
Definition mfmul (A B : mfop CycS) := show_mfop (mf_mul CycS cc small_cy A B).
Definition mfcol (A : mfop CycS) := show_mfop (mf_collapse CycS small_cy A).
Definition omul (a b : op CycS) := show_op (canon (op_mul CycS a b)).
Definition oadd (a b : op CycS) := show_op (canon (op_add CycS a b)).
Definition osub (a b : op CycS) := show_op (canon (op_sub CycS a b)).
Definition oscale (c : KC) (a : op CycS) := show_op (canon (op_scale CycS c a)).
Definition qa (m : option string) (u : option bool) := mkQ m u.
"""

MAXNUM = 2 ** 50
MAXDEN = 2 ** 20


# ------------------------------------------------------------------------------------------ numbers
def frac2(v):
    """Python number -> (re, im) Fractions, exact."""
    c = complex(v)
    return Fraction(c.real), Fraction(c.imag)


def show_num(v):
    re, im = frac2(v)
    return "%s,%s" % (re, im)


def coq_num(re, im):
    re, im = Fraction(re), Fraction(im)
    return "(cyq (%d)%%Z %d (%d)%%Z %d)" % (re.numerator, re.denominator, im.numerator, im.denominator)


def num_ok(v):
    re, im = frac2(v)
    return all(abs(x.numerator) < MAXNUM and x.denominator <= MAXDEN for x in (re, im))


def make_scalar(spec):
    """spec = [re_num, re_den, im_num, im_den, pytype]"""
    import numpy as np
    re, im = Fraction(spec[0], spec[1]), Fraction(spec[2], spec[3])
    ty = spec[4]
    if ty == "int":
        return int(re)
    if ty == "float":
        return float(re)
    if ty == "complex":
        return complex(float(re), float(im))
    if ty == "np.float64":
        return np.float64(float(re))
    if ty == "np.int64":
        return np.int64(int(re))
    raise ValueError(ty)


def rand_scalar(rng, allow_zero=True):
    pool = [(2, 1, 0, 1), (-1, 1, 0, 1), (3, 1, 0, 1), (1, 2, 0, 1), (-2, 1, 0, 1), (3, 2, 0, 1), (1, 1, 0, 1),
            (0, 1, 1, 1), (1, 1, -1, 2), (0, 1, -2, 1)]
    if allow_zero and rng.random() < 0.08:
        v = (0, 1, 0, 1)
    else:
        v = rng.choice(pool)
    if v[2] != 0:
        ty = "complex"
    elif v[1] != 1:
        ty = rng.choice(["float", "float", "complex", "np.float64"])
    else:
        ty = rng.choice(["int", "int", "float", "complex", "np.float64", "np.int64"])
    return list(v) + [ty]


# ------------------------------------------------------------------------------------------ fermionic store
def show_fterm(t):
    return "(" + " ".join("%d%s" % (p, "^" if a else "") for p, a in t) + ")"


def show_fobj(o):
    from tangelo.toolboxes.operators import FermionOperator as TF
    if isinstance(o, TF):
        at = [o.n_spinorbitals, o.n_electrons, o.spin]
        head = "Tg[" + ",".join("N" if x is None else str(int(x)) for x in at) + "]"
    else:
        head = "Of[N,N,N]"
    return head + "{" + "; ".join("%s:%s" % (show_fterm(t), show_num(v)) for t, v in o.terms.items()) + "}"


def coq_fterm(t):
    return coq_list(["(%d%%N, %s)" % (p, coq_bool(bool(a))) for p, a in t])


def coq_attr(x):
    return "None" if x is None else "(Some (%d)%%Z)" % x


def gen_terms(rng, allow_special=True):
    r = rng.random()
    if allow_special and r < 0.22:
        return []                                                   # FermionOperator(): the empty accumulator
    if allow_special and r < 0.30:
        t = tuple((rng.randrange(4), rng.randrange(2)) for _ in range(rng.choice([1, 2])))
        return [[[list(f) for f in t], [0, 1, 0, 1, rng.choice(["int", "float"])]]]       # a zero coefficient
    if allow_special and r < 0.38:
        return [[[], rand_scalar(rng, allow_zero=False)]]           # constant only
    n = rng.choice([1, 1, 2, 2, 3])
    out, seen = [], set()
    for _ in range(n):
        ln = rng.choice([0, 1, 2, 2, 2, 3])
        t = tuple((rng.randrange(4), rng.randrange(2)) for _ in range(ln))
        if t in seen:
            continue
        seen.add(t)
        out.append([[list(f) for f in t], rand_scalar(rng, allow_zero=False)])
    return out


def gen_chain(rng, tier):
    ops = []
    kinds = []        # one entry per object that will exist when every operation succeeds and is pure
    n0 = rng.choice([2, 3, 3, 4])
    attr_pool = [[None, None, None], [None, None, None], [4, 2, 0], [4, 2, 0], [6, 2, 0]]
    at0 = rng.choice(attr_pool)
    for k in range(n0):
        c = rng.choice(["Tg", "Tg", "Tg", "Of"])
        # most chains keep one attribute set so that accumulations succeed; some mix them (documented errors)
        at = (at0 if rng.random() < 0.8 else rng.choice(attr_pool)) if c == "Tg" else [None, None, None]
        terms = [] if (k == 0 and rng.random() < 0.5) else gen_terms(rng)
        ops.append(["new", c, at, terms])
        kinds.append(c)
    n_ops = rng.randint(3, 7 if tier == "quick" else 10)

    def operand(allow_scalar=True):
        r = rng.random()
        if r < 0.68 or not allow_scalar:
            return ["obj", rng.randrange(len(kinds))]
        if r < 0.96:
            return ["num", rand_scalar(rng)]
        return ["none"]

    def target():
        # in-place operations prefer recent results and the (often empty) first object: an aliased result
        # only shows when it is modified later
        r = rng.random()
        if r < 0.45:
            return len(kinds) - 1
        if r < 0.65:
            return 0
        return rng.randrange(len(kinds))
    for _ in range(n_ops):
        r = rng.random()
        if r < 0.45:
            x = operand()
            y = operand()
            if x[0] != "obj" and y[0] != "obj":
                y = ["obj", rng.randrange(len(kinds))]
            ops.append(["bin", rng.choice(["Add", "Add", "Sub", "Mul"]), x, y])
            kinds.append("?")
        elif r < 0.80:
            ops.append(["iop", rng.choice(["Add", "Add", "Sub", "Mul"]), target(), operand()])
        elif r < 0.88:
            ops.append(["idiv", target()])
        elif r < 0.94:
            ops.append(["neg", rng.randrange(len(kinds))])
            kinds.append("?")
        else:
            ops.append(["half", rng.randrange(len(kinds))])
            kinds.append("?")
    return ops


def ref_terms(o):
    """exact reference copy of a dictionary: {term: (re, im)}"""
    return {t: frac2(v) for t, v in o.terms.items()}


def cadd(a, b):
    return (a[0] + b[0], a[1] + b[1])


def cmul(a, b):
    return (a[0] * b[0] - a[1] * b[1], a[0] * b[1] + a[1] * b[0])


def nz(d):
    return {t: v for t, v in d.items() if v != (0, 0)}


def ref_binop(op, x, y):
    """x, y: dict (operator) or (re, im) scalar; at least one is a dict.  Algebraic result, zeros dropped."""
    dx, dy = isinstance(x, dict), isinstance(y, dict)
    if op == "Mul":
        if dx and dy:
            out = {}
            for s, a in x.items():
                for t, b in y.items():
                    out[s + t] = cadd(out.get(s + t, (0, 0)), cmul(a, b))
            return nz(out)
        d, c = (x, y) if dx else (y, x)
        return nz({t: cmul(v, c) for t, v in d.items()})
    sgn = (Fraction(1), Fraction(0)) if op == "Add" else (Fraction(-1), Fraction(0))
    out = dict(x) if dx else {(): x}
    for t, v in (y.items() if dy else [((), y)]):
        out[t] = cadd(out.get(t, (0, 0)), cmul(sgn, v))
    return nz(out)


def run_chain_impl(ops):
    """Run a chain on the real classes.  Returns (steps, model op terms, evaluable, findings)."""
    import openfermion as of
    from tangelo.toolboxes.operators import FermionOperator as TF
    store, steps, mops, findings = [], [], [], []
    evaluable = True

    def mk(cls_, at, terms):
        o = TF(n_spinorbitals=at[0], n_electrons=at[1], spin=at[2]) if cls_ == "Tg" else of.FermionOperator()
        for t, c in terms:
            o.terms[tuple((int(p), int(a)) for p, a in t)] = make_scalar(c)
        return o

    def val(v):
        if v[0] == "obj":
            return store[v[1] % len(store)]
        if v[0] == "num":
            return make_scalar(v[1])
        return None

    def coq_val(v):
        if v[0] == "obj":
            return "(VObj %s)" % coq_nat(v[1] % len(store))
        if v[0] == "num":
            return "(VNum %s)" % coq_num(Fraction(v[1][0], v[1][1]), Fraction(v[1][2], v[1][3]))
        return "VNone"

    def kind(v):
        if v[0] == "obj":
            return "Tg" if isinstance(store[v[1] % len(store)], TF) else "Of"
        return v[0]

    for op in ops:
        k = op[0]
        if k in ("bin", "iop") and op[1] == "Mul":
            # keep dictionaries small: a product of more than 40 term pairs is not executed (same rule on replay)
            vs = [op[2], op[3]] if k == "bin" else [["obj", op[2]], op[3]]
            sz = 1
            for v in vs:
                if v[0] == "obj":
                    sz *= max(1, len(store[v[1] % len(store)].terms))
            if sz > 40:
                continue
        snaps = [show_fobj(o) for o in store]
        refs = [ref_terms(o) for o in store]
        shared_before = {(id(a_), id(b_)) for a_ in store for b_ in store if a_ is not b_ and a_.terms is b_.terms}
        out, res = "Ok", None
        method, pure_idx, left_idx, expect = None, [], None, None
        try:
            if k == "new":
                mops.append("(ONew %s (A3 %s %s %s) %s)" % (
                    "CTg" if op[1] == "Tg" else "COf", coq_attr(op[2][0]), coq_attr(op[2][1]), coq_attr(op[2][2]),
                    coq_list(["(%s, %s)" % (coq_fterm(t), coq_num(Fraction(c[0], c[1]), Fraction(c[2], c[3])))
                              for t, c in op[3]])))
                res = mk(op[1], op[2], op[3])
                store.append(res)
            elif k == "bin":
                _, o, x, y = op
                mops.append("(OBin %s %s %s)" % (o, coq_val(x), coq_val(y)))
                kx, ky = kind(x), kind(y)
                name = {"Add": "add", "Sub": "sub", "Mul": "mul"}[o]
                if kx == "Tg":
                    method = "FermionOperator/" + name
                elif ky == "Tg" and (o != "Mul" or kx != "Of"):
                    method = "FermionOperator/r" + name
                else:
                    method = "openfermion.FermionOperator/" + name
                pure_idx = [v[1] % len(store) for v in (x, y) if v[0] == "obj"]
                left_idx = x[1] % len(store) if x[0] == "obj" else (y[1] % len(store))
                vx, vy = val(x), val(y)
                ex = refs[x[1] % len(store)] if x[0] == "obj" else (frac2(vx) if x[0] == "num" else None)
                ey = refs[y[1] % len(store)] if y[0] == "obj" else (frac2(vy) if y[0] == "num" else None)
                if ex is not None and ey is not None:
                    expect = ref_binop(o, ex, ey)
                if o == "Add":
                    res = vx + vy
                elif o == "Sub":
                    res = vx - vy
                else:
                    res = vx * vy
            elif k == "iop":
                _, o, i, y = op
                i = i % len(store)
                mops.append("(OIop %s %s %s)" % (o, coq_nat(i), coq_val(y)))
                method = ("FermionOperator/i" if isinstance(store[i], TF) else "openfermion.FermionOperator/i") \
                    + {"Add": "add", "Sub": "sub", "Mul": "mul"}[o]
                pure_idx = [y[1] % len(store)] if (y[0] == "obj" and y[1] % len(store) != i) else []
                left_idx = i
                vy = val(y)
                ey = refs[y[1] % len(store)] if y[0] == "obj" else (frac2(vy) if y[0] == "num" else None)
                if ey is not None:
                    expect = ref_binop(o, refs[i], ey)
                res = store[i]
                if o == "Add":
                    res += vy
                elif o == "Sub":
                    res -= vy
                else:
                    res *= vy
            elif k == "idiv":
                i = op[1] % len(store)
                mops.append("(OIop Mul %s (VNum (cyq 1 2 0 1)))" % coq_nat(i))      # x /= 2 is x *= 1.0 / 2
                method = ("FermionOperator/" if isinstance(store[i], TF) else "openfermion.FermionOperator/") + "itruediv"
                pure_idx, left_idx = [], i
                expect = ref_binop("Mul", refs[i], (Fraction(1, 2), Fraction(0)))
                res = store[i]
                res /= 2
            elif k in ("neg", "half"):
                i = op[1] % len(store)
                mops.append("(%s %s)" % ("ONeg" if k == "neg" else "OHalf", coq_nat(i)))
                tg = isinstance(store[i], TF)
                method = ("FermionOperator/" if tg else "openfermion.FermionOperator/") + ("neg" if k == "neg" else "truediv")
                pure_idx, left_idx = [i], i
                c = (Fraction(-1), Fraction(0)) if k == "neg" else (Fraction(1, 2), Fraction(0))
                expect = ref_binop("Mul", refs[i], c)
                res = -store[i] if k == "neg" else store[i] / 2
        except Exception as e:
            out, res = "Err:" + type(e).__name__, None
        if res is not None and k != "new":
            idx = next((j for j, o in enumerate(store) if o is res), None)
            if idx is None:
                store.append(res)
                idx = len(store) - 1
            out = "Ok %d" % idx
        elif k == "new":
            out = "Ok %d" % (len(store) - 1)
        for o in store:
            for v in o.terms.values():
                if not num_ok(v):
                    evaluable = False
        steps.append(out + " # " + " | ".join(show_fobj(o) for o in store))
        if not evaluable or k == "new":
            continue
        # ---------------- property oracle on the implementation
        after = [show_fobj(o) for o in store]
        aliased = k == "bin" and op[2][0] == "obj" and op[3][0] == "obj" and op[2][1] % len(snaps) == op[3][1] % len(snaps)
        inplace = k in ("iop", "idiv")
        if k == "idiv":
            k, op = "iop", ["iop", "Mul", op[1], ["num", [1, 2, 0, 1, "float"]]]
        # every live object that is not an operand of this step must be untouched: a change means that a
        # result of an earlier step shares state with it
        touched = set(pure_idx) | ({left_idx} if left_idx is not None else set())
        for j in range(len(snaps)):
            if j not in touched and after[j] != snaps[j]:
                findings.append(("C16/%s/bystander-mutated" % method,
                                 "%s on operands %s changed object #%d, which is not an operand (shared state with an "
                                 "earlier result): %s -> %s" % (method, sorted(touched), j, snaps[j], after[j])))
        # no two live objects may share their term dictionary
        for a_ in range(len(store)):
            for b_ in range(a_ + 1, len(store)):
                if store[a_].terms is store[b_].terms and (id(store[a_]), id(store[b_])) not in shared_before:
                    findings.append(("C16/%s/terms-dictionary-shared" % method,
                                     "after %s objects #%d and #%d are different objects with the SAME terms dictionary "
                                     "(a later in-place operation on one changes the other)" % (method, a_, b_)))
        for j in sorted(set(pure_idx)):
            if j < len(snaps) and after[j] != snaps[j]:
                # which side of the expression was it?
                if inplace:
                    side = "right-operand-mutated"
                elif k == "bin" and method.split("/")[1] in ("add", "sub", "mul") and op[3][0] == "obj" \
                        and j == op[3][1] % len(snaps) and not aliased:
                    side = "right-operand-mutated"
                else:
                    side = "operand-mutated"
                findings.append(("C16/%s/%s" % (method, side),
                                 "%s: operand #%d changed by a %s operation: %s -> %s" % (
                                     method, j, "in-place (right operand)" if inplace else "binary", snaps[j], after[j])))
        same_inplace = inplace and op[3][0] == "obj" and op[3][1] % len(snaps) == left_idx
        if expect is not None and not same_inplace:      # x op= x is openfermion's own loop: model correspondence only
            if out.startswith("Ok"):
                got = nz(ref_terms(res))
                if got != expect:
                    findings.append(("C16/%s/wrong-value%s" % (method, "-aliased-operands" if (aliased or (
                        inplace and op[3][0] == "obj" and op[3][1] % len(snaps) == left_idx)) else ""),
                        "%s returned %s, algebraic result %s" % (method, got, expect)))
            else:
                # an exception although both operands are operators / scalars: legitimate only for the
                # documented attribute-compatibility errors
                legit = False
                if out == "Err:RuntimeError" and k in ("bin", "iop"):
                    objs = [store[v[1] % len(store)] for v in (op[2:4] if k == "bin" else [["obj", op[2]], op[3]]) if v[0] == "obj"]
                    tgs = [o for o in objs if isinstance(o, TF)]
                    at = lambda o: (o.n_spinorbitals, o.n_electrons, o.spin)  # noqa
                    if len(objs) == 2 and len(tgs) == 2 and at(tgs[0]) != at(tgs[1]):
                        legit = True
                    if len(objs) == 2 and len(tgs) == 1 and at(tgs[0]) != (None, None, None):
                        # documented for Tangelo-on-the-left and for the reflected + / -; a product with the
                        # openfermion object on the left is openfermion's own and does not raise
                        legit = True
                if not legit:
                    same = aliased or (inplace and op[3][0] == "obj" and op[3][1] % len(snaps) == left_idx)
                    findings.append(("C16/%s/exception%s" % (method, "-aliased-operands" if same else ""),
                                     "%s raised %s on well-typed operands" % (method, out)))
    return steps, mops, evaluable, findings


# ------------------------------------------------------------------------------------------ Pauli operators
PAULI_ORD = {"X": 0, "Y": 1, "Z": 2}


def show_word(t):
    return "(" + " ".join("%s%d" % (p, q) for q, p in t) + ")"


def canon_qterms(terms):
    items = [(t, v) for t, v in terms.items() if frac2(v) != (0, 0)]
    items.sort(key=lambda tv: tuple((q, PAULI_ORD[p]) for q, p in tv[0]))
    return "{" + "; ".join("%s:%s" % (show_word(t), show_num(v)) for t, v in items) + "}"


def coq_word(t):
    return coq_list(["(%d%%N, P%s)" % (q, p) for q, p in t])


def coq_op(terms):
    return coq_list(["(%s, %s)" % (coq_word(t), coq_num(*frac2(v))) for t, v in terms.items()])


def gen_qterms(rng, n_qubits, max_terms=3):
    out = {}
    for _ in range(rng.randint(1, max_terms)):
        qs = sorted(rng.sample(range(n_qubits), rng.randint(0, min(3, n_qubits))))
        t = tuple((q, rng.choice("XYZ")) for q in qs)
        s = rand_scalar(rng, allow_zero=False)
        out[t] = make_scalar(s[:4] + [rng.choice(["float", "complex"]) if s[4].startswith("np") or s[4] == "int" else s[4]])
    return out


def mk_qop(cls, terms, **kw):
    o = cls(**kw) if kw else cls()
    o.terms = dict(terms)
    return o


def run_qubit_stream(ck, n, variants):
    import openfermion as of
    from tangelo.toolboxes.operators import QubitOperator as TQ, QubitHamiltonian as QH
    rng = ck.rng
    exprs, impl, meta = [], [], []
    ck.stream("qubit-symbolic", "Tangelo / openfermion QubitOperator and QubitHamiltonian sums, differences, products, "
              "scalar multiples vs collapse(op_add/op_sub/op_mul/op_scale) of Pauli/Word.v (exact, sorted, zeros dropped) "
              "with operand snapshots; non-trivial = product of multi-term operators sharing a qubit")
    classes = {"TQ": TQ, "OQ": of.QubitOperator, "QH": QH}
    for ci in range(n):
        nq = rng.randint(1, 4)
        ta, tb = gen_qterms(rng, nq), gen_qterms(rng, nq)
        ca = rng.choice(["TQ", "TQ", "OQ", "QH"])
        cb = ca if rng.random() < 0.6 else rng.choice(["TQ", "OQ", "QH"])
        a, b = mk_qop(classes[ca], ta), mk_qop(classes[cb], tb)
        o = rng.choice(["mul", "mul", "add", "sub", "scale", "rscale"])
        sc = rand_scalar(rng)
        sa, sb = canon_qterms(a.terms), canon_qterms(b.terms)
        try:
            if o == "mul":
                r = a * b
            elif o == "add":
                r = a + b
            elif o == "sub":
                r = a - b
            elif o == "scale":
                r = a * make_scalar(sc)
            else:
                r = make_scalar(sc[:4] + ["float" if sc[4].startswith("np") else sc[4]]) * a
            got = canon_qterms(r.terms)
        except TypeError:
            # openfermion's type rule (right operand must be an instance of the left operand's class):
            # external behaviour, the pair is skipped and counted
            ck.notes["qubit_type_rule_skips"] = ck.notes.get("qubit_type_rule_skips", 0) + 1
            continue
        except Exception as e:
            got = "Err:" + type(e).__name__
        if canon_qterms(a.terms) != sa or canon_qterms(b.terms) != sb or any(x is r for x in (a, b)):
            ck.violation("C16/QubitOperator/%s/operand-mutated" % o, "%s %s %s changed an operand" % (ca, o, cb),
                         {"kind": "qubit", "a": [ca, sa], "b": [cb, sb], "op": o})
        if o in ("scale", "rscale"):
            e = "oscale %s %s" % (coq_num(Fraction(sc[0], sc[1]), Fraction(sc[2], sc[3])), coq_op(ta))
        else:
            e = "o%s %s %s" % (o, coq_op(ta), coq_op(tb))
        exprs.append(e)
        impl.append(got)
        share = any(set(q for q, _ in t1) & set(q for q, _ in t2) for t1 in ta for t2 in tb)
        meta.append((o, ca, cb, sa, sb, sc))
        ck.case("qubit-symbolic", json.dumps([o, sa, sb, sc]), nontrivial=(o == "mul" and len(ta) > 1 and len(tb) > 1 and share),
                sample={"op": o, "a": [ca, sa], "b": [cb, sb], "impl": got}, tags=[o, ca + "," + cb])
    model = ck.coq_eval("qubit", PREAMBLE, exprs, shard=120)
    for m, g, md in zip(model, impl, meta):
        if m != g:
            ck.violation("C16/correspondence/QubitOperator/%s" % md[0],
                         "symbolic %s: implementation %s, model %s (a=%s b=%s)" % (md[0], g, m, md[3], md[4]),
                         {"kind": "qubit", "op": md[0], "a": md[3], "b": md[4], "scalar": md[5], "impl": g, "model": m},
                         found_input=False)
    run_qubitham(ck, variants)


def qh_same_terms_case(ck, same, exprs, impl, meta, asis):
    """h == q and h != q for operands with IDENTICAL terms: the answer is the attribute-compatibility verdict alone.
    It must agree with the rule the other site of the check (+=) applies, and with the model."""
    import copy as _copy
    import openfermion as of
    from tangelo.toolboxes.operators import QubitOperator as TQ, QubitHamiltonian as QH
    m1, u1, oc, m2, u2, o = same

    def terms_into(x):
        x.terms = {((0, "X"), (1, "Y")): 1.5, ((0, "Z"),): 2.0}
        return x
    h = terms_into(QH(mapping=m1, up_then_down=u1))
    q = terms_into(QH(mapping=m2, up_then_down=u2) if oc == "QH" else (TQ() if oc == "TQ" else of.QubitOperator()))
    sh, sq = canon_qterms(h.terms), canon_qterms(q.terms)
    try:
        r = (h == q) if o == "eq_same" else (h != q)
        got = "Ok " + ("T" if r else "F")
    except Exception as e:
        r, got = None, "Err:" + type(e).__name__
    if canon_qterms(h.terms) != sh or canon_qterms(q.terms) != sq:
        ck.violation("C16/QubitHamiltonian/__eq__/operand-mutated", "comparison changed an operand", {"kind": "qubitham", "case": same})
    # the compatibility rule as applied by += on fresh copies
    try:
        hh = _copy.deepcopy(h)
        hh += _copy.deepcopy(q)
        compatible = True
    except RuntimeError:
        compatible = False
    except Exception:
        compatible = None           # += itself fails for another reason: reported by the += cases
    if r is None:
        ck.violation("C16/QubitHamiltonian/__eq__/exception/%s" % got[4:],
                     "QubitHamiltonian(mapping=%r, up_then_down=%r) %s %s(mapping=%r, up_then_down=%r) with identical terms raises %s" % (
                         m1, u1, "==" if o == "eq_same" else "!=", oc, m2, u2, got[4:]), {"kind": "qubitham", "case": same})
    elif compatible is not None and r != (compatible if o == "eq_same" else not compatible):
        ck.violation("C16/QubitHamiltonian/__eq__/disagrees-with-iadd-compatibility",
                     "identical terms, self (mapping=%r, up_then_down=%r), other %s (mapping=%r, up_then_down=%r): `%s` is %s although += %s "
                     "the pair" % (m1, u1, oc, m2, u2, "==" if o == "eq_same" else "!=", r, "accepts" if compatible else "rejects"),
                     {"kind": "qubitham", "case": same})
    other = "None" if oc != "QH" else "(Some (qa %s %s))" % (
        "None" if m2 is None else '(Some "%s")' % m2, "None" if u2 is None else "(Some %s)" % coq_bool(u2))
    selfq = "(qa %s %s)" % ("None" if m1 is None else '(Some "%s")' % m1, "None" if u1 is None else "(Some %s)" % coq_bool(u1))
    exprs.append("show_res_bool (qh_eq_outcome upper %s %s %s)" % (coq_bool(asis), selfq, other))
    impl.append(got)
    meta.append(same)
    ck.case("qubit-hamiltonian", json.dumps(same), nontrivial=(m1 is not None and u1 is not None and m2 is not None and u2 is not None),
            sample={"case": same, "impl": got}, tags=[o, oc, got])


def run_qubitham(ck, variants):
    """QubitHamiltonian.__iadd__ / __eq__ (and + through deepcopy) with annotated / bare / plain operands."""
    import openfermion as of
    from tangelo.toolboxes.operators import QubitOperator as TQ, QubitHamiltonian as QH
    asis = variants["qubitham"]
    ck.stream("qubit-hamiltonian", "all combinations of self (mapping in None/JW/jw/Jw/BK/bk/scBK/SCBK x up_then_down in None/False/True; "
              "== and != also on operands with identical terms, where the answer must be the compatibility verdict that += applies) "
              "and other (annotated QubitHamiltonian / plain Tangelo QubitOperator / plain openfermion QubitOperator) for "
              "+=, + and ==: outcome vs qh_iadd_outcome / qh_eq_outcome, values and operand snapshots; "
              "non-trivial = self fully annotated")
    exprs, impl, meta = [], [], []
    maps = [None, "JW", "jw", "Jw", "BK", "bk", "scBK", "SCBK"]
    utds = [None, False, True]
    others = [("QH", m, u) for m in maps for u in utds] + [("TQ", None, None), ("OQ", None, None)]
    for m1 in maps:
        for u1 in utds:
            for (oc, m2, u2) in others:
                for o in ("iadd", "add", "eq", "eq_same", "ne_same"):
                    same = (m1, u1, oc, m2, u2, o)
                    if o in ("eq_same", "ne_same"):
                        qh_same_terms_case(ck, same, exprs, impl, meta, asis)
                        continue
                    h = QH("X0 Y1", 1.5, mapping=m1, up_then_down=u1) + QH("Z0", 2.0, mapping=m1, up_then_down=u1)
                    if oc == "QH":
                        q = QH("Z0", 0.5, mapping=m2, up_then_down=u2) + QH("X1", -1.0, mapping=m2, up_then_down=u2)
                    else:
                        q = (TQ if oc == "TQ" else of.QubitOperator)("Z0", 0.5) + (TQ if oc == "TQ" else of.QubitOperator)("X1", -1.0)
                    sh, sq = canon_qterms(h.terms), canon_qterms(q.terms)
                    expect_sum = "{(X0 Y1):3/2,0; (Z0):5/2,0; (X1):-1,0}"
                    try:
                        if o == "iadd":
                            h += q
                            got = "Ok"
                            val = canon_qterms(h.terms)
                        elif o == "add":
                            r = h + q
                            got = "Ok"
                            val = canon_qterms(r.terms)
                            if canon_qterms(h.terms) != sh:
                                ck.violation("C16/QubitHamiltonian/add/operand-mutated", "h + q changed h",
                                             {"kind": "qubitham", "case": same})
                        else:
                            r = (h == q)
                            got = "Ok " + ("T" if r else "F")
                            val = None
                    except Exception as e:
                        got, val = "Err:" + type(e).__name__, None
                    if canon_qterms(q.terms) != sq:
                        ck.violation("C16/QubitHamiltonian/%s/right-operand-mutated" % o, "operand changed",
                                     {"kind": "qubitham", "case": same})
                    other = "None" if oc != "QH" else "(Some (qa %s %s))" % (
                        "None" if m2 is None else '(Some "%s")' % m2, "None" if u2 is None else "(Some %s)" % coq_bool(u2))
                    selfq = "(qa %s %s)" % ("None" if m1 is None else '(Some "%s")' % m1,
                                            "None" if u1 is None else "(Some %s)" % coq_bool(u1))
                    if o == "eq":
                        exprs.append("show_res_bool (qh_eq_outcome upper %s %s %s)" % (coq_bool(asis), selfq, other))
                    else:
                        exprs.append("show_res_unit (qh_iadd_outcome upper %s %s %s)" % (coq_bool(asis), selfq, other))
                    impl.append(got)
                    meta.append(same)
                    annotated = m1 is not None and u1 is not None
                    ck.case("qubit-hamiltonian", json.dumps(same), nontrivial=annotated,
                            sample={"case": same, "impl": got}, tags=[o, oc, got])
                    # ---- oracle: the documented behaviour with a plain operand
                    if oc != "QH":
                        where = "annotated" if annotated else "bare"
                        if got.startswith("Err"):
                            ck.violation("C16/QubitHamiltonian/%s/plain-operand/%s/%s" % (
                                {"iadd": "__iadd__", "add": "__iadd__", "eq": "__eq__"}[o], where, got[4:]),
                                "QubitHamiltonian(mapping=%r, up_then_down=%r) %s plain %s raises %s although the "
                                "attribute check is documented as ignored for a QubitOperator" % (
                                    m1, u1, {"iadd": "+=", "add": "+", "eq": "=="}[o], oc, got[4:]),
                                {"kind": "qubitham", "case": same})
                        elif o in ("iadd", "add") and val != expect_sum:
                            ck.violation("C16/QubitHamiltonian/%s/plain-operand/wrong-value" % o, "sum is %s" % val,
                                         {"kind": "qubitham", "case": same})
                        elif o == "eq" and got != "Ok F":
                            ck.violation("C16/QubitHamiltonian/__eq__/plain-operand/wrong-value", "different operators compare equal",
                                         {"kind": "qubitham", "case": same})
                    elif got == "Ok" and val != expect_sum:
                        ck.violation("C16/QubitHamiltonian/%s/wrong-value" % o, "sum is %s" % val, {"kind": "qubitham", "case": same})
    model = ck.coq_eval("qubitham", PREAMBLE, exprs, shard=200)
    for m, g, md in zip(model, impl, meta):
        # the model's "Ok T" for == means "attribute check passed, dictionaries are compared": they differ here
        mm = "Ok F" if (md[5] == "eq" and m == "Ok T") else m
        if md[5] == "ne_same" and m in ("Ok T", "Ok F"):
            mm = "Ok F" if m == "Ok T" else "Ok T"
        if mm != g:
            ck.violation("C16/correspondence/QubitHamiltonian/%s" % md[5],
                         "case %s: implementation %s, model (%s variant) %s" % (md, g, "as-written" if asis else "repaired", m),
                         {"kind": "qubitham", "case": md, "impl": g, "model": m}, found_input=False)


# ------------------------------------------------------------------------------------------ qubit chains
_P1 = {("X", "Y"): ("Z", 1), ("Y", "X"): ("Z", 3), ("Y", "Z"): ("X", 1), ("Z", "Y"): ("X", 3),
       ("Z", "X"): ("Y", 1), ("X", "Z"): ("Y", 3)}
_IPOW = [(Fraction(1), Fraction(0)), (Fraction(0), Fraction(1)), (Fraction(-1), Fraction(0)), (Fraction(0), Fraction(-1))]


def ref_wmul(w1, w2):
    """independent reference: product of two Pauli words (tuples of (qubit, letter) sorted by qubit) -> (word, i-exponent)"""
    d = dict(w1)
    e = 0
    for q, p in w2:
        if q not in d:
            d[q] = p
        elif d[q] == p:
            del d[q]
        else:
            r, k = _P1[(d[q], p)]
            d[q] = r
            e += k
    return tuple(sorted(d.items())), e % 4


def ref_words_commute(w1, w2):
    d = dict(w1)
    return sum(1 for q, p in w2 if q in d and d[q] != p) % 2 == 0


def ref_qbinop(op, x, y):
    dx, dy = isinstance(x, dict), isinstance(y, dict)
    if op == "Mul" and dx and dy:
        out = {}
        for s_, a in x.items():
            for t_, b in y.items():
                w, e = ref_wmul(s_, t_)
                out[w] = cadd(out.get(w, (0, 0)), cmul(_IPOW[e], cmul(a, b)))
        return nz(out)
    return ref_binop(op, x, y)


def qsnap(o):
    return [(t, frac2(v)) for t, v in o.terms.items()]


def run_qubit_chains(ck, n):
    """Accumulation chains on QubitOperator / QubitHamiltonian objects (Tangelo and openfermion), started from
    empty operators most of the time; implementation-only oracle: exact reference values, snapshots of EVERY
    live object after EVERY step, no two objects sharing a terms dictionary."""
    import openfermion as of
    from tangelo.toolboxes.operators import QubitOperator as TQ, QubitHamiltonian as QH
    rng = ck.rng
    ck.stream("qubit-chains", "chains of 3-8 operations (+ - * binary, += -= *= /= in place, scalars on either side) over a store "
              "of QubitOperator / openfermion QubitOperator / QubitHamiltonian (bare and annotated) objects, first object empty in "
              "half of the chains, zero-coefficient and constant-only operators included; exact reference values (independent Pauli "
              "product), every live object snapshotted after every step, term dictionaries never shared; non-trivial = an in-place "
              "operation on a result of an earlier step")
    label = {"TQ": "QubitOperator", "OQ": "openfermion.QubitOperator", "QH": "QubitHamiltonian", "QHA": "QubitHamiltonian"}

    def mk(c, terms):
        o = {"TQ": TQ, "OQ": of.QubitOperator, "QH": QH}[c]() if c != "QHA" else QH(mapping="JW", up_then_down=False)
        o.terms = dict(terms)
        return o

    def kind_of(o):
        if isinstance(o, QH):
            return "QHA" if o.mapping is not None else "QH"
        return "TQ" if isinstance(o, TQ) else "OQ"
    for ci in range(n):
        nq = rng.randint(1, 3)
        fam = rng.choice([["TQ"], ["TQ"], ["OQ"], ["QH"], ["QHA"], ["QHA", "TQ"], ["QH", "OQ"], ["TQ", "OQ"], ["QHA", "QH"]])
        spec = []
        store = []
        for k in range(rng.choice([2, 3, 3])):
            c = fam[0] if k == 0 else rng.choice(fam)
            r = rng.random()
            if (k == 0 and r < 0.55) or r < 0.2:
                terms = {}
            elif r < 0.3:
                terms = {tuple((q, rng.choice("XYZ")) for q in sorted(rng.sample(range(nq), 1))): 0.0}
            elif r < 0.4:
                terms = {(): make_scalar(rand_scalar(rng, allow_zero=False)[:4] + ["complex"])}
            else:
                terms = gen_qterms(rng, nq)
            spec.append([c, canon_qterms(terms)])
            store.append(mk(c, terms))
        trace = []
        results = set()
        nontriv = False
        n_ops = rng.randint(3, 8)
        for step in range(n_ops):
            r = rng.random()
            i = rng.choice([0, len(store) - 1, rng.randrange(len(store))])
            j = rng.randrange(len(store))
            sc = rand_scalar(rng)
            scal = make_scalar(sc[:4] + ["float" if sc[4].startswith("np") else sc[4]])
            use_scalar = rng.random() < 0.3
            if r < 0.45:
                kind, o = "bin", rng.choice(["Add", "Add", "Sub", "Mul"])
            elif r < 0.9:
                kind, o = "iop", rng.choice(["Add", "Add", "Sub", "Mul"])
            else:
                kind, o = "idiv", "Mul"
            x, y = store[i], (scal if use_scalar else store[j])
            if kind == "idiv":
                y, use_scalar = 2, True
            if kind == "bin" and use_scalar and rng.random() < 0.5:
                x, y = y, x                                   # scalar on the left
            xo, yo = hasattr(x, "terms"), hasattr(y, "terms")
            if o == "Mul" and xo and yo and len(x.terms) * len(y.terms) > 40:
                continue
            if kind != "bin" and xo and yo and x is y:
                continue                                       # x op= x: openfermion's own loop (external)
            left = x if xo else y
            method = "%s/%s%s" % (label[kind_of(left)], {"bin": "" if xo else "r", "iop": "i", "idiv": "i"}[kind],
                                  "truediv" if kind == "idiv" else o.lower())
            snaps = [qsnap(q) for q in store]
            shared_before = {(id(a_), id(b_)) for a_ in store for b_ in store if a_ is not b_ and a_.terms is b_.terms}
            ix = next((k for k, q in enumerate(store) if q is x), None)
            iy = next((k for k, q in enumerate(store) if q is y), None)
            ex = {t: v for t, v in snaps[ix]} if xo else frac2(x)
            ey = {t: v for t, v in snaps[iy]} if yo else frac2(y)
            if kind == "idiv":
                ey = (Fraction(1, 2), Fraction(0))
            expect = ref_qbinop(o, ex, ey)
            desc = "%s %s %s" % ("#%d" % ix if xo else repr(x).replace(" ", ""), {"bin": o, "iop": o + "=", "idiv": "/="}[kind],
                                 "#%d" % iy if yo else repr(y).replace(" ", ""))
            trace.append(desc)
            replay_ = {"kind": "qubit-chain", "objects": spec, "trace": list(trace)}
            try:
                if kind == "bin":
                    res = x + y if o == "Add" else (x - y if o == "Sub" else x * y)
                elif kind == "idiv":
                    res = x
                    res /= 2
                else:
                    res = x
                    if o == "Add":
                        res += y
                    elif o == "Sub":
                        res -= y
                    else:
                        res *= y
            except TypeError as e:
                # openfermion's type rule: an operator operand must be an instance of the left operand's class;
                # Tangelo documents only QubitHamiltonian += / + plain operator as an exception to it
                ok_by_rule = (not (xo and yo)) or isinstance(y, type(x)) or \
                    (isinstance(x, QH) and o == "Add" and isinstance(y, of.QubitOperator))
                if ok_by_rule:
                    ck.violation("C16/%s/exception/TypeError" % method, "%s raised %r (objects %s)" % (desc, e, spec), replay_)
                else:
                    ck.notes["qubit_type_rule_skips"] = ck.notes.get("qubit_type_rule_skips", 0) + 1
                trace.pop()
                res = None
            except Exception as e:
                ck.violation("C16/%s/exception/%s" % (method, type(e).__name__), "%s raised %r (objects %s)" % (desc, e, spec), replay_)
                res = None
            if res is not None:
                if not all(num_ok(v) for v in res.terms.values()):
                    break
                if nz({t: frac2(v) for t, v in res.terms.items()}) != expect:
                    ck.violation("C16/%s/wrong-value" % method, "%s gives %s, algebraic result %s (objects %s, steps %s)" % (
                        desc, canon_qterms(res.terms), expect, spec, trace), replay_)
                if not any(res is q for q in store):
                    store.append(res)
                    results.add(id(res))
                if kind != "bin" and id(res) in results:
                    nontriv = True
            # every live object except the left operand of an in-place operation is unchanged
            for k, sn in enumerate(snaps):
                if kind != "bin" and store[k] is x:
                    continue
                if qsnap(store[k]) != sn:
                    role = "operand" if (store[k] is x or store[k] is y) else "bystander"
                    ck.violation("C16/%s/%s-mutated" % (method, role),
                                 "%s changed object #%d (%s): %s -> %s (objects %s, steps %s)" % (
                                     desc, k, role, sn, qsnap(store[k]), spec, trace), replay_)
            for a_ in range(len(store)):
                for b_ in range(a_ + 1, len(store)):
                    if store[a_].terms is store[b_].terms and (id(store[a_]), id(store[b_])) not in shared_before:
                        ck.violation("C16/%s/terms-dictionary-shared" % method,
                                     "after %s objects #%d and #%d share one terms dictionary (objects %s, steps %s)" % (
                                         desc, a_, b_, spec, trace), replay_)
        ck.case("qubit-chains", json.dumps([spec, trace]), nontrivial=nontriv, sample={"objects": spec, "steps": trace},
                tags=[t.split()[1] for t in trace] + ["+".join(fam)])


# ------------------------------------------------------------------------------------------ do_commute
def all_words(nq):
    import itertools
    out = []
    for letters in itertools.product("IXYZ", repeat=nq):
        out.append(tuple((q, p) for q, p in enumerate(letters) if p != "I"))
    return out


def run_commute_stream(ck, n, variants):
    """do_commute in both modes with multi-word operands, word by word against an independent reference and
    against openfermion's symbolic commutator; exhaustive over 2 qubits in the thorough tier."""
    import itertools
    from tangelo.toolboxes.operators import QubitOperator as TQ
    from tangelo.toolboxes.operators.multiformoperator import MultiformOperator as MF, do_commute
    rng = ck.rng
    ck.stream("do-commute", "do_commute(A, B) and do_commute(A, B, term_resolved=True): A with 1-3 words, B with 2-5 distinct "
              "words on 2-4 qubits with overlapping supports (random), all single words A x all pairs of words B on 2 qubits "
              "(exhaustive in thorough, sampled in quick); each entry against the word-by-word reference (cross-checked with "
              "openfermion symbolic commutators) and the Coq model; non-trivial = some word of A anticommutes with an even "
              "non-zero number of words of B, or with some but not all")
    sym_cache = {}

    def sym_commute(w1, w2):
        key = (w1, w2)
        if key not in sym_cache:
            a, b = TQ(w1, 1.0), TQ(w2, 1.0)
            d = a * b - b * a
            sym_cache[key] = all(abs(v) == 0 for v in d.terms.values())
        return sym_cache[key]
    cases = []
    w2 = all_words(2)
    sweep = [(2, [a], list(b)) for a in w2 for b in itertools.combinations(w2, 2)]
    if ck.tier == "quick":
        sweep = rng.sample(sweep, 250)
    else:
        ck.notes["do_commute_exhaustive"] = "all 16 single words A x all 120 pairs of distinct words B on 2 qubits (1920 cases)"
        sweep += [(2, list(a), list(b)) for a in rng.sample(list(itertools.combinations(w2, 2)), 60)
                  for b in rng.sample(list(itertools.combinations(w2, 3)), 12)]
    cases.extend(sweep)
    for _ in range(n):
        nq = rng.randint(2, 4)
        pool = all_words(nq) if nq <= 3 else None

        def word():
            if pool is not None:
                return rng.choice(pool)
            return tuple((q, rng.choice("XYZ")) for q in range(nq) if rng.random() < 0.7)
        A = []
        while len(A) < rng.randint(1, 3):
            w = word()
            if w not in A:
                A.append(w)
        B = []
        nb = rng.randint(2, 5)
        while len(B) < nb:
            w = word()
            if w not in B:
                B.append(w)
        cases.append((nq, A, B))
    exprs, impl, meta = [], [], []
    for nq, A, B in cases:
        fa = {w: make_scalar(rand_scalar(rng, allow_zero=False)[:4] + ["complex"]) for w in A}
        fb = {w: make_scalar(rand_scalar(rng, allow_zero=False)[:4] + ["complex"]) for w in B}
        case = {"kind": "commute", "n_qubits": nq, "a": canon_qterms(fa), "b": canon_qterms(fb),
                "A_words": [[list(f) for f in w] for w in A], "B_words": [[list(f) for f in w] for w in B]}
        truth = []
        for a in A:
            row = [ref_words_commute(a, b) for b in B]
            for b, r in zip(B, row):
                if sym_commute(a, b) != r:
                    ck.violation("C16/harness/commutation-reference", "reference and openfermion disagree on %s, %s" % (a, b), case,
                                 found_input=False)
            truth.append(row)
        want_terms = [all(r) for r in truth]
        want_all = all(want_terms)
        MA, MB = MF.from_qubitop(mk_qop(TQ, fa), nq), MF.from_qubitop(mk_qop(TQ, fb), nq)
        order_a = list(MA.terms)            # row order of the array form
        try:
            c_all = bool(do_commute(MA, MB))
            c_terms = [bool(x) for x in do_commute(MA, MB, term_resolved=True)]
        except Exception as e:
            ck.violation("C16/do_commute/exception/%s" % type(e).__name__, "do_commute raised %r on A=%s B=%s" % (e, case["a"], case["b"]), case)
            continue
        want_rows = [want_terms[A.index(w)] for w in order_a]
        got = ("T" if c_all else "F") + " " + "".join("T" if x else "F" for x in c_terms)
        if c_terms != want_rows:
            k = next(i for i in range(len(want_rows)) if c_terms[i] != want_rows[i])
            w = order_a[k]
            n_anti = sum(1 for b in B if not ref_words_commute(w, b))
            ck.violation("C16/do_commute/term-resolved/wrong",
                         "do_commute(A, B, term_resolved=True)[%d] = %s for the word %s of A=%s, which anticommutes with %d of the %d "
                         "words of B=%s" % (k, c_terms[k], show_word(w), case["a"], n_anti, len(B), case["b"]), case)
        if c_all != want_all:
            if c_all:
                ck.violation("C16/do_commute/operator-level/true-although-a-term-pair-anticommutes",
                             "do_commute(A, B) is True for A=%s B=%s although some pair of words anticommutes" % (case["a"], case["b"]), case)
            else:
                ck.violation("C16/do_commute/operator-level/false-for-termwise-commuting-operators",
                             "do_commute(A, B) is False for A=%s B=%s although every pair of words commutes" % (case["a"], case["b"]), case)
        rowsA = coq_list([coq_list(["%d%%N" % int(c) for c in row]) for row in MA.integer])
        rowsB = coq_list([coq_list(["%d%%N" % int(c) for c in row]) for row in MB.integer])
        exprs.append("show_bool (%s %s %s) ++ \" \" ++ show_bools (do_commute_terms %s %s)" % (
            "do_commute_asis" if variants["do_commute"] else "do_commute_repaired", rowsA, rowsB, rowsA, rowsB))
        impl.append(got)
        meta.append(case)
        counts = [sum(1 for x in r if not x) for r in truth]
        ck.case("do-commute", json.dumps([nq, case["a"], case["b"]]),
                nontrivial=any((c > 0 and c % 2 == 0) or (0 < c < len(B)) for c in counts),
                sample=dict(case, result=got), tags=["nq=%d" % nq, "|A|=%d" % len(A), "|B|=%d" % len(B)])
    model = ck.coq_eval("commute", PREAMBLE, exprs, shard=400)
    for m, g, case in zip(model, impl, meta):
        if m != g:
            ck.violation("C16/correspondence/multiform/do_commute",
                         "do_commute: implementation %s, model (%s variant) %s (A=%s B=%s)" % (
                             g, "as-written" if variants["do_commute"] else "repaired", m, case["a"], case["b"]),
                         dict(case, impl=g, model=m), found_input=False)


# ------------------------------------------------------------------------------------------ array form
def show_mf(integer, factors):
    return "{" + "; ".join("%s:%s" % ("".join(str(int(c)) for c in row), show_num(f)) for row, f in zip(integer, factors)) + "}"


def coq_mf(integer, factors):
    return coq_list(["(%s, %s)" % (coq_list(["%d%%N" % int(c) for c in row]), coq_num(*frac2(f)))
                     for row, f in zip(integer, factors)])


class np_product_shim:
    """np.product was removed in NumPy 2; when the installed numpy lacks it the finding is recorded and the
    rest of MultiformOperator.__mul__ is exercised with np.product = np.prod (the minimal repair)."""
    def __init__(self, active):
        self.active = active

    def __enter__(self):
        import numpy as np
        if self.active:
            np.product = np.prod

    def __exit__(self, *a):
        import numpy as np
        if self.active and "product" in np.__dict__:
            del np.product


def dense(qop, n):
    import numpy as np
    from openfermion.linalg import get_sparse_operator
    import openfermion as of
    o = of.QubitOperator()
    o.terms = dict(qop.terms)
    if not o.terms:
        return np.zeros((2 ** n, 2 ** n), dtype=complex)
    return get_sparse_operator(o, n_qubits=n).toarray()


def run_multiform_stream(ck, n, variants):
    import numpy as np
    from tangelo.toolboxes.operators import QubitOperator as TQ
    from tangelo.toolboxes.operators.multiformoperator import MultiformOperator as MF, do_commute
    rng = ck.rng
    ck.stream("multiform", "random pairs of MultiformOperators of a common width 1-4 (1-4 terms, dyadic complex factors): "
              "A*B (rows, factors, terms) vs mf_mul over the regenerated c_calc and vs the symbolic product; collapse on "
              "rows with duplicates vs mf_collapse; do_commute (both modes) vs the model and vs the dense commutator; "
              "operand snapshots; non-trivial = product has a merged duplicate or a cancelled term, or operators anticommute")
    exprs, impl, meta = [], [], []
    shim = variants["np_product_missing"]
    for ci in range(n):
        nq = rng.randint(1, 4)
        ta, tb = gen_qterms(rng, nq, 4), gen_qterms(rng, nq, 4)
        if rng.random() < 0.25 and len(ta) > 1:
            # make a cancellation likely: B contains a word of A times the inverse-ish factor
            k = rng.choice(list(ta))
            tb[k] = -ta[k]
        A, B = MF.from_qubitop(mk_qop(TQ, ta), nq), MF.from_qubitop(mk_qop(TQ, tb), nq)
        snapA = (A.integer.copy(), A.factors.copy(), dict(A.terms), A.binary.copy())
        snapB = (B.integer.copy(), B.factors.copy(), dict(B.terms), B.binary.copy())
        case = {"n_qubits": nq, "a": canon_qterms(ta), "b": canon_qterms(tb),
                "A_terms": [[[list(f) for f in w], [complex(v).real, complex(v).imag]] for w, v in ta.items()],
                "B_terms": [[[list(f) for f in w], [complex(v).real, complex(v).imag]] for w, v in tb.items()]}
        # ---- product
        try:
            with np_product_shim(shim):
                P = A * B
            got = show_mf(P.integer, P.factors)
            sym = mk_qop(TQ, ta) * mk_qop(TQ, tb)
            if canon_qterms(P.terms) != canon_qterms(sym.terms):
                ck.violation("C16/MultiformOperator.__mul__/differs-from-symbolic-product",
                             "array product %s, symbolic product %s" % (canon_qterms(P.terms), canon_qterms(sym.terms)),
                             dict(case, kind="multiform"))
            if canon_qterms(P.terms) != canon_qterms({tuple((q, "IZXY"[int(c)]) for q, c in enumerate(row) if c): f
                                                      for row, f in zip(P.integer, P.factors)}):
                ck.violation("C16/MultiformOperator.__mul__/forms-inconsistent", "terms and integer/factors disagree",
                             dict(case, kind="multiform"))
            nontriv = len(P.factors) < len(ta) * len(tb)
        except Exception as e:
            got, nontriv = "Err:" + type(e).__name__, False
            ck.violation("C16/MultiformOperator.__mul__/exception/%s" % type(e).__name__, "A*B raised %r" % e,
                         dict(case, kind="multiform"))
        exprs.append("mfmul %s %s" % (coq_mf(snapA[0], snapA[1]), coq_mf(snapB[0], snapB[1])))
        impl.append(got)
        meta.append(("mul", case))
        # ---- collapse on an operator with duplicate rows
        rows = np.concatenate((snapA[0], snapB[0], snapA[0]), axis=0).astype(int)
        facs = np.concatenate((snapA[1], snapB[1], -snapA[1] if rng.random() < 0.5 else snapA[1])).astype(complex)
        try:
            u, f = MF.collapse(rows.copy(), facs.copy())
            gotc = show_mf(u, f) if len(f) else "{}"
        except Exception as e:
            gotc = "Err:" + type(e).__name__
            ck.violation("C16/MultiformOperator.collapse/exception/%s" % type(e).__name__, "collapse raised %r" % e,
                         dict(case, kind="multiform"))
        exprs.append("mfcol %s" % coq_mf(rows, facs))
        impl.append(gotc)
        meta.append(("collapse", case))
        # ---- commutation
        try:
            c_all = bool(do_commute(A, B))
            c_terms = [bool(x) for x in do_commute(A, B, term_resolved=True)]
            gotd = ("T" if c_all else "F") + " " + "".join("T" if x else "F" for x in c_terms)
        except Exception as e:
            gotd, c_all, c_terms = "Err:" + type(e).__name__, None, None
            ck.violation("C16/do_commute/exception/%s" % type(e).__name__, "do_commute raised %r" % e, dict(case, kind="multiform"))
        rowsA = coq_list([coq_list(["%d%%N" % int(c) for c in row]) for row in snapA[0]])
        rowsB = coq_list([coq_list(["%d%%N" % int(c) for c in row]) for row in snapB[0]])
        exprs.append("show_bool (%s %s %s) ++ \" \" ++ show_bools (do_commute_terms %s %s)" % (
            "do_commute_asis" if variants["do_commute"] else "do_commute_repaired", rowsA, rowsB, rowsA, rowsB))
        impl.append(gotd)
        meta.append(("do_commute", case))
        anti = False
        if c_all is not None:
            dA, dB = dense(mk_qop(TQ, ta), nq), dense(mk_qop(TQ, tb), nq)
            comm = np.abs(dA @ dB - dB @ dA).max() < 1e-12
            anti = not comm
            if c_all and not comm:
                ck.violation("C16/do_commute/operator-level/true-for-non-commuting-operators",
                             "do_commute(%s, %s) is True although [A,B] != 0" % (case["a"], case["b"]),
                             dict(case, kind="multiform"))
            # term-resolved: entry i says A_i commutes with every term of B
            words_a = list(ta)
            for i, w in enumerate(words_a):
                dw = dense(mk_qop(TQ, {w: 1.0}), nq)
                each = all(np.abs(dw @ dense(mk_qop(TQ, {v: 1.0}), nq) - dense(mk_qop(TQ, {v: 1.0}), nq) @ dw).max() < 1e-12
                           for v in tb)
                if c_terms[i] != each:
                    ck.violation("C16/do_commute/term-resolved/wrong", "term %s of A vs B=%s: %s" % (w, case["b"], c_terms[i]),
                                 dict(case, kind="multiform"))
            pairs_commute = all(c_terms)
            if (not c_all) and pairs_commute:
                ck.violation("C16/do_commute/operator-level/false-for-termwise-commuting-operators",
                             "do_commute is False although every pair of terms commutes", dict(case, kind="multiform"))
        # ---- operands unchanged
        for nm, X, sn in (("left", A, snapA), ("right", B, snapB)):
            if not (np.array_equal(X.integer, sn[0]) and np.array_equal(X.factors, sn[1]) and dict(X.terms) == sn[2]
                    and np.array_equal(X.binary, sn[3])):
                ck.violation("C16/MultiformOperator/%s-operand-mutated" % nm, "operand changed by *, collapse or do_commute",
                             dict(case, kind="multiform"))
        ck.case("multiform", json.dumps(case), nontrivial=nontriv or anti,
                sample=dict(case, product=got, do_commute=gotd), tags=["nq=%d" % nq, "shim" if shim else "native",
                                                                        "anticommuting" if anti else "commuting"])
    model = ck.coq_eval("multiform", PREAMBLE, exprs, shard=150)
    for m, g, (what, case) in zip(model, impl, meta):
        if m != g and not g.startswith("Err"):
            ck.violation("C16/correspondence/multiform/%s" % what,
                         "%s: implementation %s, model %s (a=%s b=%s)" % (what, g, m, case["a"], case["b"]),
                         dict(case, kind="multiform", what=what, impl=g, model=m), found_input=False)


# ------------------------------------------------------------------------------------------ large array forms
COLLAPSE_DTYPES = ["int8", "int8", "int8", "uint8", "int16", "uint16", "int32", "uint32", "int64", "int"]


def make_collapse_case(params):
    """Deterministic from params = {seed, n_rows, n_qubits, dtype, n_words}: rows drawn from a small set of words (many
    duplicates), factors with half-integer real and imaginary parts, some rows cancelling earlier ones."""
    import random
    import numpy as np
    r = random.Random(params["seed"])
    nq, n_rows = params["n_qubits"], params["n_rows"]
    words = [tuple(r.randrange(4) for _ in range(nq)) for _ in range(params["n_words"])]
    rows, f2 = [], []
    for k in range(n_rows):
        if rows and r.random() < 0.05:
            j = r.randrange(len(rows))
            rows.append(rows[j])
            f2.append((-f2[j][0], -f2[j][1]))          # cancels row j
        else:
            rows.append(r.choice(words))
            f2.append((r.randint(-6, 6), r.choice([0, 0, 1, -2, 3])))
    dt = int if params["dtype"] == "int" else getattr(np, params["dtype"])
    arr = np.array(rows, dtype=dt).reshape(n_rows, nq)
    factors = np.array([complex(a / 2, b / 2) for a, b in f2], dtype=complex)
    return arr, factors, rows, f2


def collapse_reference(rows, f2):
    acc = {}
    for w, (a, b) in zip(rows, f2):
        c = acc.get(w, (0, 0))
        acc[w] = (c[0] + a, c[1] + b)
    return [(w, complex(a / 2, b / 2)) for w, (a, b) in sorted(acc.items()) if (a, b) != (0, 0)]


def check_collapse_case(params):
    """-> (problem description or None, canonical string of the implementation's result, rows, factors)"""
    from tangelo.toolboxes.operators.multiformoperator import MultiformOperator as MF
    arr, factors, rows, f2 = make_collapse_case(params)
    a0, f0 = arr.copy(), factors.copy()
    try:
        u, f = MF.collapse(arr, factors)
    except Exception as e:
        return "collapse raised %r" % (e,), "Err:" + type(e).__name__, a0, f0
    got = [(tuple(int(c) for c in row), complex(x)) for row, x in zip(u, f)]
    want = collapse_reference(rows, f2)
    prob = None
    if not (np_equal(arr, a0) and np_equal(factors, f0)):
        prob = "collapse changed its arguments"
    elif [w for w, _ in got] != [w for w, _ in want]:
        prob = "words returned %s..., expected (sorted, unique, zero sums dropped) %s..." % ([w for w, _ in got][:6], [w for w, _ in want][:6])
    elif got != want:
        k = next(i for i in range(len(want)) if got[i] != want[i])
        nbad = sum(1 for i in range(len(want)) if got[i] != want[i])
        prob = "%d of %d factors differ from the sum over duplicate rows, e.g. word %s: %s instead of %s" % (
            nbad, len(want), "".join(map(str, want[k][0])), got[k][1], want[k][1])
    return prob, show_mf([w for w, _ in got], [x for _, x in got]) if got else "{}", a0, f0


def np_equal(a, b):
    import numpy as np
    return a.dtype == b.dtype and np.array_equal(a, b)


def run_large_arrays(ck, variants):
    """Array forms with more rows than a small integer dtype can index (r3: an index column of dtype int8 wraps at 128)."""
    import numpy as np
    from tangelo.toolboxes.operators import QubitOperator as TQ
    from tangelo.toolboxes.operators.multiformoperator import MultiformOperator as MF
    rng = ck.rng
    quick = ck.tier == "quick"
    ck.stream("collapse-large", "MultiformOperator.collapse on 120-320 rows (sizes around 127/128/129, 255/256/257 included) drawn from 5-60 "
              "words on 2-4 qubits with many duplicates and cancelling rows, dtypes int8 uint8 int16 uint16 int32 uint32 int64 int (all "
              "the code accepts), vs the exact sum over duplicate rows, vs mf_collapse of the Coq model, arguments unchanged; sums of two "
              "MultiformOperators through .integer/.factors (int8) with 130-300 rows in total vs qubitoperator + qubitoperator; products with "
              "144-289 rows vs the symbolic product and mf_mul; 33000 rows int16 (quick) and 66000 rows uint16 (thorough) vs the exact sum; "
              "non-trivial = more than 128 rows")
    exprs, impl, meta = [], [], []
    sizes = [127, 128, 129, 130, 255, 256, 257, 300]
    n_direct = 16 if quick else 160
    for k in range(n_direct):
        n_rows = sizes[k % len(sizes)] if k < 2 * len(sizes) else rng.randint(120, 320)
        params = {"seed": rng.randrange(10 ** 9), "n_rows": n_rows, "n_qubits": rng.randint(2, 4),
                  "dtype": "int8" if k < len(sizes) else rng.choice(COLLAPSE_DTYPES), "n_words": rng.choice([5, 12, 30, 60])}
        prob, got, a0, f0 = check_collapse_case(params)
        case = dict(params, kind="collapse")
        if prob:
            ck.violation("C16/MultiformOperator.collapse/differs-from-sum-over-duplicate-rows",
                         "collapse on %d rows of dtype %s (%d qubits): %s" % (n_rows, params["dtype"], params["n_qubits"], prob), case)
        exprs.append("mfcol %s" % coq_mf(a0, f0))
        impl.append(got)
        meta.append(("collapse", case))
        ck.case("collapse-large", json.dumps(params), nontrivial=n_rows > 128, sample=dict(case, result=got[:200]),
                tags=["dtype=" + params["dtype"], "rows>128" if n_rows > 128 else "rows<=128"])
    # ---- very long arrays: implementation-only oracle
    for params in ([{"seed": 1, "n_rows": 33000, "n_qubits": 3, "dtype": "int16", "n_words": 40}] +
                   ([] if quick else [{"seed": 2, "n_rows": 66000, "n_qubits": 3, "dtype": "uint16", "n_words": 50},
                                      {"seed": 3, "n_rows": 40000, "n_qubits": 4, "dtype": "int8", "n_words": 200}])):
        prob, got, _, _ = check_collapse_case(params)
        if prob:
            ck.violation("C16/MultiformOperator.collapse/differs-from-sum-over-duplicate-rows",
                         "collapse on %d rows of dtype %s: %s" % (params["n_rows"], params["dtype"], prob), dict(params, kind="collapse"))
        ck.case("collapse-large", json.dumps(params), nontrivial=True, sample=dict(params, result=got[:120]),
                tags=["dtype=" + params["dtype"], "rows>32767"])
    # ---- sum of two operators in array form: collapse(vstack(integer), concatenate(factors)) vs the symbolic sum
    for k in range(6 if quick else 60):
        nq = rng.choice([4, 4, 5])
        na, nb = rng.randint(60, 150), rng.randint(70, 150)
        pool = all_words(nq)
        ta = {w: make_scalar(rand_scalar(rng, allow_zero=False)[:4] + ["complex"]) for w in rng.sample(pool, na)}
        tb = {w: make_scalar(rand_scalar(rng, allow_zero=False)[:4] + ["complex"]) for w in rng.sample(pool, nb)}
        for w in rng.sample(list(ta), 5):
            tb[w] = -ta[w]                                 # cancelling words
        A, B = MF.from_qubitop(mk_qop(TQ, ta), nq), MF.from_qubitop(mk_qop(TQ, tb), nq)
        case = {"kind": "array-sum", "n_qubits": nq, "A_terms": [[[list(f) for f in w], [complex(v).real, complex(v).imag]] for w, v in ta.items()],
                "B_terms": [[[list(f) for f in w], [complex(v).real, complex(v).imag]] for w, v in tb.items()]}
        prob = array_sum_problem(A, B)
        if prob:
            ck.violation("C16/MultiformOperator.collapse/array-sum-differs-from-symbolic-sum",
                         "sum of two MultiformOperators (%d + %d words, %d qubits, dtype %s) through collapse: %s" % (
                             len(A.factors), len(B.factors), nq, A.integer.dtype, prob), case)
        ck.case("collapse-large", json.dumps([nq, sorted(map(str, ta))[:3], len(ta), len(tb), k]), nontrivial=True,
                sample={"n_qubits": nq, "rows": len(A.factors) + len(B.factors)}, tags=["array-sum", "dtype=" + str(A.integer.dtype)])
    # ---- products with more than 128 rows
    for k in range(3 if quick else 30):
        nq = 4
        pool = all_words(nq)
        ta = {w: make_scalar(rand_scalar(rng, allow_zero=False)[:4] + ["complex"]) for w in rng.sample(pool, rng.randint(12, 17))}
        tb = {w: make_scalar(rand_scalar(rng, allow_zero=False)[:4] + ["complex"]) for w in rng.sample(pool, rng.randint(12, 17))}
        A, B = MF.from_qubitop(mk_qop(TQ, ta), nq), MF.from_qubitop(mk_qop(TQ, tb), nq)
        case = {"kind": "multiform", "n_qubits": nq, "a": "%d words" % len(ta), "b": "%d words" % len(tb),
                "A_terms": [[[list(f) for f in w], [complex(v).real, complex(v).imag]] for w, v in ta.items()],
                "B_terms": [[[list(f) for f in w], [complex(v).real, complex(v).imag]] for w, v in tb.items()]}
        try:
            with np_product_shim(variants["np_product_missing"]):
                P = A * B
            got = show_mf(P.integer, P.factors)
            sym = mk_qop(TQ, ta) * mk_qop(TQ, tb)
            if canon_qterms(P.terms) != canon_qterms(sym.terms):
                ck.violation("C16/MultiformOperator.__mul__/differs-from-symbolic-product",
                             "array product of %d x %d words differs from the symbolic product" % (len(ta), len(tb)), case)
        except Exception as e:
            got = "Err:" + type(e).__name__
            ck.violation("C16/MultiformOperator.__mul__/exception/%s" % type(e).__name__, "A*B raised %r" % e, case)
        exprs.append("mfmul %s %s" % (coq_mf(A.integer, A.factors), coq_mf(B.integer, B.factors)))
        impl.append(got)
        meta.append(("mul", case))
        ck.case("collapse-large", json.dumps([k, len(ta), len(tb), sorted(map(str, ta))[:2]]), nontrivial=True,
                sample={"rows": len(ta) * len(tb)}, tags=["product-rows>128"])
    model = ck.coq_eval("large", PREAMBLE, exprs, shard=8)
    for m, g, (what, case) in zip(model, impl, meta):
        if m != g and not g.startswith("Err"):
            ck.violation("C16/correspondence/multiform/%s-large" % what,
                         "%s on a large array: implementation and model differ (impl %s... model %s...)" % (what, g[:150], m[:150]),
                         dict(case, what=what), found_input=False)


def array_sum_problem(A, B):
    """collapse(vstack(A.integer, B.integer), concatenate(A.factors, B.factors)) against A.qubitoperator + B.qubitoperator"""
    import numpy as np
    from tangelo.toolboxes.operators.multiformoperator import MultiformOperator as MF
    ia, ib, fa, fb = A.integer.copy(), B.integer.copy(), A.factors.copy(), B.factors.copy()
    try:
        u, f = MF.collapse(np.vstack((A.integer, B.integer)), np.concatenate((A.factors, B.factors)))
    except Exception as e:
        return "collapse raised %r" % (e,)
    got = {tuple((q, "IZXY"[int(c)]) for q, c in enumerate(row) if c): x for row, x in zip(u, f)}
    if len(got) != len(f):
        return "collapse returned a duplicate word"
    sym = A.qubitoperator + B.qubitoperator
    if canon_qterms(got) != canon_qterms(sym.terms):
        keys = set(got) | set(sym.terms)
        bad = [k for k in keys if frac2(got.get(k, 0)) != frac2(sym.terms.get(k, 0))]
        return "%d of %d words have a different factor than in qubitoperator + qubitoperator, e.g. %s: %s instead of %s" % (
            len(bad), len(keys), show_word(bad[0]), got.get(bad[0], 0), sym.terms.get(bad[0], 0))
    if not (np_equal(A.integer, ia) and np_equal(B.integer, ib) and np.array_equal(A.factors, fa) and np.array_equal(B.factors, fb)):
        return "operands changed"
    return None


# ------------------------------------------------------------------------------------------ histories on array-form objects
def forms_problems(M, expected, nq):
    """Consistency of the redundant forms of a MultiformOperator with each other and with the expected content
    (ordered list of (word, coefficient)).  Returns a list of (attribute, description)."""
    import numpy as np
    out = []
    n = len(expected)
    words = [w for w, _ in expected]
    if list(M.terms.keys()) != words or [frac2(v) for v in M.terms.values()] != [frac2(c) for _, c in expected]:
        out.append(("terms", "terms are %s, expected %s" % (canon_qterms(M.terms), canon_qterms(dict(expected)))))
    if M.n_terms != n:
        out.append(("n_terms", "n_terms is %d for %d terms" % (M.n_terms, n)))
    if M.n_qubits != nq:
        out.append(("n_qubits", "n_qubits is %s, expected %d" % (M.n_qubits, nq)))
    want_int = np.zeros((n, nq), dtype=int)
    for i, w in enumerate(words):
        for q, p_ in w:
            want_int[i, q] = "IZXY".index(p_)
    want_bin = np.concatenate((want_int >> 1, want_int & 1), axis=1).astype(bool)
    want_swap = np.concatenate((want_int & 1, want_int >> 1), axis=1).astype(bool)
    for name, got, want in (("integer", M.integer, want_int), ("binary", M.binary, want_bin), ("binary_swap", M.binary_swap, want_swap)):
        got = np.asarray(got)
        if got.shape != want.shape or not np.array_equal(got.astype(int), want.astype(int)):
            out.append((name, "%s has shape %s and rows %s, the current terms need shape %s rows %s" % (
                name, got.shape, got.astype(int).tolist()[:6], want.shape, want.astype(int).tolist()[:6])))
    f = np.asarray(M.factors)
    if f.shape != (n,) or [frac2(x) for x in f] != [frac2(c) for _, c in expected]:
        out.append(("factors", "factors are %s, expected %s" % (list(f)[:6], [c for _, c in expected][:6])))
    q = M.qubitoperator
    if q.terms is M.terms or dict(q.terms) != dict(M.terms):
        out.append(("qubitoperator", "qubitoperator does not return a copy of the current terms"))
    return out


def run_multiform_histories(ck, n, variants):
    """Histories of in-place methods on MultiformOperator objects (remove_terms with int / list / array indices,
    compress after zeroing a coefficient, get_kernel) followed by every observation of the array form, each compared
    with the symbolic computation on the CURRENT content of the operators."""
    import numpy as np
    from tangelo.toolboxes.operators import QubitOperator as TQ
    from tangelo.toolboxes.operators.multiformoperator import MultiformOperator as MF, do_commute
    rng = ck.rng
    ck.stream("multiform-histories", "MultiformOperator objects A (3-7 words) and B (2-5 words) on 2-4 qubits built with from_qubitop / "
              "from_integerop / from_binaryop, then 1-3 in-place steps on A and sometimes B (remove_terms with an int, a list or an array of "
              "indices; compress(n_qubits=n) after zeroing a coefficient; get_kernel); after every step all forms (terms, factors, integer, "
              "binary, binary_swap, n_qubits, qubitoperator) must describe the expected current content; then do_commute(A,B), do_commute(B,A) "
              "in both modes, A*B, B*A, collapse of the stacked rows and qubitoperator vs the symbolic results on the current content and vs "
              "the Coq model; non-trivial = a removed word of A anticommutes with a word of B")
    exprs, impl, meta = [], [], []
    shim = variants["np_product_missing"]

    def build(terms, nq, how):
        M0 = MF.from_qubitop(mk_qop(TQ, terms), nq)
        if how == "qubitop":
            return M0
        if how == "integer":
            return MF.from_integerop(M0.integer.copy(), M0.factors.copy())
        return MF.from_binaryop(M0.binary.copy(), M0.factors.copy())
    for ci in range(n):
        nq = rng.randint(2, 4)
        pool = all_words(nq)
        ta = {w: make_scalar(rand_scalar(rng, allow_zero=False)[:4] + ["complex"]) for w in rng.sample(pool, min(len(pool) - 1, rng.randint(3, 7)))}
        tb = {w: make_scalar(rand_scalar(rng, allow_zero=False)[:4] + ["complex"]) for w in rng.sample(pool, rng.randint(2, 5))}
        hows = [rng.choice(["qubitop", "qubitop", "integer", "binary"]) for _ in range(2)]
        objs = {"A": build(ta, nq, hows[0]), "B": build(tb, nq, hows[1])}
        content = {"A": list(ta.items()), "B": list(tb.items())}
        removed = []
        trace = [["build", "A", hows[0]], ["build", "B", hows[1]]]
        case = {"kind": "mf-history", "n_qubits": nq,
                "A_terms": [[[list(f) for f in w], [complex(v).real, complex(v).imag]] for w, v in ta.items()],
                "B_terms": [[[list(f) for f in w], [complex(v).real, complex(v).imag]] for w, v in tb.items()], "trace": trace}
        bad = False
        for name in ("A", "B"):
            for attr, d in forms_problems(objs[name], content[name], nq):
                ck.violation("C16/MultiformOperator.from_%sop/forms-inconsistent/%s" % ({"qubitop": "qubit", "integer": "integer", "binary": "binary"}[hows["AB".index(name)]], attr),
                             "%s built with from_%sop: %s" % (name, hows["AB".index(name)], d), case)
                bad = True
        for step in range(rng.randint(1, 3)):
            name = "A" if rng.random() < 0.75 else "B"
            M, cur = objs[name], content[name]
            r = rng.random()
            if r < 0.7 and len(cur) > 1:
                k = rng.randint(1, min(3, len(cur) - 1))
                idx = sorted(rng.sample(range(len(cur)), k))
                form = rng.choice(["int", "list", "array"]) if k == 1 else rng.choice(["list", "array"])
                arg = idx[0] if form == "int" else (list(idx) if form == "list" else np.array(idx))
                trace.append(["remove_terms", name, form, idx])
                method = "remove_terms"
                removed += [cur[i][0] for i in idx if name == "A"]
                content[name] = [tc for i, tc in enumerate(cur) if i not in idx]
                call = lambda: M.remove_terms(arg)  # noqa
            elif r < 0.88 and len(cur) > 1:
                i = rng.randrange(len(cur))
                trace.append(["zero+compress", name, i])
                method = "compress"
                if name == "A":
                    removed.append(cur[i][0])
                content[name] = [tc for j, tc in enumerate(cur) if j != i]

                def call(M=M, w=cur[i][0]):
                    M.terms[w] = 0.0
                    M.compress(n_qubits=nq)
            else:
                trace.append(["get_kernel", name])
                method = "get_kernel"
                call = lambda: M.get_kernel()  # noqa
            try:
                call()
            except Exception as e:
                if method == "get_kernel":
                    # the kernel computation itself (empty kernels raise) belongs to the tapering property C14; here it
                    # only matters that calling it leaves the operator's forms intact, which is checked below
                    ck.notes["get_kernel_exceptions_ignored"] = ck.notes.get("get_kernel_exceptions_ignored", 0) + 1
                else:
                    ck.violation("C16/MultiformOperator.%s/exception/%s" % (method, type(e).__name__), "%s raised %r after %s" % (method, e, trace), case)
                    bad = True
                    break
            probs = forms_problems(M, content[name], nq)
            for attr, d in probs:
                ck.violation("C16/MultiformOperator.%s/forms-inconsistent/%s" % (method, attr),
                             "after %s on %s (history %s): %s" % (method, name, trace, d), case)
            other = "B" if name == "A" else "A"
            oprobs = forms_problems(objs[other], content[other], nq)
            for attr, d in oprobs:
                ck.violation("C16/MultiformOperator.%s/other-object-changed/%s" % (method, attr), "history %s: %s" % (trace, d), case)
            if probs or oprobs:
                break        # no further in-place step: a later method must not be blamed for this one; observations still follow
        if bad:
            continue
        # ---- observations on the current content
        A, B = objs["A"], objs["B"]
        wa, wb = [w for w, _ in content["A"]], [w for w, _ in content["B"]]
        da, db = dict(content["A"]), dict(content["B"])
        obs = []
        for (X, Y, wx, wy, tag) in ((A, B, wa, wb, "A,B"), (B, A, wb, wa, "B,A")):
            want_terms = [all(ref_words_commute(x, y) for y in wy) for x in wx]
            try:
                g_all = bool(do_commute(X, Y))
                g_terms = [bool(v) for v in do_commute(X, Y, term_resolved=True)]
            except Exception as e:
                ck.violation("C16/do_commute/after-in-place-method/exception/%s" % type(e).__name__,
                             "do_commute(%s) raised %r after history %s" % (tag, e, trace), case)
                obs.append("Err")
                continue
            obs.append(("T" if g_all else "F") + " " + "".join("T" if v else "F" for v in g_terms))
            if g_terms != want_terms:
                ck.violation("C16/do_commute/after-in-place-method/term-resolved-wrong",
                             "history %s on A=%s B=%s: do_commute(%s, term_resolved=True) = %s, the current operators (A=%s, B=%s) give %s" % (
                                 trace, case_str(ta), case_str(tb), tag, g_terms, canon_qterms(da), canon_qterms(db), want_terms), case)
            if g_all != all(want_terms):
                ck.violation("C16/do_commute/after-in-place-method/operator-level-wrong",
                             "history %s: do_commute(%s) = %s, the current operators (A=%s, B=%s) give %s" % (
                                 trace, tag, g_all, canon_qterms(da), canon_qterms(db), all(want_terms)), case)
            rowsX = coq_list([coq_list(["%d%%N" % ("IZXY".index(dict(w).get(q, "I"))) for q in range(nq)]) for w in wx])
            rowsY = coq_list([coq_list(["%d%%N" % ("IZXY".index(dict(w).get(q, "I"))) for q in range(nq)]) for w in wy])
            exprs.append("show_bool (%s %s %s) ++ \" \" ++ show_bools (do_commute_terms %s %s)" % (
                "do_commute_asis" if variants["do_commute"] else "do_commute_repaired", rowsX, rowsY, rowsX, rowsY))
            impl.append(obs[-1])
            meta.append(("do_commute(%s)" % tag, case))
        for (X, Y, dx, dy, tag) in ((A, B, da, db, "A*B"), (B, A, db, da, "B*A")):
            try:
                with np_product_shim(shim):
                    P = X * Y
                sym = mk_qop(TQ, dx) * mk_qop(TQ, dy)
                if canon_qterms(P.terms) != canon_qterms(sym.terms):
                    ck.violation("C16/MultiformOperator.__mul__/after-in-place-method/differs-from-symbolic-product",
                                 "history %s: %s = %s, symbolic product of the current operators %s" % (
                                     trace, tag, canon_qterms(P.terms), canon_qterms(sym.terms)), case)
                for attr, d in forms_problems(P, list(P.terms.items()), nq):
                    if attr != "terms":
                        ck.violation("C16/MultiformOperator.__mul__/forms-inconsistent/%s" % attr, "history %s, %s: %s" % (trace, tag, d), case)
            except Exception as e:
                ck.violation("C16/MultiformOperator.__mul__/after-in-place-method/exception/%s" % type(e).__name__,
                             "%s raised %r after history %s" % (tag, e, trace), case)
        try:
            u, f = MF.collapse(np.vstack((A.integer, B.integer)), np.concatenate((A.factors, B.factors)))
            got = {tuple((q, "IZXY"[int(c)]) for q, c in enumerate(row) if c): x for row, x in zip(u, f)}
            sym = mk_qop(TQ, da) + mk_qop(TQ, db)
            if canon_qterms(got) != canon_qterms(sym.terms):
                ck.violation("C16/MultiformOperator.collapse/after-in-place-method/differs-from-symbolic-sum",
                             "history %s: collapse of the stacked rows = %s, symbolic sum %s" % (trace, canon_qterms(got), canon_qterms(sym.terms)), case)
        except Exception as e:
            ck.violation("C16/MultiformOperator.collapse/after-in-place-method/exception/%s" % type(e).__name__,
                         "collapse raised %r after history %s" % (e, trace), case)
        nontriv = any(not ref_words_commute(w, y) for w in removed for y in wb)
        ck.case("multiform-histories", json.dumps([nq, case["A_terms"], case["B_terms"], trace], default=str), nontrivial=nontriv,
                sample={"n_qubits": nq, "a": case_str(ta), "b": case_str(tb), "trace": json.loads(json.dumps(trace, default=str)), "obs": obs},
                tags=[t[0] for t in trace[2:]] + ["built:" + h for h in hows])
    model = ck.coq_eval("mfhist", PREAMBLE, exprs, shard=300)
    for m, g, (what, case) in zip(model, impl, meta):
        if m != g and g != "Err":
            ck.violation("C16/correspondence/multiform/history-%s" % what.split("(")[0],
                         "%s after history %s: implementation %s, model on the current content %s" % (what, case["trace"], g, m),
                         dict(case, what=what, impl=g, model=m), found_input=False)


def case_str(terms):
    return canon_qterms(terms)


# ------------------------------------------------------------------------------------------ probes
def probes(ck):
    """Replay the witnesses of the *_refuted theorems on the real code (DESIGN §5.2)."""
    import numpy as np
    from tangelo.toolboxes.operators import FermionOperator as TF, QubitOperator as TQ, QubitHamiltonian as QH
    from tangelo.toolboxes.operators.multiformoperator import MultiformOperator as MF, do_commute
    v = {}
    # C16_fermion_arith_pure_refuted: a = 2 [1^ 0], b = 3 [2^ 1]
    mutated = []
    for name, f in (("add", lambda a, b: a + b), ("sub", lambda a, b: a - b), ("mul", lambda a, b: a * b)):
        a, b = TF("1^ 0", 2), TF("2^ 1", 3)
        r = f(a, b)
        if r is a or dict(a.terms) != {((1, 1), (0, 0)): 2}:
            mutated.append(name)
            ck.violation("C16/FermionOperator/%s/operand-mutated" % name,
                         "FermionOperator('1^ 0', 2) %s FermionOperator('2^ 1', 3) returns the left operand itself, modified: %s"
                         % ({"add": "+", "sub": "-", "mul": "*"}[name], dict(a.terms)),
                         {"kind": "probe", "probe": "fermion-" + name})
    v["fermion"] = bool(mutated)
    if mutated and len(mutated) != 3:
        ck.notes["partially_repaired_fermion_methods"] = mutated
    # C16_qubitham_plain_operand_refuted
    v["qubitham"] = False
    try:
        h = QH("X0", 1.0, mapping="JW", up_then_down=False)
        h += TQ("Z1", 2.0)
    except AttributeError:
        v["qubitham"] = True
    except TypeError:
        v["qubitham"] = True
    # C16_do_commute_operator_level_refuted: X0 + Z1 against Z0
    A = MF.from_qubitop(TQ("X0") + TQ("Z1"), 2)
    B = MF.from_qubitop(TQ("Z0"), 2)
    v["do_commute"] = bool(do_commute(A, B))
    if v["do_commute"]:
        ck.violation("C16/do_commute/operator-level/true-for-non-commuting-operators",
                     "do_commute(X0 + Z1, Z0) is True although X0 and Z0 anticommute (`not np.all(term_bool)`)",
                     {"kind": "probe", "probe": "do_commute"})
    # np.product
    v["np_product_missing"] = False
    try:
        _ = A * B
    except AttributeError as e:
        if "product" in str(e):
            v["np_product_missing"] = True
            ck.violation("C16/MultiformOperator.__mul__/exception/AttributeError",
                         "MultiformOperator.__mul__ raises %s (np.product was removed in NumPy 2; installed numpy %s)" % (
                             e, np.__version__), {"kind": "probe", "probe": "np.product"})
        else:
            raise
    return v


# ------------------------------------------------------------------------------------------ main
def run(ck):
    from translator import multiform_tables
    from translator.common import TranslateError
    ck.trusted = ["Coq 8.16.1 kernel (coqc), vm_compute",
                  "translator/multiform_tables.py + translator/common.py (ast pattern match of multiformoperator.py)",
                  "harness/props/C16.py (generators, canonical printers, exact Fraction reference, dense commutator via openfermion/numpy)",
                  "hand-written models Pauli/Store.v (dunder methods of operators.py and the openfermion 1.8 methods they call, "
                  "Python operator dispatch) and Pauli/Multiform.v (array form), tied by correspondence",
                  "coq/theories/Pauli/C16Exec.v printers"]
    ck.assumptions = ["coefficients are dyadic rationals (complex) with numerators < 2^50 and denominators <= 2^20: float arithmetic is "
                      "exact and openfermion's tolerance test abs(c) < 1e-8 coincides with the exact zero test used in the theorems",
                      "openfermion's SymbolicOperator / QubitOperator arithmetic is external: modelled as written in openfermion 1.8 "
                      "and tied by correspondence only",
                      "array form: operands of a product / commutation test have the same number of qubits",
                      "QubitHamiltonian - / * with a plain QubitOperator raise TypeError inside openfermion (type rule of "
                      "SymbolicOperator); only += , + and == are documented by Tangelo and checked"]
    t, terrs = multiform_tables.extract_lenient(REPO)
    for sec, msg in terrs:
        # fail closed: the section is reported; the search continues with the last known good values of that
        # section so that a concrete failing input can still be found
        ck.violation("C16/translator/multiform_tables/%s" % sec,
                     "translator no longer recognises %s in multiformoperator.py: %s" % (sec, msg),
                     {"kind": "translator", "section": sec, "error": msg}, found_input=False)
    fallback = [sec for sec, _ in terrs]
    ck.write_gen("MultiformTables", multiform_tables.emit(t, fallback))
    ck.notes["regenerated"] = {"prod_function": t["prod_name"], "do_commute_reduction": t["commute_reduction"],
                               "collapse_index_dtype": t["collapse_index_dtype"], "collapse_index_max": t["collapse_index_max"],
                               "fallback_sections": fallback,
                               "note": ("sections %s could not be regenerated: the table obligations and the model used for the "
                                        "correspondence rest on LAST KNOWN GOOD values for them and say nothing about the current "
                                        "source; only the implementation-only oracles do" % fallback) if fallback else "all sections regenerated"}
    res = ck.prove()
    if not res.ok:
        ck.proof_violation(res)
    try:
        import tangelo.toolboxes.operators  # noqa
        import tangelo.toolboxes.operators.multiformoperator  # noqa
    except Exception as e:
        ck.violation("C16/import", "tangelo.toolboxes.operators cannot be imported: %r" % e, {"kind": "import"}, found_input=False)
        return
    variants = probes(ck)
    ck.notes["model_variants"] = {k: ("as-written" if v else "repaired") for k, v in variants.items()}
    if "do_commute" not in fallback and (t["commute_reduction"] == "all") != variants["do_commute"]:
        ck.violation("C16/translator/do_commute-reduction", "the regenerated reduction (%s) and the probe disagree" % t["commute_reduction"],
                     {"kind": "translator"}, found_input=False)

    # ---- fermionic chains
    quick = ck.tier == "quick"
    n_chain = 320 if quick else 5000
    chains = []
    corpus = VERIF / "corpus" / "C16"
    if corpus.exists():
        for f in sorted(corpus.glob("*.json")):
            chains.append(json.loads(f.read_text())["ops"])
    for _ in range(n_chain):
        chains.append(gen_chain(ck.rng, ck.tier))
    ck.stream("fermion-chains", "chains of 2-6 (quick) / 2-9 (thorough) operations + - * += -= *= neg /2 over a store of 2-3 shared "
              "FermionOperators (Tangelo with and without attributes, openfermion), operands: objects (aliasing allowed), int / float / "
              "complex / numpy scalars on either side, None; store compared with the Coq model after every step, operand snapshots and "
              "exact reference values on the implementation; non-trivial = an operand is used again after an operation")
    runs, exprs = [], []
    for ops in chains:
        steps, mops, evaluable, findings = run_chain_impl(ops)
        used, reuse = set(), False
        for o in ops:
            idx = [v[1] for v in o[2:4] if isinstance(v, list) and v and v[0] == "obj"] if o[0] == "bin" else \
                ([o[2]] + ([o[3][1]] if o[3][0] == "obj" else []) if o[0] == "iop" else ([o[1]] if o[0] in ("neg", "half", "idiv") else []))
            if any(i in used for i in idx):
                reuse = True
            used.update(idx)
        ck.case("fermion-chains", json.dumps(ops), nontrivial=reuse, sample={"ops": ops, "last": steps[-1][:300]},
                tags=[o[0] + ("/" + o[1] if o[0] in ("bin", "iop") else "") for o in ops if o[0] != "new"])
        for sig, desc in findings:
            ck.violation(sig, desc, {"kind": "chain", "ops": ops})
        if not evaluable:
            ck.not_evaluated += 1
            continue
        runs.append((ops, " ## ".join(steps)))
        exprs.append("crun %s %s" % (coq_bool(variants["fermion"]), coq_list(mops)))
    model = ck.coq_eval("chains", PREAMBLE, exprs, shard=40)
    for (ops, a), b in zip(runs, model):
        if a != b:
            sa, sb = a.split(" ## "), b.split(" ## ")
            k = next((i for i in range(min(len(sa), len(sb))) if sa[i] != sb[i]), min(len(sa), len(sb)))
            what = ops[k][0] + ("/" + ops[k][1] if ops[k][0] in ("bin", "iop") else "") if k < len(ops) else "?"
            ck.violation("C16/correspondence/fermion/%s" % what,
                         "model (%s variant) and implementation differ at step %d (%s): impl=%s model=%s" % (
                             "as-written" if variants["fermion"] else "repaired", k, what,
                             sa[k][:500] if k < len(sa) else None, sb[k][:500] if k < len(sb) else None),
                         {"kind": "chain", "ops": ops, "step": k}, found_input=False)
    run_qubit_stream(ck, 200 if quick else 3000, variants)
    run_qubit_chains(ck, 250 if quick else 4000)
    run_multiform_stream(ck, 150 if quick else 2500, variants)
    run_commute_stream(ck, 250 if quick else 3000, variants)
    run_large_arrays(ck, variants)
    run_multiform_histories(ck, 200 if quick else 3000, variants)


def replay(data):
    r = data["replay"]
    if r.get("kind") == "chain":
        steps, mops, evaluable, findings = run_chain_impl(r["ops"])
        for s in steps:
            print(s[:1000])
        for sig, desc in findings:
            print("FINDING", sig, desc[:600])
        return 1 if findings or "step" in r else 0
    if r.get("kind") == "probe":
        class _C:
            notes = {}
            vs = []

            def violation(self, sig, desc, rep, found_input=True):
                self.vs.append(sig)
                print("FINDING", sig, desc)
        c = _C()
        probes(c)
        return 1 if data.get("signature") in c.vs else 0
    if r.get("kind") == "mf-history":
        import numpy as np
        from tangelo.toolboxes.operators import QubitOperator as TQ
        from tangelo.toolboxes.operators.multiformoperator import MultiformOperator as MF, do_commute
        nq = r["n_qubits"]
        terms = {"A": {tuple((int(q), p_) for q, p_ in w): complex(*v) for w, v in r["A_terms"]},
                 "B": {tuple((int(q), p_) for q, p_ in w): complex(*v) for w, v in r["B_terms"]}}
        objs, content, bad = {}, {}, 0
        for st in r["trace"]:
            name = st[1]
            if st[0] == "build":
                M0 = MF.from_qubitop(mk_qop(TQ, terms[name]), nq)
                objs[name] = M0 if st[2] == "qubitop" else (MF.from_integerop(M0.integer.copy(), M0.factors.copy()) if st[2] == "integer"
                                                            else MF.from_binaryop(M0.binary.copy(), M0.factors.copy()))
                content[name] = list(terms[name].items())
                continue
            M, cur = objs[name], content[name]
            try:
                if st[0] == "remove_terms":
                    idx = [int(i) for i in st[3]]
                    M.remove_terms(idx[0] if st[2] == "int" else (idx if st[2] == "list" else np.array(idx)))
                    content[name] = [tc for i, tc in enumerate(cur) if i not in idx]
                elif st[0] == "zero+compress":
                    M.terms[cur[int(st[2])][0]] = 0.0
                    M.compress(n_qubits=nq)
                    content[name] = [tc for j, tc in enumerate(cur) if j != int(st[2])]
                else:
                    try:
                        M.get_kernel()
                    except (IndexError, ValueError):
                        pass
            except Exception as e:
                print("step %s raised %r" % (st, e))
                return 1
            for nm in ("A", "B"):
                for attr, d in forms_problems(objs[nm], content[nm], nq):
                    print("after %s: %s.%s inconsistent: %s" % (st, nm, attr, d[:300]))
                    bad += 1
        for X, Y, tag in (("A", "B", "A,B"), ("B", "A", "B,A")):
            wx, wy = [w for w, _ in content[X]], [w for w, _ in content[Y]]
            want = [all(ref_words_commute(x, y) for y in wy) for x in wx]
            got = [bool(v) for v in do_commute(objs[X], objs[Y], term_resolved=True)]
            g_all = bool(do_commute(objs[X], objs[Y]))
            print("do_commute(%s): term_resolved %s expected %s | operator level %s expected %s" % (tag, got, want, g_all, all(want)))
            bad += got != want or g_all != all(want)
            with np_product_shim(not hasattr(np, "product")):
                P = objs[X] * objs[Y]
            sym = mk_qop(TQ, dict(content[X])) * mk_qop(TQ, dict(content[Y]))
            ok = canon_qterms(P.terms) == canon_qterms(sym.terms)
            print("%s*%s %s the symbolic product of the current operators" % (X, Y, "equals" if ok else "DIFFERS from"))
            bad += not ok
        return 1 if bad else 0
    if r.get("kind") == "collapse":
        prob, got, _, _ = check_collapse_case({k: r[k] for k in ("seed", "n_rows", "n_qubits", "dtype", "n_words")})
        print("collapse on %d rows of dtype %s: %s" % (r["n_rows"], r["dtype"], prob or "agrees with the sum over duplicate rows"))
        return 1 if prob else 0
    if r.get("kind") == "array-sum":
        from tangelo.toolboxes.operators import QubitOperator as TQ
        from tangelo.toolboxes.operators.multiformoperator import MultiformOperator as MF
        ta = {tuple((int(q), p_) for q, p_ in w): complex(*v) for w, v in r["A_terms"]}
        tb = {tuple((int(q), p_) for q, p_ in w): complex(*v) for w, v in r["B_terms"]}
        prob = array_sum_problem(MF.from_qubitop(mk_qop(TQ, ta), r["n_qubits"]), MF.from_qubitop(mk_qop(TQ, tb), r["n_qubits"]))
        print("array sum of %d + %d words: %s" % (len(ta), len(tb), prob or "agrees with the symbolic sum"))
        return 1 if prob else 0
    if r.get("kind") == "multiform" and "A_terms" in r:
        import numpy as np
        from tangelo.toolboxes.operators import QubitOperator as TQ
        from tangelo.toolboxes.operators.multiformoperator import MultiformOperator as MF, do_commute
        ta = {tuple((int(q), p_) for q, p_ in w): complex(*v) for w, v in r["A_terms"]}
        tb = {tuple((int(q), p_) for q, p_ in w): complex(*v) for w, v in r["B_terms"]}
        MA, MB = MF.from_qubitop(mk_qop(TQ, ta), r["n_qubits"]), MF.from_qubitop(mk_qop(TQ, tb), r["n_qubits"])
        bad = 0
        want = [all(ref_words_commute(a, b) for b in tb) for a in list(MA.terms)]
        got_terms = [bool(x) for x in do_commute(MA, MB, term_resolved=True)]
        got_all = bool(do_commute(MA, MB))
        print("A =", r["a"], "B =", r["b"])
        print("do_commute term_resolved: got", got_terms, "expected", want, "| operator level: got", got_all, "expected", all(want))
        bad += got_terms != want or got_all != all(want)
        try:
            with np_product_shim(not hasattr(np, "product")):
                P = MA * MB
            sym = mk_qop(TQ, ta) * mk_qop(TQ, tb)
            print("array product", canon_qterms(P.terms), "| symbolic product", canon_qterms(sym.terms))
            bad += canon_qterms(P.terms) != canon_qterms(sym.terms)
        except Exception as e:
            print("A * B raised %r" % e)
            bad += 1
        return 1 if bad else 0
    if r.get("kind") == "commute" and "A_words" in r:
        from tangelo.toolboxes.operators import QubitOperator as TQ
        from tangelo.toolboxes.operators.multiformoperator import MultiformOperator as MF, do_commute
        A = [tuple((int(q), p) for q, p in w) for w in r["A_words"]]
        B = [tuple((int(q), p) for q, p in w) for w in r["B_words"]]
        MA = MF.from_qubitop(mk_qop(TQ, {w: 1.0 for w in A}), r["n_qubits"])
        MB = MF.from_qubitop(mk_qop(TQ, {w: 1.0 for w in B}), r["n_qubits"])
        want = [all(ref_words_commute(a, b) for b in B) for a in list(MA.terms)]
        got_terms = [bool(x) for x in do_commute(MA, MB, term_resolved=True)]
        got_all = bool(do_commute(MA, MB))
        print("A =", A, "B =", B)
        print("term_resolved: got", got_terms, "expected", want, "| operator level: got", got_all, "expected", all(want))
        return 1 if (got_terms != want or got_all != all(want)) else 0
    print(json.dumps(r, indent=1)[:4000])
    return 1
