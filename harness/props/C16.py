"""C16 — operator arithmetic returns correct values and never mutates operands (DESIGN §7.C16).

  regenerate  gen/MultiformTables.v (c_calc, ConvertPauli table, do_commute reduction) from multiformoperator.py
  prove       coq/props/C16.v  (Pauli algebra, object-store model of the FermionOperator dunder methods,
              QubitHamiltonian attribute tests, array form vs symbolic form)
  probe       the witnesses of the *_refuted theorems on the real code: decides, per defect, whether the
              correspondence runs against the "as written" or the "repaired" variant of the model
  correspond  chains of operations on a store of shared FermionOperators (Tangelo / openfermion mixed,
              scalars and None on either side): full store compared after every step with the Coq model;
              QubitOperator sums/products vs Pauli/Word.v; MultiformOperator products, collapse and
              do_commute vs Pauli/Multiform.v over the regenerated tables
  oracle      on the implementation alone: operand snapshots before/after every operation; returned
              values against an independent exact reference (Fractions); array form vs symbolic form;
              do_commute vs the actual commutator
"""
import copy
import json
from fractions import Fraction

from harness.lib import REPO, VERIF, coq_list, coq_nat, coq_bool

LEVEL = "proof"

PREAMBLE = """From Coq Require Import String ZArith NArith List Bool.
From Tangelo Require Import Num.KStruct Num.Cyc Num.Show Fermion.Fock Pauli.Word Pauli.Store Pauli.Multiform Pauli.C16Exec.
From Gen Require Import MultiformTables.
Import ListNotations.
Open Scope string_scope.
Definition A3 (a b c : option Z) := mkAttrs a b c.
Definition cc := cc_of_table CycS c_calc_tab.
Definition mfmul (A B : mfop CycS) := show_mfop (mf_mul CycS cc small_cy A B).
Definition mfcol (A : mfop CycS) := show_mfop (mf_collapse CycS small_cy A).
Definition omul (a b : op CycS) := show_op (canon (op_mul CycS a b)).
Definition oadd (a b : op CycS) := show_op (canon (op_add CycS a b)).
Definition osub (a b : op CycS) := show_op (canon (op_sub CycS a b)).
Definition oscale (c : KC) (a : op CycS) := show_op (canon (op_scale CycS c a)).
Definition qa (m : option string) (u : option bool) := mkQ m u.
"""

MAXNUM = 2 ** 50
MAXDEN = 2 ** 20


# ------------------------------------------------------------------------------------------ numbers
def frac2(v):
    """Python number -> (re, im) Fractions, exact."""
    c = complex(v)
    return Fraction(c.real), Fraction(c.imag)


def show_num(v):
    re, im = frac2(v)
    return "%s,%s" % (re, im)


def coq_num(re, im):
    re, im = Fraction(re), Fraction(im)
    return "(cyq (%d)%%Z %d (%d)%%Z %d)" % (re.numerator, re.denominator, im.numerator, im.denominator)


def num_ok(v):
    re, im = frac2(v)
    return all(abs(x.numerator) < MAXNUM and x.denominator <= MAXDEN for x in (re, im))


def make_scalar(spec):
    """spec = [re_num, re_den, im_num, im_den, pytype]"""
    import numpy as np
    re, im = Fraction(spec[0], spec[1]), Fraction(spec[2], spec[3])
    ty = spec[4]
    if ty == "int":
        return int(re)
    if ty == "float":
        return float(re)
    if ty == "complex":
        return complex(float(re), float(im))
    if ty == "np.float64":
        return np.float64(float(re))
    if ty == "np.int64":
        return np.int64(int(re))
    raise ValueError(ty)


def rand_scalar(rng, allow_zero=True):
    pool = [(2, 1, 0, 1), (-1, 1, 0, 1), (3, 1, 0, 1), (1, 2, 0, 1), (-2, 1, 0, 1), (3, 2, 0, 1), (1, 1, 0, 1),
            (0, 1, 1, 1), (1, 1, -1, 2), (0, 1, -2, 1)]
    if allow_zero and rng.random() < 0.08:
        v = (0, 1, 0, 1)
    else:
        v = rng.choice(pool)
    if v[2] != 0:
        ty = "complex"
    elif v[1] != 1:
        ty = rng.choice(["float", "float", "complex", "np.float64"])
    else:
        ty = rng.choice(["int", "int", "float", "complex", "np.float64", "np.int64"])
    return list(v) + [ty]


# ------------------------------------------------------------------------------------------ fermionic store
def show_fterm(t):
    return "(" + " ".join("%d%s" % (p, "^" if a else "") for p, a in t) + ")"


def show_fobj(o):
    from tangelo.toolboxes.operators import FermionOperator as TF
    if isinstance(o, TF):
        at = [o.n_spinorbitals, o.n_electrons, o.spin]
        head = "Tg[" + ",".join("N" if x is None else str(int(x)) for x in at) + "]"
    else:
        head = "Of[N,N,N]"
    return head + "{" + "; ".join("%s:%s" % (show_fterm(t), show_num(v)) for t, v in o.terms.items()) + "}"


def coq_fterm(t):
    return coq_list(["(%d%%N, %s)" % (p, coq_bool(bool(a))) for p, a in t])


def coq_attr(x):
    return "None" if x is None else "(Some (%d)%%Z)" % x


def gen_terms(rng):
    n = rng.choice([1, 1, 2, 2, 3])
    out, seen = [], set()
    for _ in range(n):
        ln = rng.choice([0, 1, 2, 2, 2, 3])
        t = tuple((rng.randrange(4), rng.randrange(2)) for _ in range(ln))
        if t in seen:
            continue
        seen.add(t)
        out.append([[list(f) for f in t], rand_scalar(rng, allow_zero=False)])
    return out


def gen_chain(rng, tier):
    ops = []
    kinds = []        # class of each object that will exist (when every operation succeeds)
    n0 = rng.choice([2, 2, 3])
    attr_pool = [[None, None, None], [None, None, None], [4, 2, 0], [4, 2, 0], [6, 2, 0]]
    for _ in range(n0):
        c = rng.choice(["Tg", "Tg", "Tg", "Of"])
        at = rng.choice(attr_pool) if c == "Tg" else [None, None, None]
        ops.append(["new", c, at, gen_terms(rng)])
        kinds.append(c)
    n_ops = rng.randint(2, 6 if tier == "quick" else 9)

    def operand(allow_scalar=True):
        r = rng.random()
        if r < 0.68 or not allow_scalar:
            return ["obj", rng.randrange(len(kinds))]
        if r < 0.96:
            return ["num", rand_scalar(rng)]
        return ["none"]
    for _ in range(n_ops):
        r = rng.random()
        if r < 0.70:
            x = operand()
            y = operand()
            if x[0] != "obj" and y[0] != "obj":
                y = ["obj", rng.randrange(len(kinds))]
            ops.append(["bin", rng.choice(["Add", "Sub", "Mul"]), x, y])
            kinds.append("?")
        elif r < 0.85:
            ops.append(["iop", rng.choice(["Add", "Sub", "Mul"]), rng.randrange(len(kinds)), operand()])
        elif r < 0.93:
            ops.append(["neg", rng.randrange(len(kinds))])
            kinds.append("?")
        else:
            ops.append(["half", rng.randrange(len(kinds))])
            kinds.append("?")
    return ops


def ref_terms(o):
    """exact reference copy of a dictionary: {term: (re, im)}"""
    return {t: frac2(v) for t, v in o.terms.items()}


def cadd(a, b):
    return (a[0] + b[0], a[1] + b[1])


def cmul(a, b):
    return (a[0] * b[0] - a[1] * b[1], a[0] * b[1] + a[1] * b[0])


def nz(d):
    return {t: v for t, v in d.items() if v != (0, 0)}


def ref_binop(op, x, y):
    """x, y: dict (operator) or (re, im) scalar; at least one is a dict.  Algebraic result, zeros dropped."""
    dx, dy = isinstance(x, dict), isinstance(y, dict)
    if op == "Mul":
        if dx and dy:
            out = {}
            for s, a in x.items():
                for t, b in y.items():
                    out[s + t] = cadd(out.get(s + t, (0, 0)), cmul(a, b))
            return nz(out)
        d, c = (x, y) if dx else (y, x)
        return nz({t: cmul(v, c) for t, v in d.items()})
    sgn = (Fraction(1), Fraction(0)) if op == "Add" else (Fraction(-1), Fraction(0))
    out = dict(x) if dx else {(): x}
    for t, v in (y.items() if dy else [((), y)]):
        out[t] = cadd(out.get(t, (0, 0)), cmul(sgn, v))
    return nz(out)


def run_chain_impl(ops):
    """Run a chain on the real classes.  Returns (steps, model op terms, evaluable, findings)."""
    import openfermion as of
    from tangelo.toolboxes.operators import FermionOperator as TF
    store, steps, mops, findings = [], [], [], []
    evaluable = True

    def mk(cls_, at, terms):
        o = TF(n_spinorbitals=at[0], n_electrons=at[1], spin=at[2]) if cls_ == "Tg" else of.FermionOperator()
        for t, c in terms:
            o.terms[tuple((int(p), int(a)) for p, a in t)] = make_scalar(c)
        return o

    def val(v):
        if v[0] == "obj":
            return store[v[1] % len(store)]
        if v[0] == "num":
            return make_scalar(v[1])
        return None

    def coq_val(v):
        if v[0] == "obj":
            return "(VObj %s)" % coq_nat(v[1] % len(store))
        if v[0] == "num":
            return "(VNum %s)" % coq_num(Fraction(v[1][0], v[1][1]), Fraction(v[1][2], v[1][3]))
        return "VNone"

    def kind(v):
        if v[0] == "obj":
            return "Tg" if isinstance(store[v[1] % len(store)], TF) else "Of"
        return v[0]

    for op in ops:
        k = op[0]
        if k in ("bin", "iop") and op[1] == "Mul":
            # keep dictionaries small: a product of more than 40 term pairs is not executed (same rule on replay)
            vs = [op[2], op[3]] if k == "bin" else [["obj", op[2]], op[3]]
            sz = 1
            for v in vs:
                if v[0] == "obj":
                    sz *= max(1, len(store[v[1] % len(store)].terms))
            if sz > 40:
                continue
        snaps = [show_fobj(o) for o in store]
        refs = [ref_terms(o) for o in store]
        out, res = "Ok", None
        method, pure_idx, left_idx, expect = None, [], None, None
        try:
            if k == "new":
                mops.append("(ONew %s (A3 %s %s %s) %s)" % (
                    "CTg" if op[1] == "Tg" else "COf", coq_attr(op[2][0]), coq_attr(op[2][1]), coq_attr(op[2][2]),
                    coq_list(["(%s, %s)" % (coq_fterm(t), coq_num(Fraction(c[0], c[1]), Fraction(c[2], c[3])))
                              for t, c in op[3]])))
                res = mk(op[1], op[2], op[3])
                store.append(res)
            elif k == "bin":
                _, o, x, y = op
                mops.append("(OBin %s %s %s)" % (o, coq_val(x), coq_val(y)))
                kx, ky = kind(x), kind(y)
                name = {"Add": "add", "Sub": "sub", "Mul": "mul"}[o]
                if kx == "Tg":
                    method = "FermionOperator/" + name
                elif ky == "Tg" and (o != "Mul" or kx != "Of"):
                    method = "FermionOperator/r" + name
                else:
                    method = "openfermion.FermionOperator/" + name
                pure_idx = [v[1] % len(store) for v in (x, y) if v[0] == "obj"]
                left_idx = x[1] % len(store) if x[0] == "obj" else (y[1] % len(store))
                vx, vy = val(x), val(y)
                ex = refs[x[1] % len(store)] if x[0] == "obj" else (frac2(vx) if x[0] == "num" else None)
                ey = refs[y[1] % len(store)] if y[0] == "obj" else (frac2(vy) if y[0] == "num" else None)
                if ex is not None and ey is not None:
                    expect = ref_binop(o, ex, ey)
                if o == "Add":
                    res = vx + vy
                elif o == "Sub":
                    res = vx - vy
                else:
                    res = vx * vy
            elif k == "iop":
                _, o, i, y = op
                i = i % len(store)
                mops.append("(OIop %s %s %s)" % (o, coq_nat(i), coq_val(y)))
                method = ("FermionOperator/i" if isinstance(store[i], TF) else "openfermion.FermionOperator/i") \
                    + {"Add": "add", "Sub": "sub", "Mul": "mul"}[o]
                pure_idx = [y[1] % len(store)] if (y[0] == "obj" and y[1] % len(store) != i) else []
                left_idx = i
                vy = val(y)
                ey = refs[y[1] % len(store)] if y[0] == "obj" else (frac2(vy) if y[0] == "num" else None)
                if ey is not None:
                    expect = ref_binop(o, refs[i], ey)
                res = store[i]
                if o == "Add":
                    res += vy
                elif o == "Sub":
                    res -= vy
                else:
                    res *= vy
            elif k in ("neg", "half"):
                i = op[1] % len(store)
                mops.append("(%s %s)" % ("ONeg" if k == "neg" else "OHalf", coq_nat(i)))
                tg = isinstance(store[i], TF)
                method = ("FermionOperator/" if tg else "openfermion.FermionOperator/") + ("neg" if k == "neg" else "truediv")
                pure_idx, left_idx = [i], i
                c = (Fraction(-1), Fraction(0)) if k == "neg" else (Fraction(1, 2), Fraction(0))
                expect = ref_binop("Mul", refs[i], c)
                res = -store[i] if k == "neg" else store[i] / 2
        except Exception as e:
            out, res = "Err:" + type(e).__name__, None
        if res is not None and k != "new":
            idx = next((j for j, o in enumerate(store) if o is res), None)
            if idx is None:
                store.append(res)
                idx = len(store) - 1
            out = "Ok %d" % idx
        elif k == "new":
            out = "Ok %d" % (len(store) - 1)
        for o in store:
            for v in o.terms.values():
                if not num_ok(v):
                    evaluable = False
        steps.append(out + " # " + " | ".join(show_fobj(o) for o in store))
        if not evaluable or k == "new":
            continue
        # ---------------- property oracle on the implementation
        after = [show_fobj(o) for o in store]
        aliased = k == "bin" and op[2][0] == "obj" and op[3][0] == "obj" and op[2][1] % len(snaps) == op[3][1] % len(snaps)
        inplace = k == "iop"
        for j in sorted(set(pure_idx)):
            if j < len(snaps) and after[j] != snaps[j]:
                # which side of the expression was it?
                if inplace:
                    side = "right-operand-mutated"
                elif k == "bin" and method.split("/")[1] in ("add", "sub", "mul") and op[3][0] == "obj" \
                        and j == op[3][1] % len(snaps) and not aliased:
                    side = "right-operand-mutated"
                else:
                    side = "operand-mutated"
                findings.append(("C16/%s/%s" % (method, side),
                                 "%s: operand #%d changed by a %s operation: %s -> %s" % (
                                     method, j, "in-place (right operand)" if inplace else "binary", snaps[j], after[j])))
        same_inplace = inplace and op[3][0] == "obj" and op[3][1] % len(snaps) == left_idx
        if expect is not None and not same_inplace:      # x op= x is openfermion's own loop: model correspondence only
            if out.startswith("Ok"):
                got = nz(ref_terms(res))
                if got != expect:
                    findings.append(("C16/%s/wrong-value%s" % (method, "-aliased-operands" if (aliased or (
                        inplace and op[3][0] == "obj" and op[3][1] % len(snaps) == left_idx)) else ""),
                        "%s returned %s, algebraic result %s" % (method, got, expect)))
            else:
                # an exception although both operands are operators / scalars: legitimate only for the
                # documented attribute-compatibility errors
                legit = False
                if out == "Err:RuntimeError" and k in ("bin", "iop"):
                    objs = [store[v[1] % len(store)] for v in (op[2:4] if k == "bin" else [["obj", op[2]], op[3]]) if v[0] == "obj"]
                    tgs = [o for o in objs if isinstance(o, TF)]
                    at = lambda o: (o.n_spinorbitals, o.n_electrons, o.spin)  # noqa
                    if len(objs) == 2 and len(tgs) == 2 and at(tgs[0]) != at(tgs[1]):
                        legit = True
                    if len(objs) == 2 and len(tgs) == 1 and at(tgs[0]) != (None, None, None):
                        # documented for Tangelo-on-the-left and for the reflected + / -; a product with the
                        # openfermion object on the left is openfermion's own and does not raise
                        legit = True
                if not legit:
                    same = aliased or (inplace and op[3][0] == "obj" and op[3][1] % len(snaps) == left_idx)
                    findings.append(("C16/%s/exception%s" % (method, "-aliased-operands" if same else ""),
                                     "%s raised %s on well-typed operands" % (method, out)))
    return steps, mops, evaluable, findings


# ------------------------------------------------------------------------------------------ Pauli operators
PAULI_ORD = {"X": 0, "Y": 1, "Z": 2}


def show_word(t):
    return "(" + " ".join("%s%d" % (p, q) for q, p in t) + ")"


def canon_qterms(terms):
    items = [(t, v) for t, v in terms.items() if frac2(v) != (0, 0)]
    items.sort(key=lambda tv: tuple((q, PAULI_ORD[p]) for q, p in tv[0]))
    return "{" + "; ".join("%s:%s" % (show_word(t), show_num(v)) for t, v in items) + "}"


def coq_word(t):
    return coq_list(["(%d%%N, P%s)" % (q, p) for q, p in t])


def coq_op(terms):
    return coq_list(["(%s, %s)" % (coq_word(t), coq_num(*frac2(v))) for t, v in terms.items()])


def gen_qterms(rng, n_qubits, max_terms=3):
    out = {}
    for _ in range(rng.randint(1, max_terms)):
        qs = sorted(rng.sample(range(n_qubits), rng.randint(0, min(3, n_qubits))))
        t = tuple((q, rng.choice("XYZ")) for q in qs)
        s = rand_scalar(rng, allow_zero=False)
        out[t] = make_scalar(s[:4] + [rng.choice(["float", "complex"]) if s[4].startswith("np") or s[4] == "int" else s[4]])
    return out


def mk_qop(cls, terms, **kw):
    o = cls(**kw) if kw else cls()
    o.terms = dict(terms)
    return o


def run_qubit_stream(ck, n, variants):
    import openfermion as of
    from tangelo.toolboxes.operators import QubitOperator as TQ, QubitHamiltonian as QH
    rng = ck.rng
    exprs, impl, meta = [], [], []
    ck.stream("qubit-symbolic", "Tangelo / openfermion QubitOperator and QubitHamiltonian sums, differences, products, "
              "scalar multiples vs collapse(op_add/op_sub/op_mul/op_scale) of Pauli/Word.v (exact, sorted, zeros dropped) "
              "with operand snapshots; non-trivial = product of multi-term operators sharing a qubit")
    classes = {"TQ": TQ, "OQ": of.QubitOperator, "QH": QH}
    for ci in range(n):
        nq = rng.randint(1, 4)
        ta, tb = gen_qterms(rng, nq), gen_qterms(rng, nq)
        ca = rng.choice(["TQ", "TQ", "OQ", "QH"])
        cb = ca if rng.random() < 0.6 else rng.choice(["TQ", "OQ", "QH"])
        a, b = mk_qop(classes[ca], ta), mk_qop(classes[cb], tb)
        o = rng.choice(["mul", "mul", "add", "sub", "scale", "rscale"])
        sc = rand_scalar(rng)
        sa, sb = canon_qterms(a.terms), canon_qterms(b.terms)
        try:
            if o == "mul":
                r = a * b
            elif o == "add":
                r = a + b
            elif o == "sub":
                r = a - b
            elif o == "scale":
                r = a * make_scalar(sc)
            else:
                r = make_scalar(sc[:4] + ["float" if sc[4].startswith("np") else sc[4]]) * a
            got = canon_qterms(r.terms)
        except TypeError:
            # openfermion's type rule (right operand must be an instance of the left operand's class):
            # external behaviour, the pair is skipped and counted
            ck.notes["qubit_type_rule_skips"] = ck.notes.get("qubit_type_rule_skips", 0) + 1
            continue
        except Exception as e:
            got = "Err:" + type(e).__name__
        if canon_qterms(a.terms) != sa or canon_qterms(b.terms) != sb or any(x is r for x in (a, b)):
            ck.violation("C16/QubitOperator/%s/operand-mutated" % o, "%s %s %s changed an operand" % (ca, o, cb),
                         {"kind": "qubit", "a": [ca, sa], "b": [cb, sb], "op": o})
        if o in ("scale", "rscale"):
            e = "oscale %s %s" % (coq_num(Fraction(sc[0], sc[1]), Fraction(sc[2], sc[3])), coq_op(ta))
        else:
            e = "o%s %s %s" % (o, coq_op(ta), coq_op(tb))
        exprs.append(e)
        impl.append(got)
        share = any(set(q for q, _ in t1) & set(q for q, _ in t2) for t1 in ta for t2 in tb)
        meta.append((o, ca, cb, sa, sb, sc))
        ck.case("qubit-symbolic", json.dumps([o, sa, sb, sc]), nontrivial=(o == "mul" and len(ta) > 1 and len(tb) > 1 and share),
                sample={"op": o, "a": [ca, sa], "b": [cb, sb], "impl": got}, tags=[o, ca + "," + cb])
    model = ck.coq_eval("qubit", PREAMBLE, exprs, shard=120)
    for m, g, md in zip(model, impl, meta):
        if m != g:
            ck.violation("C16/correspondence/QubitOperator/%s" % md[0],
                         "symbolic %s: implementation %s, model %s (a=%s b=%s)" % (md[0], g, m, md[3], md[4]),
                         {"kind": "qubit", "op": md[0], "a": md[3], "b": md[4], "scalar": md[5], "impl": g, "model": m},
                         found_input=False)
    run_qubitham(ck, variants)


def run_qubitham(ck, variants):
    """QubitHamiltonian.__iadd__ / __eq__ (and + through deepcopy) with annotated / bare / plain operands."""
    import openfermion as of
    from tangelo.toolboxes.operators import QubitOperator as TQ, QubitHamiltonian as QH
    asis = variants["qubitham"]
    ck.stream("qubit-hamiltonian", "all combinations of self (mapping in None/JW/jw/BK x up_then_down in None/False/True) "
              "and other (annotated QubitHamiltonian / plain Tangelo QubitOperator / plain openfermion QubitOperator) for "
              "+=, + and ==: outcome vs qh_iadd_outcome / qh_eq_outcome, values and operand snapshots; "
              "non-trivial = self fully annotated")
    exprs, impl, meta = [], [], []
    maps = [None, "JW", "jw", "BK"]
    utds = [None, False, True]
    others = [("QH", m, u) for m in maps for u in utds] + [("TQ", None, None), ("OQ", None, None)]
    for m1 in maps:
        for u1 in utds:
            for (oc, m2, u2) in others:
                for o in ("iadd", "add", "eq"):
                    same = (m1, u1, oc, m2, u2, o)
                    h = QH("X0 Y1", 1.5, mapping=m1, up_then_down=u1) + QH("Z0", 2.0, mapping=m1, up_then_down=u1)
                    if oc == "QH":
                        q = QH("Z0", 0.5, mapping=m2, up_then_down=u2) + QH("X1", -1.0, mapping=m2, up_then_down=u2)
                    else:
                        q = (TQ if oc == "TQ" else of.QubitOperator)("Z0", 0.5) + (TQ if oc == "TQ" else of.QubitOperator)("X1", -1.0)
                    sh, sq = canon_qterms(h.terms), canon_qterms(q.terms)
                    expect_sum = "{(X0 Y1):3/2,0; (Z0):5/2,0; (X1):-1,0}"
                    try:
                        if o == "iadd":
                            h += q
                            got = "Ok"
                            val = canon_qterms(h.terms)
                        elif o == "add":
                            r = h + q
                            got = "Ok"
                            val = canon_qterms(r.terms)
                            if canon_qterms(h.terms) != sh:
                                ck.violation("C16/QubitHamiltonian/add/operand-mutated", "h + q changed h",
                                             {"kind": "qubitham", "case": same})
                        else:
                            r = (h == q)
                            got = "Ok " + ("T" if r else "F")
                            val = None
                    except Exception as e:
                        got, val = "Err:" + type(e).__name__, None
                    if canon_qterms(q.terms) != sq:
                        ck.violation("C16/QubitHamiltonian/%s/right-operand-mutated" % o, "operand changed",
                                     {"kind": "qubitham", "case": same})
                    other = "None" if oc != "QH" else "(Some (qa %s %s))" % (
                        "None" if m2 is None else '(Some "%s")' % m2, "None" if u2 is None else "(Some %s)" % coq_bool(u2))
                    selfq = "(qa %s %s)" % ("None" if m1 is None else '(Some "%s")' % m1,
                                            "None" if u1 is None else "(Some %s)" % coq_bool(u1))
                    if o == "eq":
                        exprs.append("show_res_bool (qh_eq_outcome upper %s %s %s)" % (coq_bool(asis), selfq, other))
                    else:
                        exprs.append("show_res_unit (qh_iadd_outcome upper %s %s %s)" % (coq_bool(asis), selfq, other))
                    impl.append(got)
                    meta.append(same)
                    annotated = m1 is not None and u1 is not None
                    ck.case("qubit-hamiltonian", json.dumps(same), nontrivial=annotated,
                            sample={"case": same, "impl": got}, tags=[o, oc, got])
                    # ---- oracle: the documented behaviour with a plain operand
                    if oc != "QH":
                        where = "annotated" if annotated else "bare"
                        if got.startswith("Err"):
                            ck.violation("C16/QubitHamiltonian/%s/plain-operand/%s/%s" % (
                                {"iadd": "__iadd__", "add": "__iadd__", "eq": "__eq__"}[o], where, got[4:]),
                                "QubitHamiltonian(mapping=%r, up_then_down=%r) %s plain %s raises %s although the "
                                "attribute check is documented as ignored for a QubitOperator" % (
                                    m1, u1, {"iadd": "+=", "add": "+", "eq": "=="}[o], oc, got[4:]),
                                {"kind": "qubitham", "case": same})
                        elif o in ("iadd", "add") and val != expect_sum:
                            ck.violation("C16/QubitHamiltonian/%s/plain-operand/wrong-value" % o, "sum is %s" % val,
                                         {"kind": "qubitham", "case": same})
                        elif o == "eq" and got != "Ok F":
                            ck.violation("C16/QubitHamiltonian/__eq__/plain-operand/wrong-value", "different operators compare equal",
                                         {"kind": "qubitham", "case": same})
                    elif got == "Ok" and val != expect_sum:
                        ck.violation("C16/QubitHamiltonian/%s/wrong-value" % o, "sum is %s" % val, {"kind": "qubitham", "case": same})
    model = ck.coq_eval("qubitham", PREAMBLE, exprs, shard=200)
    for m, g, md in zip(model, impl, meta):
        # the model's "Ok T" for == means "attribute check passed, dictionaries are compared": they differ here
        mm = "Ok F" if (md[5] == "eq" and m == "Ok T") else m
        if mm != g:
            ck.violation("C16/correspondence/QubitHamiltonian/%s" % md[5],
                         "case %s: implementation %s, model (%s variant) %s" % (md, g, "as-written" if asis else "repaired", m),
                         {"kind": "qubitham", "case": md, "impl": g, "model": m}, found_input=False)


# ------------------------------------------------------------------------------------------ array form
def show_mf(integer, factors):
    return "{" + "; ".join("%s:%s" % ("".join(str(int(c)) for c in row), show_num(f)) for row, f in zip(integer, factors)) + "}"


def coq_mf(integer, factors):
    return coq_list(["(%s, %s)" % (coq_list(["%d%%N" % int(c) for c in row]), coq_num(*frac2(f)))
                     for row, f in zip(integer, factors)])


class np_product_shim:
    """np.product was removed in NumPy 2; when the installed numpy lacks it the finding is recorded and the
    rest of MultiformOperator.__mul__ is exercised with np.product = np.prod (the minimal repair)."""
    def __init__(self, active):
        self.active = active

    def __enter__(self):
        import numpy as np
        if self.active:
            np.product = np.prod

    def __exit__(self, *a):
        import numpy as np
        if self.active and "product" in np.__dict__:
            del np.product


def dense(qop, n):
    import numpy as np
    from openfermion.linalg import get_sparse_operator
    import openfermion as of
    o = of.QubitOperator()
    o.terms = dict(qop.terms)
    if not o.terms:
        return np.zeros((2 ** n, 2 ** n), dtype=complex)
    return get_sparse_operator(o, n_qubits=n).toarray()


def run_multiform_stream(ck, n, variants):
    import numpy as np
    from tangelo.toolboxes.operators import QubitOperator as TQ
    from tangelo.toolboxes.operators.multiformoperator import MultiformOperator as MF, do_commute
    rng = ck.rng
    ck.stream("multiform", "random pairs of MultiformOperators of a common width 1-4 (1-4 terms, dyadic complex factors): "
              "A*B (rows, factors, terms) vs mf_mul over the regenerated c_calc and vs the symbolic product; collapse on "
              "rows with duplicates vs mf_collapse; do_commute (both modes) vs the model and vs the dense commutator; "
              "operand snapshots; non-trivial = product has a merged duplicate or a cancelled term, or operators anticommute")
    exprs, impl, meta = [], [], []
    shim = variants["np_product_missing"]
    for ci in range(n):
        nq = rng.randint(1, 4)
        ta, tb = gen_qterms(rng, nq, 4), gen_qterms(rng, nq, 4)
        if rng.random() < 0.25 and len(ta) > 1:
            # make a cancellation likely: B contains a word of A times the inverse-ish factor
            k = rng.choice(list(ta))
            tb[k] = -ta[k]
        A, B = MF.from_qubitop(mk_qop(TQ, ta), nq), MF.from_qubitop(mk_qop(TQ, tb), nq)
        snapA = (A.integer.copy(), A.factors.copy(), dict(A.terms), A.binary.copy())
        snapB = (B.integer.copy(), B.factors.copy(), dict(B.terms), B.binary.copy())
        case = {"n_qubits": nq, "a": canon_qterms(ta), "b": canon_qterms(tb)}
        # ---- product
        try:
            with np_product_shim(shim):
                P = A * B
            got = show_mf(P.integer, P.factors)
            sym = mk_qop(TQ, ta) * mk_qop(TQ, tb)
            if canon_qterms(P.terms) != canon_qterms(sym.terms):
                ck.violation("C16/MultiformOperator.__mul__/differs-from-symbolic-product",
                             "array product %s, symbolic product %s" % (canon_qterms(P.terms), canon_qterms(sym.terms)),
                             dict(case, kind="multiform"))
            if canon_qterms(P.terms) != canon_qterms({tuple((q, "IZXY"[int(c)]) for q, c in enumerate(row) if c): f
                                                      for row, f in zip(P.integer, P.factors)}):
                ck.violation("C16/MultiformOperator.__mul__/forms-inconsistent", "terms and integer/factors disagree",
                             dict(case, kind="multiform"))
            nontriv = len(P.factors) < len(ta) * len(tb)
        except Exception as e:
            got, nontriv = "Err:" + type(e).__name__, False
            ck.violation("C16/MultiformOperator.__mul__/exception/%s" % type(e).__name__, "A*B raised %r" % e,
                         dict(case, kind="multiform"))
        exprs.append("mfmul %s %s" % (coq_mf(snapA[0], snapA[1]), coq_mf(snapB[0], snapB[1])))
        impl.append(got)
        meta.append(("mul", case))
        # ---- collapse on an operator with duplicate rows
        rows = np.concatenate((snapA[0], snapB[0], snapA[0]), axis=0).astype(int)
        facs = np.concatenate((snapA[1], snapB[1], -snapA[1] if rng.random() < 0.5 else snapA[1])).astype(complex)
        try:
            u, f = MF.collapse(rows.copy(), facs.copy())
            gotc = show_mf(u, f) if len(f) else "{}"
        except Exception as e:
            gotc = "Err:" + type(e).__name__
            ck.violation("C16/MultiformOperator.collapse/exception/%s" % type(e).__name__, "collapse raised %r" % e,
                         dict(case, kind="multiform"))
        exprs.append("mfcol %s" % coq_mf(rows, facs))
        impl.append(gotc)
        meta.append(("collapse", case))
        # ---- commutation
        try:
            c_all = bool(do_commute(A, B))
            c_terms = [bool(x) for x in do_commute(A, B, term_resolved=True)]
            gotd = ("T" if c_all else "F") + " " + "".join("T" if x else "F" for x in c_terms)
        except Exception as e:
            gotd, c_all, c_terms = "Err:" + type(e).__name__, None, None
            ck.violation("C16/do_commute/exception/%s" % type(e).__name__, "do_commute raised %r" % e, dict(case, kind="multiform"))
        rowsA = coq_list([coq_list(["%d%%N" % int(c) for c in row]) for row in snapA[0]])
        rowsB = coq_list([coq_list(["%d%%N" % int(c) for c in row]) for row in snapB[0]])
        exprs.append("show_bool (%s %s %s) ++ \" \" ++ show_bools (do_commute_terms %s %s)" % (
            "do_commute_asis" if variants["do_commute"] else "do_commute_repaired", rowsA, rowsB, rowsA, rowsB))
        impl.append(gotd)
        meta.append(("do_commute", case))
        anti = False
        if c_all is not None:
            dA, dB = dense(mk_qop(TQ, ta), nq), dense(mk_qop(TQ, tb), nq)
            comm = np.abs(dA @ dB - dB @ dA).max() < 1e-12
            anti = not comm
            if c_all and not comm:
                ck.violation("C16/do_commute/operator-level/true-for-non-commuting-operators",
                             "do_commute(%s, %s) is True although [A,B] != 0" % (case["a"], case["b"]),
                             dict(case, kind="multiform"))
            # term-resolved: entry i says A_i commutes with every term of B
            words_a = list(ta)
            for i, w in enumerate(words_a):
                dw = dense(mk_qop(TQ, {w: 1.0}), nq)
                each = all(np.abs(dw @ dense(mk_qop(TQ, {v: 1.0}), nq) - dense(mk_qop(TQ, {v: 1.0}), nq) @ dw).max() < 1e-12
                           for v in tb)
                if c_terms[i] != each:
                    ck.violation("C16/do_commute/term-resolved/wrong", "term %s of A vs B=%s: %s" % (w, case["b"], c_terms[i]),
                                 dict(case, kind="multiform"))
            pairs_commute = all(c_terms)
            if (not c_all) and pairs_commute:
                ck.violation("C16/do_commute/operator-level/false-for-termwise-commuting-operators",
                             "do_commute is False although every pair of terms commutes", dict(case, kind="multiform"))
        # ---- operands unchanged
        for nm, X, sn in (("left", A, snapA), ("right", B, snapB)):
            if not (np.array_equal(X.integer, sn[0]) and np.array_equal(X.factors, sn[1]) and dict(X.terms) == sn[2]
                    and np.array_equal(X.binary, sn[3])):
                ck.violation("C16/MultiformOperator/%s-operand-mutated" % nm, "operand changed by *, collapse or do_commute",
                             dict(case, kind="multiform"))
        ck.case("multiform", json.dumps(case), nontrivial=nontriv or anti,
                sample=dict(case, product=got, do_commute=gotd), tags=["nq=%d" % nq, "shim" if shim else "native",
                                                                        "anticommuting" if anti else "commuting"])
    model = ck.coq_eval("multiform", PREAMBLE, exprs, shard=150)
    for m, g, (what, case) in zip(model, impl, meta):
        if m != g and not g.startswith("Err"):
            ck.violation("C16/correspondence/multiform/%s" % what,
                         "%s: implementation %s, model %s (a=%s b=%s)" % (what, g, m, case["a"], case["b"]),
                         dict(case, kind="multiform", what=what, impl=g, model=m), found_input=False)


# ------------------------------------------------------------------------------------------ probes
def probes(ck):
    """Replay the witnesses of the *_refuted theorems on the real code (DESIGN §5.2)."""
    import numpy as np
    from tangelo.toolboxes.operators import FermionOperator as TF, QubitOperator as TQ, QubitHamiltonian as QH
    from tangelo.toolboxes.operators.multiformoperator import MultiformOperator as MF, do_commute
    v = {}
    # C16_fermion_arith_pure_refuted: a = 2 [1^ 0], b = 3 [2^ 1]
    mutated = []
    for name, f in (("add", lambda a, b: a + b), ("sub", lambda a, b: a - b), ("mul", lambda a, b: a * b)):
        a, b = TF("1^ 0", 2), TF("2^ 1", 3)
        r = f(a, b)
        if r is a or dict(a.terms) != {((1, 1), (0, 0)): 2}:
            mutated.append(name)
            ck.violation("C16/FermionOperator/%s/operand-mutated" % name,
                         "FermionOperator('1^ 0', 2) %s FermionOperator('2^ 1', 3) returns the left operand itself, modified: %s"
                         % ({"add": "+", "sub": "-", "mul": "*"}[name], dict(a.terms)),
                         {"kind": "probe", "probe": "fermion-" + name})
    v["fermion"] = bool(mutated)
    if mutated and len(mutated) != 3:
        ck.notes["partially_repaired_fermion_methods"] = mutated
    # C16_qubitham_plain_operand_refuted
    v["qubitham"] = False
    try:
        h = QH("X0", 1.0, mapping="JW", up_then_down=False)
        h += TQ("Z1", 2.0)
    except AttributeError:
        v["qubitham"] = True
    except TypeError:
        v["qubitham"] = True
    # C16_do_commute_operator_level_refuted: X0 + Z1 against Z0
    A = MF.from_qubitop(TQ("X0") + TQ("Z1"), 2)
    B = MF.from_qubitop(TQ("Z0"), 2)
    v["do_commute"] = bool(do_commute(A, B))
    if v["do_commute"]:
        ck.violation("C16/do_commute/operator-level/true-for-non-commuting-operators",
                     "do_commute(X0 + Z1, Z0) is True although X0 and Z0 anticommute (`not np.all(term_bool)`)",
                     {"kind": "probe", "probe": "do_commute"})
    # np.product
    v["np_product_missing"] = False
    try:
        _ = A * B
    except AttributeError as e:
        if "product" in str(e):
            v["np_product_missing"] = True
            ck.violation("C16/MultiformOperator.__mul__/exception/AttributeError",
                         "MultiformOperator.__mul__ raises %s (np.product was removed in NumPy 2; installed numpy %s)" % (
                             e, np.__version__), {"kind": "probe", "probe": "np.product"})
        else:
            raise
    return v


# ------------------------------------------------------------------------------------------ main
def run(ck):
    from translator import multiform_tables
    from translator.common import TranslateError
    ck.trusted = ["Coq 8.16.1 kernel (coqc), vm_compute",
                  "translator/multiform_tables.py + translator/common.py (ast pattern match of multiformoperator.py)",
                  "harness/props/C16.py (generators, canonical printers, exact Fraction reference, dense commutator via openfermion/numpy)",
                  "hand-written models Pauli/Store.v (dunder methods of operators.py and the openfermion 1.8 methods they call, "
                  "Python operator dispatch) and Pauli/Multiform.v (array form), tied by correspondence",
                  "coq/theories/Pauli/C16Exec.v printers"]
    ck.assumptions = ["coefficients are dyadic rationals (complex) with numerators < 2^50 and denominators <= 2^20: float arithmetic is "
                      "exact and openfermion's tolerance test abs(c) < 1e-8 coincides with the exact zero test used in the theorems",
                      "openfermion's SymbolicOperator / QubitOperator arithmetic is external: modelled as written in openfermion 1.8 "
                      "and tied by correspondence only",
                      "array form: operands of a product / commutation test have the same number of qubits",
                      "QubitHamiltonian - / * with a plain QubitOperator raise TypeError inside openfermion (type rule of "
                      "SymbolicOperator); only += , + and == are documented by Tangelo and checked"]
    try:
        t = multiform_tables.extract(REPO)
        ck.write_gen("MultiformTables", multiform_tables.emit(t))
    except TranslateError as e:
        ck.violation("C16/translator/multiform_tables", "translator no longer recognises the source: %s" % e,
                     {"kind": "translator", "error": str(e)}, found_input=False)
        return
    ck.notes["regenerated"] = {"prod_function": t["prod_name"], "do_commute_reduction": t["commute_reduction"]}
    res = ck.prove()
    if not res.ok:
        ck.proof_violation(res)
    try:
        import tangelo.toolboxes.operators  # noqa
        import tangelo.toolboxes.operators.multiformoperator  # noqa
    except Exception as e:
        ck.violation("C16/import", "tangelo.toolboxes.operators cannot be imported: %r" % e, {"kind": "import"}, found_input=False)
        return
    variants = probes(ck)
    ck.notes["model_variants"] = {k: ("as-written" if v else "repaired") for k, v in variants.items()}
    if (t["commute_reduction"] == "all") != variants["do_commute"]:
        ck.violation("C16/translator/do_commute-reduction", "the regenerated reduction (%s) and the probe disagree" % t["commute_reduction"],
                     {"kind": "translator"}, found_input=False)

    # ---- fermionic chains
    quick = ck.tier == "quick"
    n_chain = 320 if quick else 5000
    chains = []
    corpus = VERIF / "corpus" / "C16"
    if corpus.exists():
        for f in sorted(corpus.glob("*.json")):
            chains.append(json.loads(f.read_text())["ops"])
    for _ in range(n_chain):
        chains.append(gen_chain(ck.rng, ck.tier))
    ck.stream("fermion-chains", "chains of 2-6 (quick) / 2-9 (thorough) operations + - * += -= *= neg /2 over a store of 2-3 shared "
              "FermionOperators (Tangelo with and without attributes, openfermion), operands: objects (aliasing allowed), int / float / "
              "complex / numpy scalars on either side, None; store compared with the Coq model after every step, operand snapshots and "
              "exact reference values on the implementation; non-trivial = an operand is used again after an operation")
    runs, exprs = [], []
    for ops in chains:
        steps, mops, evaluable, findings = run_chain_impl(ops)
        used, reuse = set(), False
        for o in ops:
            idx = [v[1] for v in o[2:4] if isinstance(v, list) and v and v[0] == "obj"] if o[0] == "bin" else \
                ([o[2]] + ([o[3][1]] if o[3][0] == "obj" else []) if o[0] == "iop" else ([o[1]] if o[0] in ("neg", "half") else []))
            if any(i in used for i in idx):
                reuse = True
            used.update(idx)
        ck.case("fermion-chains", json.dumps(ops), nontrivial=reuse, sample={"ops": ops, "last": steps[-1][:300]},
                tags=[o[0] + ("/" + o[1] if o[0] in ("bin", "iop") else "") for o in ops if o[0] != "new"])
        for sig, desc in findings:
            ck.violation(sig, desc, {"kind": "chain", "ops": ops})
        if not evaluable:
            ck.not_evaluated += 1
            continue
        runs.append((ops, " ## ".join(steps)))
        exprs.append("crun %s %s" % (coq_bool(variants["fermion"]), coq_list(mops)))
    model = ck.coq_eval("chains", PREAMBLE, exprs, shard=40)
    for (ops, a), b in zip(runs, model):
        if a != b:
            sa, sb = a.split(" ## "), b.split(" ## ")
            k = next((i for i in range(min(len(sa), len(sb))) if sa[i] != sb[i]), min(len(sa), len(sb)))
            what = ops[k][0] + ("/" + ops[k][1] if ops[k][0] in ("bin", "iop") else "") if k < len(ops) else "?"
            ck.violation("C16/correspondence/fermion/%s" % what,
                         "model (%s variant) and implementation differ at step %d (%s): impl=%s model=%s" % (
                             "as-written" if variants["fermion"] else "repaired", k, what,
                             sa[k][:500] if k < len(sa) else None, sb[k][:500] if k < len(sb) else None),
                         {"kind": "chain", "ops": ops, "step": k}, found_input=False)
    run_qubit_stream(ck, 200 if quick else 3000, variants)
    run_multiform_stream(ck, 150 if quick else 2500, variants)


def replay(data):
    r = data["replay"]
    if r.get("kind") == "chain":
        steps, mops, evaluable, findings = run_chain_impl(r["ops"])
        for s in steps:
            print(s[:1000])
        for sig, desc in findings:
            print("FINDING", sig, desc[:600])
        return 1 if findings or "step" in r else 0
    if r.get("kind") == "probe":
        class _C:
            notes = {}
            vs = []

            def violation(self, sig, desc, rep, found_input=True):
                self.vs.append(sig)
                print("FINDING", sig, desc)
        c = _C()
        probes(c)
        return 1 if data.get("signature") in c.vs else 0
    print(json.dumps(r, indent=1)[:4000])
    return 1
