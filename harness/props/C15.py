"""C15 — problem-decomposition energies satisfy their defining identities (DESIGN §7.C15).

  prove       coq/props/C15.v (models Chem/Decomp.v, proofs Chem/DecompProofs.v; no generated tables)
  correspond  the real classes vs the Coq models evaluated by vm_compute over exact rationals:
                oniom   ONIOMProblemDecomposition + Fragment + Link with stub molecules / stub solvers
                        returning prescribed exact numbers (only Fragment.get_mol and the table of solver
                        classes are replaced; __init__, build, get_solver, get_energy, simulate,
                        distribute_atoms, relink are /repo's code)
                relink  Link.relink on random integer geometries, dyadic factors
                mi      MethodOfIncrementsHelper(full_result=...).mi_summation on random energy tables
                dmet    DMETProblemDecomposition.__init__ bookkeeping on H4 / H6 (PySCF molecule)
  oracle      the identities themselves on the implementation: telescoping, model = system, caller's
              geometry untouched, cap on the bond at the requested fraction (exact), capping groups
              (numerical), full-order increments = E(full), accepted DMET fragmentations are permutations
  support     (labelled support, not proof) real DMET runs with fragment+bath spanning the whole space
              vs FCI, electron sum, atom relabelling; ONIOM with real solver pairs
"""
import contextlib
import copy
import io
import itertools
import json
import math
from fractions import Fraction

from harness.lib import coq_Z, coq_list, coq_bool, coq_opt, coq_nat, coq_str

LEVEL = "proof"

PREAMBLE = """From Coq Require Import ZArith String Bool Arith QArith Qcanon List.
From Tangelo Require Import Num.Show.
From Tangelo Require Import Chem.Decomp.
From Tangelo Require Import Chem.DecompShow.
Import ListNotations.
Open Scope string_scope.
From Gen Require Import DecompFacts.
Definition lk (s l : Z) (f : Qc) (sp : string) : link QcRing := mkLink (R := QcRing) s l f sp.
"""
FACTS = {}      # facts regenerated from the source in this run (translator/decomp_facts.py), or the fallback

SIG_ALIAS = "C15/distribute_atoms/link-on-whole-system-fragment-extends-shared-geometry"
SIG_DMET_INCOMPLETE = "C15/DMET.__init__/nested-fragment_atoms-not-covering-molecule-accepted"
SIG_DMET_NEGDUP = "C15/DMET.__init__/negative-atom-index-duplicates-atom"
SIG_NEWTON = "C15/DMET.simulate/newton-fails-on-constant-electron-count"
SIG_DMET_WRONG_ATOMS = "C15/DMET.__init__/nested-fragment_atoms-fragment-holds-wrong-atoms"

SOLVERS = ["HF", "CCSD", "FCI", "MINDO3"]
BASES = ["sto-3g", "6-31g"]
FROZEN = [None, 1]
# an accuracy level as the caller requests it: solver name + the content of the options dictionary of that level
LEVELS = [(s, b, fz) for s in SOLVERS for b in BASES for fz in FROZEN]
SIG_OPTIONS = "C15/Fragment.build/caller-options-dict-modified"


# ------------------------------------------------------------------------------------------ exact numbers
def fr(x):
    """exact rational of an int / float / numpy scalar / Fraction"""
    if isinstance(x, Fraction):
        return x
    if isinstance(x, int):
        return Fraction(x)
    return Fraction(float(x))


def show_q(q):
    q = fr(q)
    return str(q.numerator) if q.denominator == 1 else "%d/%d" % (q.numerator, q.denominator)


def coq_q(q):
    q = fr(q)
    return "(qc (%d)%%Z %d%%positive)" % (q.numerator, q.denominator)


def show_geom(g):
    return "[" + ",".join("%s:%s %s %s" % (a[0], show_q(a[1][0]), show_q(a[1][1]), show_q(a[1][2])) for a in g) + "]"


def coq_geom(g):
    return coq_list(["(%s, (%s, %s, %s))" % (coq_str(a[0]), coq_q(a[1][0]), coq_q(a[1][1]), coq_q(a[1][2])) for a in g])


def elem_code(el):
    return ord(el[0]) + 7 * (len(el) - 1) if el else 0


def atom_hash(a):
    return Fraction(elem_code(a[0])) + 3 * fr(a[1][0]) + 5 * fr(a[1][1]) + 7 * fr(a[1][2])


def stub_energy(sym, lv, geom):
    if sym:
        return (lv + 2) * sum((atom_hash(a) ** 2 for a in geom), Fraction(0)) + 1000 * lv
    return sum((((i + 1) * (lv + 2)) * atom_hash(a) ** 2 for i, a in enumerate(geom)), Fraction(0)) + 1000 * lv


def model_eval(ck, name, exprs, shard=300):
    """ck.coq_eval, but a failure (theory no longer builds, evaluation error) is recorded as a violation without input
    and None is returned, so that the implementation-only oracles of the remaining streams still run."""
    try:
        return ck.coq_eval(name, PREAMBLE, exprs, shard=shard, jobs=3)
    except Exception as e:       # noqa
        ck.violation("C15/model-evaluation/%s" % name, "the Coq model could not be evaluated for stream %s: %s" % (name, str(e)[-600:]),
                     {"kind": "model-eval", "stream": name, "error": str(e)[-3000:]}, found_input=False)
        return None


# ------------------------------------------------------------------------------------------ ONIOM with stubs
def make_stub_classes():
    from tangelo.problem_decomposition.oniom._helpers.helper_classes import Fragment

    class StubMol:
        def __init__(self, geometry, basis, frozen, sym):
            self.geometry = list(geometry)
            self.basis = basis
            self.frozen = frozen
            self.sym = sym

        @property
        def mf_energy(self):
            return stub_energy(self.sym, LEVELS.index(("HF", self.basis, self.frozen)), self.geometry)

    class StubSolver:
        def __init__(self, name, molecule, **options):
            self.name, self.molecule = name, molecule

        def simulate(self):
            return stub_energy(self.molecule.sym, LEVELS.index((self.name, self.molecule.basis, self.molecule.frozen)), self.molecule.geometry)

    class StubFragment(Fragment):
        """Fragment with the two external dependencies replaced: the molecule factory and the solver classes."""
        sym = False

        def __init__(self, *a, **k):
            super().__init__(*a, **k)
            self.supported_classical_solvers = {
                "HF": None,
                "CCSD": lambda m, **o: StubSolver("CCSD", m, **o),
                "FCI": lambda m, **o: StubSolver("FCI", m, **o),
                "MINDO3": lambda m, **o: StubSolver("MINDO3", m, **o)}

        def get_mol(self, basis, integral_solver=None, frozen=None):
            return StubMol(self.geometry, basis, frozen, self.sym)

        def build(self, integral_solver=None):
            return super().build(integral_solver=object())      # no PySCF integral solver is instantiated

    return StubFragment


def err_str(e):
    name = type(e).__name__
    if isinstance(e, RuntimeError):
        msg = str(e)
        for tag in ("solver_high", "higher", "negative", "once", "sites", "frozen", "solvers does not", "options"):
            if tag in msg:
                return "Err:RuntimeError:" + tag
        return "Err:external:RuntimeError"
    if name in ("ValueError", "TypeError", "KeyError", "IndexError"):
        return "Err:" + name
    return "Err:external:" + name


def sel_py(s):
    kind = s[0]
    if kind == "all":
        return None
    if kind in ("count", "list"):
        return copy.deepcopy(s[1])
    return {"float": 1.5, "floatlist": [0, 1.5], "str": "01"}[s[1]]


def sel_coq(s):
    kind = s[0]
    if kind == "all":
        return "SelAll"
    if kind == "count":
        return "(SelCount %s)" % coq_Z(s[1])
    if kind == "list":
        return "(SelList %s)" % coq_list([coq_Z(i) for i in s[1]])
    return "SelBad"


def lvl_coq(l):
    return coq_opt(None if l is None else coq_nat(l))


def run_oniom_impl(case):
    """case: {geom, frags:[{sel, low, high, links:[[s,l,[num,den],species]]}], sym}.  Returns (string, info)."""
    from tangelo.problem_decomposition.oniom.oniom_problem_decomposition import ONIOMProblemDecomposition
    from tangelo.problem_decomposition.oniom._helpers.helper_classes import Link
    SF = make_stub_classes()
    SF.sym = bool(case["sym"])
    geom = [(a[0], tuple(a[1])) for a in case["geom"]]
    user_list = list(geom)
    info = {"geometry_changed": False, "total": None, "options_changed": None}
    share = case.get("share", "none")
    made = []                      # (dict object, snapshot)

    def options(b, fz, registry):
        """the caller's options dictionary of one level; with sharing, ONE object per distinct content"""
        content = {"basis": b}
        if fz is not None:
            content["frozen_orbitals"] = fz
        key = (b, fz)
        if registry is not None and key in registry:
            return registry[key]
        d = dict(content)
        made.append((d, copy.deepcopy(content)))
        if registry is not None:
            registry[key] = d
        return d

    def options_diff():
        for d, snap in made:
            if any(k not in d or d[k] != v for k, v in snap.items()):
                return "options dictionary %s given by the caller is %s afterwards" % (snap, d)
        return None
    try:
        frags = []
        reg_all = {} if share == "all" else None
        for f in case["frags"]:
            kw = {}
            reg = reg_all if share == "all" else ({} if share == "levels" else None)
            if f["low"] is not None:
                s, b, fz = LEVELS[f["low"]]
                kw["solver_low"] = s.lower() if f.get("lower") else s
                kw["options_low"] = options(b, fz, reg)
            if f["high"] is not None:
                s, b, fz = LEVELS[f["high"]]
                kw["solver_high"] = s
                kw["options_high"] = options(b, fz, reg)
            links = [Link(l[0], l[1], Fraction(l[2][0], l[2][1]).__float__() if l[2][1] != 1 else l[2][0], l[3])
                     for l in f["links"]]
            frags.append(SF(selected_atoms=sel_py(f["sel"]), broken_links=links if (links or f.get("emptylist")) else None, **kw))
        o = ONIOMProblemDecomposition({"geometry": user_list, "fragments": frags})
        info["geometry_changed"] = (user_list != geom)
        info["n_after"] = len(user_list)
        total = o.simulate()
        info["total"] = fr(total)
        out = "Ok sys=%s frags=[%s] e=%s" % (show_geom(o.geometry), ",".join(show_geom(f.geometry) for f in frags), show_q(total))
    except Exception as e:           # noqa
        info["geometry_changed"] = (user_list != geom)
        out = err_str(e)
    info["options_changed"] = options_diff()
    return out, info


def oniom_coq_expr(case, asis):
    specs = []
    for f in case["frags"]:
        links = coq_list(["(lk %s %s %s %s)" % (coq_Z(l[0]), coq_Z(l[1]), coq_q(Fraction(l[2][0], l[2][1])), coq_str(l[3]))
                          for l in f["links"]])
        specs.append("(%s, %s, %s, %s)" % (sel_coq(f["sel"]), lvl_coq(f["low"]), lvl_coq(f["high"]), links))
    return "run_oniom_src oniom_copies %s %s %s" % (coq_bool(case["sym"]), coq_geom(case["geom"]), coq_list(specs))


def gen_geom(rng, n):
    pos = set()
    g = []
    while len(g) < n:
        p = (rng.randint(-6, 6), rng.randint(-6, 6), rng.randint(-6, 6))
        if p in pos:
            continue
        pos.add(p)
        g.append([rng.choice(["H", "H", "C", "N", "O", "Li", "He"]), list(p)])
    return g


def gen_link(rng, n):
    return [rng.randint(-n, n) if rng.random() < 0.15 else rng.randrange(n),
            rng.randint(-n, n + 1) if rng.random() < 0.15 else rng.randrange(n),
            [rng.choice([1, 2, 3, 4, 5, 6, 7, 8, 9, 12, 0, -2]), rng.choice([8, 8, 8, 4, 2, 1])],
            rng.choice(["H", "H", "F", "Cl", "C"])]


def gen_oniom(rng, mode):
    c = gen_oniom0(rng, mode)
    # how the caller builds the option dictionaries: one fresh dict per level, one object shared by the levels of a
    # fragment that ask for the same content, or one object per distinct content for the whole calculation
    c["share"] = rng.choice(["none", "levels", "all", "all"])
    if rng.random() < 0.6:
        # the whole calculation in one basis / frozen-orbital setting (the usual use: only the solvers differ), so that
        # shared dictionaries really are shared
        b, fz = rng.choice(BASES), rng.choice(FROZEN)
        remap = {}

        def same_opts(lv):
            if lv is None:
                return None
            return LEVELS.index((LEVELS[lv][0], b, fz))
        for f in c["frags"]:
            f["low"], f["high"] = same_opts(f["low"]), same_opts(f["high"])
        c["uniform_options"] = [b, fz]
    return c


def gen_oniom0(rng, mode):
    """mode: 'mixed' (any fragments), 'telescope' (system + models at identical levels), 'whole' (model == system)."""
    n = rng.randint(2, 6)
    geom = gen_geom(rng, n)
    frags = []
    sysL = rng.randrange(len(LEVELS))
    sysf = {"sel": ["all"], "low": sysL, "high": None, "links": [], "lower": rng.random() < 0.3}
    if mode == "whole":
        H = rng.choice([l for l in range(len(LEVELS)) if LEVELS[l][0] != LEVELS[sysL][0]])
        r = rng.random()
        if r < 0.3:
            sel = ["all"]
        elif r < 0.6:
            sel = ["count", n]
        else:
            idx = list(range(n))
            rng.shuffle(idx)
            if rng.random() < 0.3:
                idx = [i - n if rng.random() < 0.5 else i for i in idx]
            sel = ["list", idx]
        m = {"sel": sel, "low": sysL, "high": H, "links": []}
        frags = [sysf, m] if rng.random() < 0.5 else [m, sysf]
        return {"geom": geom, "frags": frags, "sym": sel[0] == "list", "mode": mode}
    for _ in range(rng.randint(0, 3) if mode == "mixed" else rng.randint(1, 3)):
        r = rng.random()
        if r < 0.12:
            sel = ["all"]
        elif r < 0.40:
            sel = ["count", rng.randint(-2, n + 2) if rng.random() < 0.2 else rng.randint(1, n)]
        elif r < 0.95 or mode == "telescope":
            k = rng.randint(1, n)
            idx = rng.sample(range(n), k)
            if rng.random() < 0.15:
                idx = [i - n for i in idx]
            if mode == "mixed" and rng.random() < 0.08:
                idx.append(rng.choice([n, n + 1, -n - 1]))
            if rng.random() < 0.05:
                idx.append(idx[0])
            sel = ["list", idx]
        else:
            sel = ["bad", rng.choice(["float", "floatlist", "str"])]
        lo = rng.randrange(len(LEVELS))
        if mode == "telescope" or rng.random() < 0.45:
            hi = lo
        else:
            hi = rng.choice([None, rng.randrange(len(LEVELS)), rng.randrange(len(LEVELS))])
            if rng.random() < 0.1:
                lo = None
        links = []
        # links on a selected_atoms=None fragment are the recorded aliasing defect; generate a few
        if sel[0] != "all" or rng.random() < 0.5:
            links = [gen_link(rng, n) for _ in range(rng.choice([0, 0, 1, 1, 2]))]
        frags.append({"sel": sel, "low": lo, "high": hi, "links": links, "emptylist": rng.random() < 0.2})
    if mode == "telescope" or rng.random() < 0.85:
        frags.insert(rng.randint(0, len(frags)), sysf)
    if not frags:
        frags = [sysf]
    return {"geom": geom, "frags": frags, "sym": rng.random() < 0.5, "mode": mode}


def oniom_oracle(case, out, info):
    """The identities on the implementation alone.  Returns list of (signature, description)."""
    finds = []
    alias_input = any(f["sel"][0] == "all" and f["links"] for f in case["frags"])
    if info.get("geometry_changed"):
        finds.append((SIG_ALIAS if alias_input else "C15/ONIOM/caller-geometry-modified",
                      "the geometry list given by the caller has %s atoms after ONIOMProblemDecomposition(...) "
                      "(was %d)" % (info.get("n_after"), len(case["geom"]))))
    if info.get("options_changed"):
        finds.append((SIG_OPTIONS, "%s (share=%s): a later level / fragment / run given the same dictionary no longer gets what "
                      "the caller asked for" % (info["options_changed"], case.get("share", "none"))))
    if not out.startswith("Ok"):
        return finds
    geom = [(a[0], tuple(a[1])) for a in case["geom"]]
    frs = case["frags"]
    systems = [f for f in frs if f["sel"][0] == "all" and f["high"] is None and not f["links"]]
    models = [f for f in frs if not (f["sel"][0] == "all" and f["high"] is None and not f["links"])]
    if len(systems) == 1 and all(m["low"] is not None and m["low"] == m["high"] for m in models):
        expect = stub_energy(case["sym"], systems[0]["low"], geom)
        if info["total"] != expect:
            finds.append((SIG_ALIAS if (alias_input and info.get("geometry_changed")) else "C15/ONIOM.simulate/identical-levels-do-not-telescope",
                          "model fragments at identical high/low level: total %s != low-level system energy %s"
                          % (info["total"], expect)))
    if case.get("mode") == "whole" and len(systems) == 1 and len(models) == 1:
        expect = stub_energy(case["sym"], models[0]["high"], geom)
        if info["total"] != expect:
            finds.append(("C15/ONIOM.simulate/model-equals-system-not-high-level",
                          "model = whole system (%s): total %s != high-level energy %s" % (models[0]["sel"], info["total"], expect)))
    return finds


ALIAS_WITNESS = {"geom": [["H", [0, 0, 0]], ["H", [0, 0, 4]], ["H", [0, 0, 8]]], "sym": False, "mode": "witness",
                 "frags": [{"sel": ["all"], "low": 0, "high": None, "links": []},
                           {"sel": ["all"], "low": 0, "high": 0, "links": [[0, 1, [2, 1], "H"]]}]}


def stream_oniom(ck):
    quick = ck.tier == "quick"
    out_w, info_w = run_oniom_impl(ALIAS_WITNESS)
    asis = not FACTS["oniom_copies"]
    ck.notes["oniom_variant"] = "distribute_src oniom_copies with oniom_copies = %s regenerated from the source; the witness of " \
        "C15_distribute_atoms_aliasing_refuted %s on this tree" % (FACTS["oniom_copies"], "still fails" if info_w.get("geometry_changed") else "passes")
    cases = [ALIAS_WITNESS]
    for mode, n in (("mixed", 140 if quick else 2400), ("telescope", 50 if quick else 900), ("whole", 40 if quick else 700)):
        cases += [gen_oniom(ck.rng, mode) for _ in range(n)]
    ck.stream("oniom", "ONIOM with stub molecules/solvers (exact energies E(level, geometry)), 2-6 atoms, 1-4 fragments, "
              "selections None / count / index list (negative, out of range, duplicates) / ill-typed, 0-2 links per "
              "fragment with dyadic factors; levels = solver x basis (sto-3g, 6-31g) x frozen_orbitals (None, 1), option "
              "dictionaries fresh per level or ONE object shared by the levels of a fragment / by the whole calculation "
              "(caller's dictionaries snapshotted); non-trivial = at least 2 fragments and construction succeeded")
    impl, exprs = [], []
    for c in cases:
        out, info = run_oniom_impl(c)
        impl.append((out, info))
        exprs.append(oniom_coq_expr(c, asis))
        tags = ["mode:" + c["mode"], out.split(" ")[0] if out.startswith("Err") else "Ok"] + ["sel:" + f["sel"][0] for f in c["frags"]]
        tags += ["links:%d" % sum(len(f["links"]) for f in c["frags"]), "options-dicts:" + c.get("share", "none")]
        if c.get("uniform_options"):
            tags.append("uniform-options:%s/frozen=%s" % tuple(c["uniform_options"]))
        ck.case("oniom", json.dumps(c, sort_keys=True), nontrivial=out.startswith("Ok") and len(c["frags"]) >= 2,
                sample={"case": c, "impl": out[:300]}, tags=tags)
        for sig, desc in oniom_oracle(c, out, info):
            ck.violation(sig, desc, {"kind": "oniom", "case": c})
    model = model_eval(ck, "oniom", exprs, shard=150) or []
    for c, (a, _), b in zip(cases, impl, model):
        if a != b:
            ck.violation("C15/correspondence/oniom/%s" % ("error" if a.startswith("Err") or b.startswith("Err") else "value"),
                         "model (oniom_copies=%s) and implementation differ: impl=%s model=%s" % (not asis, a[:500], b[:500]),
                         {"kind": "oniom", "case": c, "impl": a, "model": b}, found_input=False)


# ------------------------------------------------------------------------------------------ relink
def run_relink_impl(case):
    from tangelo.problem_decomposition.oniom._helpers.helper_classes import Link
    geom = [(a[0], tuple(a[1])) for a in case["geom"]]
    f = Fraction(case["factor"][0], case["factor"][1])
    try:
        li = Link(case["staying"], case["leaving"], float(f) if f.denominator != 1 else int(f), case["species"])
        caps = li.relink(geom)
        return "Ok " + show_geom(caps), caps
    except Exception as e:       # noqa
        return err_str(e), None


def relink_oracle(c, caps):
    """True iff the returned cap violates cap - staying == factor * (leaving - staying) (exact arithmetic)."""
    if caps is None:
        return False
    f = Fraction(*c["factor"])
    s = [fr(x) for x in c["geom"][c["staying"]][1]]
    lv = [fr(x) for x in c["geom"][c["leaving"]][1]]
    cap = [fr(x) for x in caps[0][1]]
    return len(caps) != 1 or caps[0][0] != c["species"] or any(cap[k] - s[k] != f * (lv[k] - s[k]) for k in range(3))


def stream_relink(ck):
    import numpy as np
    from tangelo.problem_decomposition.oniom._helpers.helper_classes import Link
    from tangelo.problem_decomposition.oniom._helpers.capping_groups import chemical_groups
    quick = ck.tier == "quick"
    ck.stream("relink", "Link.relink, single cap atom, integer geometries (2-6 atoms), indices incl. negative / out of "
              "range, factors k/8 incl. 0, negative, > 1; non-trivial = staying != leaving and factor not in {0, 1}")
    cases, impl, exprs = [], [], []
    for _ in range(120 if quick else 2000):
        n = ck.rng.randint(2, 6)
        l = gen_link(ck.rng, n)
        c = {"geom": gen_geom(ck.rng, n), "staying": l[0], "leaving": l[1], "factor": l[2], "species": l[3]}
        out, caps = run_relink_impl(c)
        cases.append(c)
        impl.append(out)
        exprs.append("run_relink (lk %s %s %s %s) %s" % (coq_Z(c["staying"]), coq_Z(c["leaving"]),
                                                         coq_q(Fraction(*c["factor"])), coq_str(c["species"]), coq_geom(c["geom"])))
        f = Fraction(*c["factor"])
        ck.case("relink", json.dumps(c, sort_keys=True),
                nontrivial=out.startswith("Ok") and c["staying"] % n != c["leaving"] % n and f not in (0, 1),
                sample={"case": c, "impl": out}, tags=[out.split(" ")[0], "factor:%s" % f])
        if relink_oracle(c, caps):
            ck.violation("C15/Link.relink/cap-not-on-bond", "cap %s is not staying + %s*(leaving - staying)" % (caps, f),
                         {"kind": "relink", "case": c})
    model = model_eval(ck, "relink", exprs) or []
    for c, a, b in zip(cases, impl, model):
        if a != b:
            ck.violation("C15/correspondence/relink", "model and implementation differ: impl=%s model=%s" % (a, b),
                         {"kind": "relink", "case": c, "impl": a, "model": b}, found_input=False)
    # capping groups: the rotation (scipy align_vectors) is outside the model; numerical oracle only
    ck.stream("relink-groups", "numerical oracle (not modelled): built-in capping groups, float geometries: first atom of the "
              "group at staying + factor*(leaving-staying) (1e-9), group rigid (1e-6), bond axis aligned (1e-6)")
    for _ in range(30 if quick else 400):
        n = ck.rng.randint(2, 5)
        geom = [("C", tuple(ck.rng.uniform(-3, 3) for _ in range(3))) for _ in range(n)]
        s, l = ck.rng.sample(range(n), 2)
        f = ck.rng.uniform(0.3, 1.2)
        grp = ck.rng.choice(sorted(chemical_groups))
        caps = Link(s, l, f, grp).relink(geom)
        ref = chemical_groups[grp]
        xyz = np.array([c[1] for c in caps])
        refxyz = np.array([a[1] for a in ref[1:]])
        target = np.array(geom[s][1]) + f * (np.array(geom[l][1]) - np.array(geom[s][1]))
        d_new = np.linalg.norm(xyz[:, None] - xyz[None, :], axis=2)
        d_ref = np.linalg.norm(refxyz[:, None] - refxyz[None, :], axis=2)
        # the ghost atom X of the group marks where `staying` sits relative to the first atom
        bad = []
        if [c[0] for c in caps] != [a[0] for a in ref[1:]]:
            bad.append("elements")
        if np.abs(xyz[0] - target).max() > 1e-9:
            bad.append("first atom off the bond point")
        if np.abs(d_new - d_ref).max() > 1e-6:
            bad.append("group not rigid")
        ck.case("relink-groups", json.dumps([grp, s, l, f, geom]), nontrivial=True, tags=[grp],
                sample={"group": grp, "factor": f, "first_atom": list(map(float, xyz[0]))})
        if bad:
            ck.violation("C15/Link.relink/capping-group/%s" % bad[0].replace(" ", "-"),
                         "capping group %s: %s" % (grp, ", ".join(bad)),
                         {"kind": "relink-group", "group": grp, "staying": s, "leaving": l, "factor": f, "geom": geom})


# ------------------------------------------------------------------------------------------ method of increments
def gen_mi(rng, tier):
    n = rng.randint(1, 5)
    labels = rng.sample(range(10), n)
    if rng.random() < 0.6:
        labels.sort()
    m = n if rng.random() < 0.6 else rng.randint(1, n)
    frac = rng.random() < 0.2

    def num():
        return [rng.randint(-200, 200), 4] if frac else [rng.randint(-50, 50), 1]
    levels = []
    for k in range(1, m + 1):
        items = [[str(t), num(), num(), 1] for t in itertools.combinations(labels, k)]
        if rng.random() < 0.5:
            rng.shuffle(items)
        levels.append([k, items])
    flags = []
    allitems = [it for _, items in levels for it in items]
    r = rng.random()
    if r < 0.12 and len(allitems) > 1:
        rng.choice(allitems)[3] = None                  # screened out by QEMIST Cloud: no problem_handle
        flags.append("screened")
    elif r < 0.16:
        rng.choice(allitems)[1] = None                  # energy_total None
        flags.append("energy-none")
    elif r < 0.21 and any(len(eval(it[0])) > 1 for it in allitems):
        it = rng.choice([it for it in allitems if len(eval(it[0])) > 1])
        it[0] = it[0].replace(", ", ",")                # a key that is not str(tuple)
        flags.append("noncanonical-key")
    elif r < 0.25 and len(levels) > 2:
        del levels[rng.randrange(len(levels) - 1)]
        flags.append("level-missing")
    elif r < 0.27:
        levels = []
        flags.append("empty")
    if rng.random() < 0.3:
        rng.shuffle(levels)
        flags.append("levels-shuffled")
    user = None
    if rng.random() < 0.3 and allitems:
        user = [[rng.choice(allitems)[0], num()] for _ in range(rng.randint(1, 2))]
        if rng.random() < 0.1:
            user.append(["(77,)", num()])
        flags.append("user-energies")
    return {"labels": labels, "order": m, "levels": levels, "e_tot": num(), "e_corr": num(), "user": user, "flags": flags}


def q_of(p):
    return None if p is None else Fraction(p[0], p[1])


def py_num(p):
    if p is None:
        return None
    q = Fraction(p[0], p[1])
    return int(q) if q.denominator == 1 else q


def run_mi_impl(case):
    """Returns (string, frag_info as read by the helper, e_mf)."""
    from tangelo.problem_decomposition.incremental.incremental_helper import MethodOfIncrementsHelper
    sub = {}
    for k, items in case["levels"]:
        sub[str(k)] = {key: {"energy_total": py_num(e), "energy_correlation": 0, "correction": py_num(c), "epsilon": 0,
                             "problem_handle": h, "frozen_orbitals_truncated": [], "complete_orbital_space": []}
                       for key, e, c, h in items}
    full = {"energy_total": py_num(case["e_tot"]), "energy_correlation": py_num(case["e_corr"]), "subproblem_data": sub}
    try:
        h = MethodOfIncrementsHelper(full_result=full)
    except Exception as e:       # noqa
        return err_str(e), None, None
    fi = copy.deepcopy(h.frag_info)
    emf = h.e_mf
    user = None if case["user"] is None else {k: py_num(v) for k, v in case["user"]}
    try:
        out = "Ok " + show_q(h.mi_summation(user_provided_energies=user))
    except Exception as e:       # noqa
        out = err_str(e)
    return out, fi, emf


def mi_coq_expr(fi, emf, user):
    lv = []
    for n_body, d in fi.items():
        frs = []
        for key, v in d.items():
            t = eval(key)
            frs.append("(qfrag %s %s %s %s)" % (coq_str(key), coq_list([coq_nat(i) for i in t]),
                                               coq_opt(None if v["energy_total"] is None else coq_q(v["energy_total"])),
                                               coq_q(v["correction"])))
        lv.append("(%s, %s)" % (coq_nat(n_body), coq_list(frs)))
    u = "None" if user is None else "(Some %s)" % coq_list(["(%s, %s)" % (coq_str(k), coq_q(Fraction(v[0], v[1]))) for k, v in user])
    return "run_mi %s %s %s" % (coq_list(lv), coq_q(emf), u)


def mi_expected_total(c):
    """Oracle: for a complete table carried to full order, the energy of the complete fragment; None otherwise."""
    if [f for f in c["flags"] if f not in ("levels-shuffled", "user-energies")] or c["order"] != len(c["labels"]) \
            or (c["user"] and any(k == "(77,)" for k, _ in c["user"])):
        return None
    full_key = str(tuple(c["labels"]))
    expect = None
    for _, items in c["levels"]:
        for key, e, corr, _h in items:
            if key == full_key:
                expect = q_of(e)
                for k, v in (c["user"] or []):
                    if k == full_key:
                        expect = q_of(v) + q_of(corr)
    return expect


def stream_mi(ck):
    quick = ck.tier == "quick"
    ck.stream("mi", "MethodOfIncrementsHelper.mi_summation on random tables: 1-5 centres with arbitrary labels, truncation "
              "order <= n, integer or quarter-integer energies, shuffled dict orders, screened fragments, missing levels, "
              "energy None, keys not of the form str(tuple), user_provided_energies; non-trivial = order >= 3 or >= 2 fragments, result Ok")
    cases, impl, exprs = [], [], []
    for _ in range(150 if quick else 2500):
        c = gen_mi(ck.rng, ck.tier)
        out, fi, emf = run_mi_impl(c)
        nfr = sum(len(it) for _, it in c["levels"])
        ck.case("mi", json.dumps(c, sort_keys=True), nontrivial=out.startswith("Ok") and (c["order"] >= 3 or nfr >= 2),
                sample={"case": c, "impl": out}, tags=[out.split(" ")[0], "n=%d" % len(c["labels"]), "order=%d" % c["order"]] + c["flags"])
        expect = mi_expected_total(c)
        if expect is not None and out != "Ok " + show_q(expect):
            ck.violation("C15/mi_summation/full-order-not-total",
                         "complete table over %s to order %d: mi_summation gives %s, E(full) = %s" % (c["labels"], c["order"], out, expect),
                         {"kind": "mi", "case": c})
        if fi is None:
            continue
        cases.append(c)
        impl.append(out)
        exprs.append(mi_coq_expr(fi, emf, c["user"]))
    model = model_eval(ck, "mi", exprs, shard=100) or []
    for c, a, b in zip(cases, impl, model):
        if a != b:
            ck.violation("C15/correspondence/mi_summation", "model and implementation differ: impl=%s model=%s" % (a, b),
                         {"kind": "mi", "case": c, "impl": a, "model": b}, found_input=False)


# ------------------------------------------------------------------------------------------ DMET bookkeeping
_MOLS = {}


def h_chain(n):
    if n not in _MOLS:
        from tangelo import SecondQuantizedMolecule
        # zig-zag chain without symmetry: distinct x, y, z for every atom, distinct bond lengths
        geom = [("H", (0.31 * (-1) ** i * (1 + 0.13 * i), 0.045 * i * i, 1.05 * i + 0.07 * i * i)) for i in range(n)]
        _MOLS[n] = (SecondQuantizedMolecule(geom, 0, 0, basis="sto-3g"), geom)
    return _MOLS[n]


def run_dmet_impl(case):
    import numpy as np
    from tangelo.problem_decomposition.dmet.dmet_problem_decomposition import DMETProblemDecomposition
    mol, geom = h_chain(case["natm"])
    opt = {"molecule": mol, "fragment_atoms": copy.deepcopy(case["fa"])}
    if case["solvers"] is not None:
        opt["fragment_solvers"] = case["solvers"]
    if case["options"] is not None:
        opt["solvers_options"] = copy.deepcopy(case["options"])
    if case["frozen"]:
        opt["fragment_frozen_orbitals"] = [None] * case["frozen"]
    try:
        with contextlib.redirect_stdout(io.StringIO()), contextlib.redirect_stderr(io.StringIO()):   # PySCF "WARN: Atoms ... same coordinates"
            d = DMETProblemDecomposition(opt)
    except Exception as e:       # noqa
        return err_str(e), None
    ref = mol_to_bohr(geom)
    rebuilt = [(str(a[0]), tuple(float(x) for x in a[1])) for a in d.molecule._atom]
    order = []
    for a in rebuilt:
        order.append(int(np.argmin([sum((a[1][k] - r[1][k]) ** 2 for k in range(3)) for r in ref])))
    out = "Ok order=[%s] counts=[%s] ns=%d no=%d nf=%d" % (",".join(map(str, order)), ",".join(map(str, d.fragment_atoms)),
                                                           len(d.fragment_solvers), len(d.solvers_options), len(d.fragment_frozen_orbitals))
    return out, (order, list(d.fragment_atoms), rebuilt)


def mol_to_bohr(geom):
    b = 1.8897261245650618
    return [(a[0], tuple(x * b for x in a[1])) for a in geom]


def dmet_coq_expr(case, asis):
    fa = case["fa"]
    if isinstance(fa, list) and all(isinstance(x, list) for x in fa):
        t = "(FaNested %s)" % coq_list([coq_list([coq_Z(i) for i in f]) for f in fa])
    else:
        t = "(FaCounts %s)" % coq_list([coq_Z(i) for i in fa])
    sv = "SolversStr" if not isinstance(case["solvers"], list) else "(SolversList %s)" % coq_nat(len(case["solvers"]))
    o = case["options"]
    op = "OptionsEmpty" if not o else ("OptionsDict" if isinstance(o, dict) else "(OptionsList %s)" % coq_nat(len(o)))
    return "run_dmet_src dmet_checks %s %s %s %s %s" % (coq_nat(case["natm"]), t, coq_nat(case["frozen"]), sv, op)


def gen_dmet(rng, nested):
    natm = rng.choice([4, 4, 6])
    if nested:
        perm = list(range(natm))
        rng.shuffle(perm)
        cuts = sorted(rng.sample(range(1, natm), rng.randint(0, min(3, natm - 1))))
        fa = [perm[a:b] for a, b in zip([0] + cuts, cuts + [natm])]
        r = rng.random()
        kind = "permutation"
        if r < 0.10:
            fa[-1] = fa[-1] + [natm + rng.randint(0, 1)]
            kind = "index-too-high"
        elif r < 0.20:
            fa[0] = fa[0] + [fa[-1][0]]
            kind = "repeated-index"
        elif r < 0.32:
            drop = 2 if natm - 2 >= 2 else 0
            flat = [i for f in fa for i in f][:natm - drop] if drop else None
            if flat:
                fa = [flat[:len(flat) // 2], flat[len(flat) // 2:]]
                kind = "incomplete-even"
        elif r < 0.37:
            fa = [f for f in fa]
            fa[-1] = fa[-1][:-1] if len(fa[-1]) > 1 else fa[-1]
            kind = "incomplete-odd" if sum(map(len, fa)) != natm else kind
        elif r < 0.47:
            fa = [[i - natm for i in f] for f in fa]
            kind = "negative-permutation"
        elif r < 0.55:
            j = rng.randrange(len(fa))
            fa[j] = [fa[j][0] - natm] + fa[j][1:]
            other = [i for f in fa for i in f if i >= 0 and i != fa[j][0] + natm]
            if other:
                # replace another index by the positive twin of the negative one: the same atom twice
                tgt = rng.choice(other)
                fa = [[(fa[j][0] + natm) if i == tgt else i for i in f] for f in fa]
                kind = "negative-duplicate"
        elif r < 0.58:
            fa = []
            kind = "empty"
    else:
        k = rng.randint(1, 4)
        cuts = sorted(rng.sample(range(1, natm), min(k - 1, natm - 1)))
        fa = [b - a for a, b in zip([0] + cuts, cuts + [natm])]
        kind = "counts"
        if rng.random() < 0.25:
            fa[rng.randrange(len(fa))] += rng.choice([-1, 1, 2])
            kind = "counts-wrong-sum"
    nf = len(fa)
    solvers = rng.choice([None, "fci", "ccsd", ["fci"] * nf, ["ccsd", "fci"] * 3])
    if isinstance(solvers, list) and len(solvers) > nf and rng.random() < 0.6:
        solvers = solvers[:nf]
    ns = nf if not isinstance(solvers, list) else len(solvers)
    options = rng.choice([None, None, {"dummy": 1}, [{}] * ns, [{}] * (ns + 1), []])
    frozen = rng.choice([0, 0, 0, nf, nf + 1])
    return {"natm": natm, "fa": fa, "solvers": solvers, "options": options, "frozen": frozen, "kind": kind}


def perm_tags(c):
    """cycle structure of a nested fragment_atoms that is a permutation (a reordering by the inverse permutation
    is invisible on involutions; cycles of length >= 3 expose it)"""
    fa = c["fa"]
    if not (isinstance(fa, list) and fa and all(isinstance(x, list) for x in fa)):
        return []
    flat = [i % c["natm"] for f in fa for i in f if isinstance(i, int)]
    if sorted(flat) != list(range(c["natm"])):
        return []
    longest, seen = 1, set()
    for st in range(len(flat)):
        n, j = 0, st
        while j not in seen:
            seen.add(j)
            j = flat[j]
            n += 1
        longest = max(longest, n)
    return ["perm:longest-cycle=%d" % longest]


def dmet_cycle_cases():
    base = {"solvers": "fci", "options": None, "frozen": 0, "kind": "permutation-with-long-cycle"}
    fas = [(6, [[2, 0], [1, 3], [4, 5]]), (6, [[1, 2], [3, 4], [5, 0]]), (6, [[2, 0, 1], [4, 5, 3]]), (6, [[1, 2, 3, 4, 5, 0]]),
           (6, [[3], [0, 5], [1, 4, 2]]), (6, [[-4, 0], [1, -3], [4, 5]]), (4, [[1, 2], [3, 0]]), (4, [[2], [0], [1], [3]]),
           (4, [[1, 3, 0], [2]]), (4, [[-3, -2], [-1, 0]])]
    return [dict(base, natm=n, fa=fa) for n, fa in fas]


DMET_WITNESS = {"natm": 6, "fa": [[0, 1], [2, 3]], "solvers": "fci", "options": None, "frozen": 0, "kind": "witness-incomplete"}


def dmet_oracle(case, out, obs):
    fa = case["fa"]
    nested = isinstance(fa, list) and all(isinstance(x, list) for x in fa) and fa
    natm = case["natm"]
    finds = []
    flat = [i for f in fa for i in f] if nested else None
    if obs is not None:
        order, counts, rebuilt = obs
        # implementation-only: the k-th fragment of the rebuilt molecule must consist of exactly the atoms the user
        # requested for it (element and coordinates of geometry[id], id by id), fragment by fragment
        if nested and all(isinstance(i, int) and -natm <= i < natm for i in flat) and all(isinstance(n, int) and n >= 0 for n in counts):
            ref = mol_to_bohr(h_chain(natm)[1])
            pos = 0
            for k, (ids, n) in enumerate(zip(fa, counts)):
                got = rebuilt[pos:pos + n]
                want = [ref[i] for i in ids]
                pos += n
                same = len(got) == len(want) and all(g[0] == w[0] and max(abs(g[1][j] - w[1][j]) for j in range(3)) < 1e-8
                                                     for g, w in zip(got, want))
                if not same:
                    finds.append((SIG_DMET_WRONG_ATOMS,
                                  "fragment_atoms=%s on %d atoms: fragment %d was requested as atoms %s but the rebuilt molecule "
                                  "holds atoms %s there (whole new order %s)" % (fa, natm, k, [i % natm for i in ids],
                                                                                 order[pos - n:pos], order)))
                    break
        if sorted(order) != list(range(natm)) or sum(counts) != natm:
            dup = len(set(order)) != len(order)
            finds.append((SIG_DMET_NEGDUP if dup else SIG_DMET_INCOMPLETE,
                          "DMETProblemDecomposition accepted fragment_atoms=%s for a %d-atom molecule: atoms of the new "
                          "molecule %s, fragment_atoms %s (not a relabelling of the molecule)" % (fa, natm, order, counts)))
    elif out.startswith("Err:external") and nested:
        mod = [i % natm for i in flat] if all(-natm <= i < natm for i in flat) else None
        if mod is not None and len(set(mod)) != len(mod):
            finds.append((SIG_DMET_NEGDUP, "fragment_atoms=%s passes the index checks, the same atom is used twice and PySCF "
                          "fails with %s" % (fa, out)))
        elif mod is not None and len(mod) != natm:
            finds.append((SIG_DMET_INCOMPLETE, "fragment_atoms=%s (not all atoms listed) passes the checks; a molecule with %d of "
                          "%d atoms is built and PySCF fails with %s" % (fa, len(mod), natm, out)))
        else:
            finds.append(("C15/DMET.__init__/unexpected-external-error", "fragment_atoms=%s: %s" % (fa, out)))
    return finds


def stream_dmet(ck):
    quick = ck.tier == "quick"
    out_w, obs_w = run_dmet_impl(DMET_WITNESS)
    asis = "source chain %s" % FACTS["dmet_checks"]
    ck.notes["dmet_variant"] = "dmet_book_src dmet_checks with dmet_checks = %s regenerated from the source; the witness of " \
        "C15_dmet_reorder_asis_refuted is %s by this tree" % (FACTS["dmet_checks"], "still accepted" if (obs_w is not None or out_w.startswith("Err:external")) else "rejected")
    cases = [DMET_WITNESS] + dmet_cycle_cases() + [gen_dmet(ck.rng, True) for _ in range(30 if quick else 300)] \
        + [gen_dmet(ck.rng, False) for _ in range(60 if quick else 600)]
    ck.stream("dmet-bookkeeping", "DMETProblemDecomposition.__init__ on H4/H6 (sto-3g): fragment_atoms as counts or nested index "
              "lists (permutations incl. fixed ones with 3-, 4- and 6-cycles, negative, repeated, too high, incomplete, empty) on a zig-zag chain "
              "with distinct coordinates per atom; implementation-only oracle: fragment k of the rebuilt molecule holds exactly geometry[id] "
              "for the requested ids; solver / options / frozen list lengths; "
              "non-trivial = nested list that re-orders the atoms, or >= 2 fragments, accepted")
    impl, exprs = [], []
    for c in cases:
        out, obs = run_dmet_impl(c)
        impl.append(out)
        exprs.append(dmet_coq_expr(c, asis))
        ck.case("dmet-bookkeeping", json.dumps(c, sort_keys=True),
                nontrivial=obs is not None and (len(c["fa"]) >= 2 or obs[0] != sorted(obs[0])),
                sample={"case": c, "impl": out}, tags=[c["kind"], out.split(" ")[0] if out.startswith("Err") else "Ok"] + perm_tags(c))
        for sig, desc in dmet_oracle(c, out, obs):
            ck.violation(sig, desc, {"kind": "dmet", "case": c})
    model = model_eval(ck, "dmet", exprs) or []
    for c, a, b in zip(cases, impl, model):
        if a == b:
            continue
        if a.startswith("Err:external") and b not in ("Err:RuntimeError:higher", "Err:RuntimeError:negative", "Err:RuntimeError:once", "Err:RuntimeError:sites", "Err:ValueError", "Err:IndexError"):
            # past Tangelo's index checks (as the model says), then PySCF refused the rebuilt molecule before the
            # remaining length checks were reached: judged by the oracle
            continue
        ck.violation("C15/correspondence/dmet-bookkeeping", "model (%s) and implementation differ on %s: impl=%s model=%s"
                     % (asis, c["fa"], a, b), {"kind": "dmet", "case": c, "impl": a, "model": b}, found_input=False)


# ------------------------------------------------------------------------------------------ support runs (not proof)
def ring(n, R=1.3):
    return [("H", (R * math.cos(2 * math.pi * k / n + 0.1 * k), R * math.sin(2 * math.pi * k / n + 0.1 * k), 0.05 * k)) for k in range(n)]


def run_support_dmet(case):
    """Real DMET run.  Returns dict(e, efci, nerr, mu) or dict(error=...)."""
    from tangelo import SecondQuantizedMolecule
    from tangelo.algorithms import FCISolver
    from tangelo.problem_decomposition.dmet.dmet_problem_decomposition import DMETProblemDecomposition, Localization
    geom = [(a[0], tuple(a[1])) for a in case["geom"]]
    mol = SecondQuantizedMolecule(geom, 0, 0, basis=case.get("basis", "sto-3g"))
    efci = FCISolver(mol).simulate()
    d = DMETProblemDecomposition({"molecule": mol, "fragment_atoms": copy.deepcopy(case["fa"]), "fragment_solvers": "fci",
                                  "electron_localization": getattr(Localization, case["loc"])})
    d.build()
    # premise of the clause: fragment + bath of every fragment is the whole orbital space.  The bath is built from
    # the mean-field 1-RDM and is smaller (even empty) when the mean-field state factorises over the fragments.
    dims = [int(sf[4].shape[0]) for sf in d._build_scf_fragments(0.0)]
    full_span = all(n == d.molecule.nao_nr() for n in dims)
    try:
        e = d.simulate()
    except RuntimeError as ex:
        c0, c1 = d._oneshot_loop(0.0), d._oneshot_loop(0.1)
        return {"error": str(ex)[:200], "cost0": float(abs(c0)), "cost1": float(abs(c1)), "efci": efci,
                "e_at_0": float(d.dmet_energy), "full_span": full_span, "embedding_dims": dims}
    nerr = d._oneshot_loop(d.chemical_potential)
    return {"e": float(e), "efci": float(efci), "nerr": float(abs(nerr)), "mu": float(d.chemical_potential),
            "full_span": full_span, "embedding_dims": dims}


def support_dmet(ck):
    quick = ck.tier == "quick"
    ck.stream("support-dmet", "SUPPORT (numerical, not proof): real DMET runs, FCI fragment solver, fragmentations whose "
              "fragment+bath spaces span the whole orbital space (two halves / one fragment of H4, H6 rings, sto-3g; the premise "
              "is verified on each run from the embedding dimensions, cases whose bath is truncated because the mean-field "
              "state factorises are tagged and only checked for the electron sum): |E_DMET - E_FCI| < 1e-7, |sum n_frag - N| < 1e-6; "
              "relabelled fragmentations therefore give the same energy")
    cases = []
    for loc in ("meta_lowdin", "nao"):
        cases += [{"geom": ring(4), "fa": fa, "loc": loc} for fa in ([4], [2, 2], [[0, 1], [2, 3]], [[2, 3], [0, 1]], [[3, 1], [0, 2]])]
    # one fragment holding every atom: fragment + bath is the whole space, the electron count cannot depend on mu
    cases += [{"geom": ring(6), "fa": [6], "loc": "nao"}, {"geom": zigzag(4), "fa": [4], "loc": "nao"},
              {"geom": zigzag(4), "fa": [[2, 0, 3, 1]], "loc": "meta_lowdin"}]
    if not quick:
        for loc in ("meta_lowdin", "nao"):
            cases += [{"geom": ring(6), "fa": fa, "loc": loc} for fa in ([6], [3, 3], [[0, 1, 2], [3, 4, 5]], [[5, 3, 4], [1, 0, 2]])]
            for _ in range(6):
                n = ck.rng.choice([4, 6])
                p = list(range(n))
                ck.rng.shuffle(p)
                cases.append({"geom": ring(n, ck.rng.uniform(1.0, 1.8)), "fa": [p[:n // 2], p[n // 2:]], "loc": loc})
    for c in cases:
        r = run_support_dmet(c)
        ck.case("support-dmet", json.dumps(c), nontrivial="e" in r and len(c["fa"]) >= 2 and r["full_span"], sample={"case": c, "result": r},
                tags=[c["loc"], "natm=%d" % len(c["geom"]), "ok" if "e" in r else "raised",
                      "premise:full-span" if r["full_span"] else "premise:bath-truncated(energy clause not applicable)"])
        rep = {"kind": "support-dmet", "case": c, "result": r}
        if "error" in r:
            if r["cost0"] < 1e-9 and r["cost1"] < 1e-9:
                ck.violation(SIG_NEWTON, "fragment_atoms=%s (%s): simulate() raises '%s' although the electron-count mismatch is "
                             "%.1e for every chemical potential (embedding dimensions %s)"
                             % (c["fa"], c["loc"], r["error"][:80], r["cost0"], r["embedding_dims"]), rep)
            else:
                ck.violation("C15/DMET.simulate/optimizer-fails", "fragment_atoms=%s (%s): %s" % (c["fa"], c["loc"], r["error"]), rep)
            continue
        if r["full_span"] and abs(r["e"] - r["efci"]) > 1e-7:
            ck.violation("C15/DMET.simulate/full-span-energy-differs-from-fci",
                         "fragment_atoms=%s (%s): E_DMET - E_FCI = %.3e" % (c["fa"], c["loc"], r["e"] - r["efci"]), rep)
        if r["nerr"] > 1e-6:
            ck.violation("C15/DMET.simulate/electron-sum", "fragment_atoms=%s (%s): |sum n_frag - N| = %.3e" % (c["fa"], c["loc"], r["nerr"]), rep)


def run_support_dmet_nsum(case):
    """Real DMET run from a given initial_chemical_potential with the library's default optimizer.  After simulate() the
    electron-number mismatch is re-evaluated at the returned chemical potential, together with its slope in mu."""
    from tangelo import SecondQuantizedMolecule
    from tangelo.problem_decomposition.dmet.dmet_problem_decomposition import DMETProblemDecomposition, Localization
    geom = [(a[0], tuple(a[1])) for a in case["geom"]]
    mol = SecondQuantizedMolecule(geom, 0, 0, basis="sto-3g")
    d = DMETProblemDecomposition({"molecule": mol, "fragment_atoms": copy.deepcopy(case["fa"]), "fragment_solvers": "fci",
                                  "electron_localization": getattr(Localization, case["loc"]),
                                  "initial_chemical_potential": case["mu0"]})
    d.build()
    try:
        e = float(d.simulate())
    except Exception as ex:           # noqa -- any explicit failure is a refusal, not a silent wrong electron count (far-off
        # chemical potentials can also make a fragment SCF fail inside PySCF: DIIS on a singular matrix)
        return {"refused": "%s: %s" % (type(ex).__name__, str(ex)[:160])}
    mu = float(d.chemical_potential)
    res = float(d._oneshot_loop(mu))
    h = 1e-3
    slope = (float(d._oneshot_loop(mu + h)) - res) / h
    return {"e": e, "mu": mu, "residual": res, "slope": slope, "n_iter": int(d.n_iter)}


NEWTON_TOL = 1e-5        # tol= of scipy.optimize.newton in DMETProblemDecomposition._default_optimizer (a step size in mu)


def support_dmet_nsum(ck):
    quick = ck.tier == "quick"
    ck.stream("support-dmet-electron-sum", "SUPPORT (numerical, not proof): real DMET runs (FCI fragments, sto-3g) on non-symmetric "
              "H6 / H4 chains with INEQUIVALENT fragments and initial_chemical_potential far from the root (0.1 .. 2.0, negative too): "
              "after simulate() |sum n_frag - N| re-evaluated at the returned chemical potential must be below max(4*tol*|d(sum n)/d mu|, tol) + 1e-7 "
              "(tol = 1e-5 read from the source: the optimizer's step tolerance and its acceptance threshold at the start value); an explicit RuntimeError is accepted (tagged refused)")
    h6 = [["H", [0., 0., 1.0 * i + 0.1 * i * i]] for i in range(6)]
    cases = [{"geom": h6, "fa": [2, 2, 2], "loc": "meta_lowdin", "mu0": 0.5}, {"geom": h6, "fa": [2, 2, 2], "loc": "meta_lowdin", "mu0": 1.0},
             {"geom": h6, "fa": [2, 2, 2], "loc": "nao", "mu0": 1.0}, {"geom": zigzag(4), "fa": [1, 3], "loc": "meta_lowdin", "mu0": 0.7}]
    if not quick:
        for fa in ([2, 2, 2], [1, 2, 3], [1, 1, 1, 1, 1, 1], [2, 4], [[2, 0], [1, 3], [4, 5]]):
            for mu0 in (0.0, 0.1, -0.5, 1.0):
                cases.append({"geom": zigzag(6), "fa": fa, "loc": "meta_lowdin", "mu0": mu0})
        cases.append({"geom": zigzag(6), "fa": [2, 2, 2], "loc": "meta_lowdin", "mu0": 2.0})
        for _ in range(8):
            n = ck.rng.choice([4, 6])
            cuts = sorted(ck.rng.sample(range(1, n), ck.rng.randint(1, 2)))
            fa = [b - a for a, b in zip([0] + cuts, cuts + [n])]
            cases.append({"geom": zigzag(n, ck.rng.uniform(0.9, 1.3)), "fa": fa, "loc": ck.rng.choice(["meta_lowdin", "nao"]),
                          "mu0": round(ck.rng.uniform(-1.5, 1.5), 3)})
    for c in cases:
        r = run_support_dmet_nsum(c)
        ck.case("support-dmet-electron-sum", json.dumps(c), nontrivial="e" in r and abs(c["mu0"]) >= 0.1,
                sample={"case": c, "result": r}, tags=[c["loc"], "natm=%d" % len(c["geom"]),
                                                       ("refused:" + r["refused"].split(":")[0]) if "refused" in r else "ok",
                                                       "mu0:far" if abs(c["mu0"]) >= 0.4 else "mu0:near"])
        if "refused" in r:
            ck.notes.setdefault("dmet_electron_sum_refusals", []).append({"fa": c["fa"], "loc": c["loc"], "mu0": c["mu0"], "error": r["refused"]})
            continue
        tol = FACTS.get("optimizer_tol", NEWTON_TOL)
        # step tolerance of the root search times the slope; with the start-value guard of the source an electron-number
        # mismatch below tol is accepted as it is
        bound = max(4 * tol * abs(r["slope"]), tol if FACTS.get("optimizer_checks_initial") else 0.0) + 1e-7
        if abs(r["residual"]) > bound:
            ck.violation("C15/DMET.simulate/electron-sum-not-reached-silently",
                         "fragment_atoms=%s (%s), initial_chemical_potential=%s: simulate() returned E=%.8f at mu=%.6f without any "
                         "error, but sum n_frag - N = %.3e there (bound %.1e from the optimizer's tolerance; %d cost evaluations)"
                         % (c["fa"], c["loc"], c["mu0"], r["e"], r["mu"], r["residual"], bound, r["n_iter"]),
                         {"kind": "support-dmet-nsum", "case": c, "result": r})


def zigzag(n, scale=1.0):
    return [["H", [0.31 * (-1) ** i * (1 + 0.13 * i) * scale, 0.045 * i * i, (1.05 * i + 0.07 * i * i) * scale]] for i in range(n)]


def run_support_dmet_relabel(case):
    """DMET with nested ids vs DMET on the molecule relabelled by hand with plain counts.  Returns dict."""
    from tangelo import SecondQuantizedMolecule
    from tangelo.problem_decomposition.dmet.dmet_problem_decomposition import DMETProblemDecomposition, Localization
    geom = [(a[0], tuple(a[1])) for a in case["geom"]]
    flat = [i for f in case["fa"] for i in f]
    loc = getattr(Localization, case["loc"])

    def one(g, fa):
        mol = SecondQuantizedMolecule(g, 0, 0, basis="sto-3g")
        with contextlib.redirect_stdout(io.StringIO()), contextlib.redirect_stderr(io.StringIO()):
            d = DMETProblemDecomposition({"molecule": mol, "fragment_atoms": copy.deepcopy(fa), "fragment_solvers": "fci",
                                          "electron_localization": loc})
        d.build()
        try:
            return {"e": float(d.simulate()), "mu": float(d.chemical_potential)}
        except RuntimeError as ex:
            return {"error": str(ex)[:200], "cost0": float(abs(d._oneshot_loop(0.0))), "cost1": float(abs(d._oneshot_loop(0.1)))}
    return {"nested": one(geom, case["fa"]), "hand": one([geom[i] for i in flat], [len(f) for f in case["fa"]])}


def support_dmet_relabel(ck):
    if ck.tier == "quick":
        return
    ck.stream("support-dmet-relabel", "SUPPORT (numerical, not proof): H6 / H4 zig-zag chains without symmetry, nested fragment_atoms whose "
              "flattened ids contain cycles of length >= 3: E_DMET(nested ids) = E_DMET(molecule relabelled by hand, fragment_atoms as "
              "counts) within 1e-6 (the two runs build the same PySCF molecule)")
    cases = [{"geom": zigzag(n), "fa": fa, "loc": loc}
             for n, fa in ((6, [[2, 0], [1, 3], [4, 5]]), (6, [[1, 2], [3, 4], [5, 0]]), (6, [[2, 0, 1], [4, 5, 3]]),
                           (6, [[3, 4], [0, 5], [1, 2]]), (4, [[1, 2], [3, 0]]), (4, [[1], [2], [3, 0]]))
             for loc in ("meta_lowdin",)]
    cases.append({"geom": zigzag(6), "fa": [[2, 0], [1, 3], [4, 5]], "loc": "nao"})
    for _ in range(4):
        p = list(range(6))
        ck.rng.shuffle(p)
        cases.append({"geom": zigzag(6, ck.rng.uniform(0.9, 1.2)), "fa": [p[:2], p[2:4], p[4:]], "loc": "meta_lowdin"})
    for c in cases:
        r = run_support_dmet_relabel(c)
        ok = "e" in r["nested"] and "e" in r["hand"]
        ck.case("support-dmet-relabel", json.dumps(c), nontrivial=ok, sample={"case": c, "result": r},
                tags=[c["loc"], "natm=%d" % len(c["geom"]), "ok" if ok else "raised"] + perm_tags({"fa": c["fa"], "natm": len(c["geom"])}))
        rep = {"kind": "support-dmet-relabel", "case": c, "result": r}
        if not ok:
            if ("error" in r["nested"]) != ("error" in r["hand"]):
                ck.violation("C15/DMET.simulate/nested-ids-vs-hand-relabelled-one-raises", "fragment_atoms=%s: %s" % (c["fa"], r), rep)
            else:
                bad = [x for x in (r["nested"], r["hand"]) if not (x["cost0"] < 1e-9 and x["cost1"] < 1e-9)]
                ck.violation("C15/DMET.simulate/optimizer-fails" if bad else SIG_NEWTON, "fragment_atoms=%s: %s" % (c["fa"], r), rep)
            continue
        if abs(r["nested"]["e"] - r["hand"]["e"]) > 1e-6:
            ck.violation("C15/DMET.simulate/nested-ids-energy-differs-from-hand-relabelled-molecule",
                         "fragment_atoms=%s (%s): E(nested ids) = %.10f, E(hand-relabelled molecule, counts %s) = %.10f"
                         % (c["fa"], c["loc"], r["nested"]["e"], [len(f) for f in c["fa"]], r["hand"]["e"]), rep)


def run_support_oniom(case):
    """ONIOM with PySCF-backed solvers.  The expected value is computed from an independently built molecule of the whole
    system (basis of the case) and a directly constructed solver.  Option dictionaries: case['share'] in none / levels / all
    (ONE dict object per distinct content for the levels of a fragment / for the whole calculation).
    Returns (e_oniom, e_expected, options_changed)."""
    from tangelo import SecondQuantizedMolecule
    from tangelo.algorithms import CCSDSolver, FCISolver
    from tangelo.problem_decomposition.oniom.oniom_problem_decomposition import ONIOMProblemDecomposition
    from tangelo.problem_decomposition.oniom._helpers.helper_classes import Fragment, Link
    geom = [(a[0], tuple(a[1])) for a in case["geom"]]
    basis = case.get("basis", "sto-3g")
    share = case.get("share", "none")
    made = []

    def options(b, fz, registry):
        content = {"basis": b}
        if fz is not None:
            content["frozen_orbitals"] = fz
        if registry is not None and (b, repr(fz)) in registry:
            return registry[(b, repr(fz))]
        d = dict(content)
        made.append((d, copy.deepcopy(content)))
        if registry is not None:
            registry[(b, repr(fz))] = d
        return d
    reg_all = {} if share == "all" else None
    frags = [Fragment(solver_low=case["low"], options_low=options(basis, None, reg_all))]
    for m in case["models"]:
        reg = reg_all if share == "all" else ({} if share == "levels" else None)
        links = [Link(*l) for l in m.get("links", [])]
        frags.append(Fragment(solver_low=m["low"], options_low=options(m.get("basis", basis), m.get("frozen"), reg),
                              solver_high=m["high"], options_high=options(m.get("basis", basis), m.get("frozen"), reg),
                              selected_atoms=copy.deepcopy(m["sel"]), broken_links=links or None))
    if case.get("model_first"):
        frags = frags[1:] + frags[:1]
    e = ONIOMProblemDecomposition({"geometry": list(geom), "fragments": frags}).simulate()
    changed = None
    for d, snap in made:
        if any(k not in d or d[k] != v for k, v in snap.items()):
            changed = "options dictionary %s given by the caller is %s afterwards" % (snap, d)
    # independent pieces
    mol = SecondQuantizedMolecule(geom, 0, 0, basis=basis, frozen_orbitals=case.get("expect_frozen"))
    ref = {"HF": lambda: mol.mf_energy, "CCSD": lambda: CCSDSolver(mol).simulate(), "FCI": lambda: FCISolver(mol).simulate()}
    return float(e), float(ref[case["expect"]]()), changed


def support_oniom(ck):
    ck.stream("support-oniom", "SUPPORT (numerical, not proof): ONIOM with PySCF-backed solvers (HF / CCSD / FCI; sto-3g and 6-31g; "
              "frozen_orbitals) on non-symmetric H4 and LiH+H2, option dictionaries fresh per level or ONE object shared by several "
              "levels / fragments: identical levels -> E_low(system); model = system (None, count, index list, permuted list) -> "
              "E_high(system); expected values from an independently built molecule and solver; 1e-7; caller's dictionaries unchanged")
    g = [["H", [0., 0., 0.]], ["H", [0., 0.1, 0.8]], ["H", [0.1, 0., 2.0]], ["H", [0., 0., 2.75]]]
    lih_h2 = [["Li", [0., 0., 0.]], ["H", [0., 0.05, 1.6]], ["H", [0., 2.5, 0.3]], ["H", [0.1, 2.5, 1.05]]]
    cases = [{"geom": g, "low": "HF", "expect": "HF", "models": [{"low": "CCSD", "high": "CCSD", "sel": [0, 1]}]},
             {"geom": g, "low": "HF", "expect": "CCSD", "models": [{"low": "HF", "high": "CCSD", "sel": [2, 0, 3, 1]}]},
             # one dictionary object with a non-default basis shared by the two levels of the model / by every level
             {"geom": g, "basis": "6-31g", "share": "levels", "low": "HF", "expect": "HF", "models": [{"low": "HF", "high": "HF", "sel": [0, 1]}]},
             {"geom": g, "basis": "6-31g", "share": "all", "low": "HF", "expect": "CCSD", "models": [{"low": "HF", "high": "CCSD", "sel": [3, 1, 0, 2]}]},
             # shared dictionary with frozen_orbitals for a model at identical levels (default basis)
             {"geom": lih_h2, "share": "levels", "low": "HF", "expect": "HF",
              "models": [{"low": "CCSD", "high": "CCSD", "sel": 2, "frozen": 1}]}]
    if ck.tier != "quick":
        cases += [{"geom": g, "low": "HF", "expect": "HF",
                   "models": [{"low": "FCI", "high": "FCI", "sel": 2, "links": [[1, 2, 0.7, "H"], [0, 3, 0.5, "H"]]},
                              {"low": "CCSD", "high": "CCSD", "sel": [3, 2]}]},
                  {"geom": g, "low": "CCSD", "expect": "CCSD", "models": [{"low": "HF", "high": "HF", "sel": [1, 2]}]},
                  {"geom": g, "basis": "6-31g", "share": "all", "model_first": True, "low": "HF", "expect": "HF",
                   "models": [{"low": "CCSD", "high": "CCSD", "sel": [2, 3]}, {"low": "HF", "high": "HF", "sel": 2}]},
                  {"geom": g, "basis": "6-31g", "share": "all", "low": "HF", "expect": "FCI", "models": [{"low": "HF", "high": "FCI", "sel": None}]},
                  {"geom": lih_h2, "share": "all", "model_first": True, "low": "HF", "expect": "HF",
                   "models": [{"low": "FCI", "high": "FCI", "sel": [0, 1], "frozen": [0]}, {"low": "CCSD", "high": "CCSD", "sel": [2, 3]}]}]
        for sel in (None, 4, [0, 1, 2, 3]):
            cases.append({"geom": g, "low": "HF", "expect": "FCI", "models": [{"low": "HF", "high": "FCI", "sel": sel}]})
        for _ in range(4):
            gg = [["H", [ck.rng.uniform(-0.2, 0.2), ck.rng.uniform(-0.2, 0.2), 0.85 * i + ck.rng.uniform(-0.1, 0.1)]] for i in range(4)]
            p = list(range(4))
            ck.rng.shuffle(p)
            sh = ck.rng.choice(["none", "levels", "all"])
            bs = ck.rng.choice(["sto-3g", "6-31g"])
            cases.append({"geom": gg, "basis": bs, "share": sh, "low": "HF", "expect": "CCSD", "models": [{"low": "HF", "high": "CCSD", "sel": p}]})
            cases.append({"geom": gg, "basis": bs, "share": sh, "model_first": ck.rng.random() < 0.5, "low": "CCSD", "expect": "CCSD",
                          "models": [{"low": "FCI", "high": "FCI", "sel": p[:2]}]})
    for c in cases:
        e, ref, changed = run_support_oniom(c)
        same = c["models"][0]["low"] == c["models"][0]["high"]
        ck.case("support-oniom", json.dumps(c), nontrivial=True, sample={"case": c, "e": e, "expected": ref},
                tags=["expect:" + c["expect"], "basis:" + c.get("basis", "sto-3g"), "options-dicts:" + c.get("share", "none")]
                + (["frozen_orbitals"] if any(m.get("frozen") is not None for m in c["models"]) else []))
        rep = {"kind": "support-oniom", "case": c, "e": e, "expected": ref}
        if changed:
            ck.violation(SIG_OPTIONS, changed + " (real solvers, share=%s)" % c.get("share", "none"), rep)
        if abs(e - ref) > 1e-7:
            ck.violation("C15/ONIOM.simulate/real-solvers/%s%s" % ("identical-levels" if same else "model-is-system",
                                                                   "/shared-options-dict" if c.get("share", "none") != "none" else ""),
                         "ONIOM energy %.10f differs from the %s/%s energy of the system %.10f computed from an independently built "
                         "molecule (option dictionaries: %s)" % (e, c["expect"], c.get("basis", "sto-3g"), ref, c.get("share", "none")), rep)


# ------------------------------------------------------------------------------------------ main
def run(ck):
    ck.trusted = ["Coq 8.16.1 kernel (coqc), vm_compute", "translator/decomp_facts.py (ast pattern match, fail closed)",
                  "models of oniom_problem_decomposition.py / helper_classes.py / incremental_helper.py / dmet constructor in "
                  "coq/theories/Chem/Decomp.v (hand-written, tied by the correspondence streams of this run)",
                  "harness/props/C15.py (generators, stub molecule/solver classes, canonical printers), coq/theories/Chem/DecompShow.v (printers)",
                  "Python's eval()/str() on tuple keys (the model receives eval(key); rendering str(tuple) is py_tuple_str)"]
    ck.assumptions = ["solver energies are arbitrary functions E(level, geometry) (no solver is modelled); invariance of E under atom "
                      "order is a hypothesis of C15_oniom_model_is_system_index_list only",
                      "Link.relink modelled for single-atom species; capping-group rotation (scipy align_vectors) is checked numerically only",
                      "mi theorems: generic in the key type (correct == and injective rendering are hypotheses); for Python's own keys the rendering "
                      "py_tuple_str = str(tuple) is proved injective and C15_mi_full_order_is_total_python_keys has no hypothesis left",
                      "DMET numerics (localisation, bath, root search, RDM energies) are outside the theorems: support runs only",
                      "float arithmetic: correspondence inputs are integers / dyadic rationals so that binary64 is exact"]
    # 1. regenerate the source facts (fail closed; the fallback keeps the implementation-only oracles running)
    from translator import decomp_facts
    from translator.common import TranslateError
    from harness.lib import REPO, COQ
    try:
        FACTS.update(decomp_facts.extract(REPO))
        ck.notes["source_facts"] = dict(FACTS)
    except TranslateError as e:
        ck.violation("C15/translator/decomp_facts", "translator no longer recognises the source: %s" % e,
                     {"kind": "translator", "error": str(e)}, found_input=False)
        FACTS.update(decomp_facts.FALLBACK)
        ck.notes["source_facts"] = {"fallback": dict(FACTS)}
        ck.assumptions.append("Gen.DecompFacts was NOT regenerated in this run (translator failure); fallback facts used")
    ck.write_gen("DecompFacts", decomp_facts.emit(FACTS))
    # 2. proofs: the source-independent theorems, then the statements over the regenerated facts
    res = ck.prove()
    if not res.ok:
        ck.proof_violation(res)
    res_src = ck.prove(props_file=COQ / "props" / "C15_source.v")
    try:
        import tangelo.problem_decomposition  # noqa
    except Exception as e:       # noqa
        ck.violation("C15/import", "tangelo.problem_decomposition cannot be imported: %r" % e, {"kind": "import"}, found_input=False)
        return
    import warnings
    warnings.filterwarnings("ignore")
    # every stream runs whatever happened before (broken proof step, broken model, crash of another stream): the
    # implementation-only oracles keep searching for a concrete failing input
    for stream in (stream_oniom, stream_relink, stream_mi, stream_dmet, support_dmet, support_dmet_nsum, support_dmet_relabel, support_oniom):
        try:
            stream(ck)
        except Exception:        # noqa
            import traceback
            tb = traceback.format_exc()
            ck.violation("C15/harness-crash/%s" % stream.__name__, "stream %s could not complete: %s" % (stream.__name__, tb.splitlines()[-1]),
                         {"kind": "crash", "stream": stream.__name__, "traceback": tb}, found_input=False)
    if not res_src.ok:
        # the full statement over the regenerated facts no longer type-checks (a check is missing from the source's chain /
        # the geometry is aliased).  When the implementation-only oracles found the concrete failing inputs of exactly
        # that class, those VIOLATION lines are the report; otherwise the broken obligation is reported by itself.
        explained = {"C15_source_dmet_reorder_is_permutation": (SIG_DMET_INCOMPLETE, SIG_DMET_NEGDUP, SIG_DMET_WRONG_ATOMS),
                     "C15_source_oniom_telescopes": (SIG_ALIAS,), "C15_source_distribute_atoms_unchanged": (SIG_ALIAS,),
                     "C15_source_dmet_optimizer_accepts_solved_start": (SIG_NEWTON,)}
        found = {v["signature"] for v in ck.violations if v["found_input"]}
        if res_src.failed in explained and found & set(explained[res_src.failed]):
            ck.notes["source_obligation_broken"] = {"theorem": res_src.failed, "explained_by": sorted(found & set(explained[res_src.failed])),
                                                    "source_facts": dict(FACTS)}
        else:
            ck.proof_violation(res_src, "(statement over the facts regenerated from the source: %s)" % FACTS)
    ck.notes["theorem_status"] = {
        "full": ["C15_oniom_telescopes_sum", "C15_oniom_telescopes", "C15_oniom_model_is_system", "C15_oniom_model_is_system_index_list",
                 "C15_distribute_atoms_repaired_unchanged", "C15_link_on_bond", "C15_link_collinear_scaled",
                 "C15_mi_full_order_is_total (all n, by induction)", "C15_mi_full_order_is_total_python_keys", "C15_py_tuple_str_injective", "C15_mi_top_is_total_any_order", "C15_mi_epsilon_defined_before_use",
                 "C15_mi_full_table_closed", "C15_dmet_reorder_is_permutation (repaired checks)", "C15_dmet_cost_zero_iff_electron_sum",
                 "C15_source_dmet_reorder_is_permutation (check chain regenerated from the source)",
                 "C15_source_oniom_telescopes, C15_source_distribute_atoms_unchanged (copy fact regenerated from the source)",
                 "C15_source_dmet_optimizer_accepts_solved_start (guard fact regenerated from the source)", "C15_dmet_optimizer_result"],
        "partial": ["C15_oniom_telescopes_asis_partial", "C15_distribute_asis_eq_repaired_partial", "C15_dmet_reorder_asis_partial"],
        "refuted (as-is variants of the original source, kept as witnesses)": ["C15_distribute_atoms_aliasing_refuted", "C15_dmet_reorder_asis_refuted", "C15_dmet_optimizer_asis_refuted"]}
    ck.notes["clauses_not_covered_by_a_theorem"] = [
        "DMET energy equals the exact solver's energy when fragment+bath span the space; electron numbers sum to N at the end of "
        "simulate(); invariance under atom relabelling (numerical: support-dmet stream only)",
        "capping-group orientation (relink with more than one atom)"]


def replay(data):
    import warnings
    warnings.filterwarnings("ignore")
    r = data["replay"]
    kind = r.get("kind")
    if kind == "oniom":
        out, info = run_oniom_impl(r["case"])
        print(out)
        finds = oniom_oracle(r["case"], out, info)
        for s, d in finds:
            print("FINDING", s, d)
        if "model" in r:
            print("model said:", r["model"])
            return 1 if (finds or out != r["model"]) else 0
        return 1 if finds else 0
    if kind == "relink":
        out, caps = run_relink_impl(r["case"])
        bad = relink_oracle(r["case"], caps)
        print(out, "| oracle:", "cap NOT on the bond" if bad else "ok", "| model:", r.get("model"))
        return 1 if (bad or ("model" in r and out != r["model"])) else 0
    if kind == "mi":
        out, fi, emf = run_mi_impl(r["case"])
        expect = mi_expected_total(r["case"])
        bad = expect is not None and out != "Ok " + show_q(expect)
        print(out, "| E(full):", expect, "| model:", r.get("model"))
        return 1 if (bad or ("model" in r and out != r["model"])) else 0
    if kind == "relink-group":
        import numpy as np
        from tangelo.problem_decomposition.oniom._helpers.helper_classes import Link
        geom = [(a[0], tuple(a[1])) for a in r["geom"]]
        caps = Link(r["staying"], r["leaving"], r["factor"], r["group"]).relink(geom)
        target = np.array(geom[r["staying"]][1]) + r["factor"] * (np.array(geom[r["leaving"]][1]) - np.array(geom[r["staying"]][1]))
        print(caps[0], target)
        return 1 if np.abs(np.array(caps[0][1]) - target).max() > 1e-9 else 0
    if kind == "dmet":
        out, obs = run_dmet_impl(r["case"])
        print(out)
        finds = dmet_oracle(r["case"], out, obs)
        for s, d in finds:
            print("FINDING", s, d)
        if "model" in r:
            print("model said:", r["model"])
            return 1 if (finds or out != r["model"]) else 0
        return 1 if finds else 0
    if kind == "support-dmet":
        res = run_support_dmet(r["case"])
        print(res)
        return 1 if ("error" in res or (res["full_span"] and abs(res["e"] - res["efci"]) > 1e-7) or res["nerr"] > 1e-6) else 0
    if kind == "support-dmet-relabel":
        res = run_support_dmet_relabel(r["case"])
        print(res)
        if "e" in res["nested"] and "e" in res["hand"]:
            return 1 if abs(res["nested"]["e"] - res["hand"]["e"]) > 1e-6 else 0
        return 1
    if kind == "support-dmet-nsum":
        res = run_support_dmet_nsum(r["case"])
        print(res)
        if "refused" in res:
            return 0
        return 1 if abs(res["residual"]) > max(4 * NEWTON_TOL * abs(res["slope"]), NEWTON_TOL) + 1e-7 else 0
    if kind == "support-oniom":
        e, ref, changed = run_support_oniom(r["case"])
        print(e, ref, changed)
        return 1 if (abs(e - ref) > 1e-7 or changed) else 0
    print(json.dumps(r, indent=1)[:4000])
    return 1
