"""C18 — measurement grouping and histogram processing conserve information (DESIGN §7.C18).

  regenerate  gen/PostTables.v from histogram.py / post_selection.py / backend.py (default epsilon, the
              rounding expression, the default values of the accumulating dictionaries) — fail closed
  prove       coq/props/C18.v (conservation laws by induction over the entry list, any key length;
              marginal invariance of a term's expectation; QWC partition => assembled = term-by-term;
              the per-key rounding of the constructor is refuted with a witness and bounded)
  correspond  random histograms (integer counts, exact probabilities as Fractions, dyadic floats; key
              length 0..6; msq_first; malformed: inconsistent lengths, negative / out-of-range indices)
              through every helper, on the real code and on the Coq model (vm_compute), exact comparison;
              random qubit operators x seeds through group_qwc, the partition checker evaluated in
              Python and in the model; check_bases_commute_qwc / map_measurements_qwc /
              exp_value_from_measurement_bases against the model
  oracle      the property itself on the real code: totals before/after, marginals recomputed by brute
              force, reversal twice = identity, term expectation before/after marginalisation, assembled
              value vs <psi|H|psi> of a random state (numpy), resampling invariants
"""
import itertools
import json
import math
from fractions import Fraction as F

from harness.lib import REPO, VERIF, coq_Z, coq_list, coq_bool, coq_opt, coq_nat, coq_str

LEVEL = "proof"

PREAMBLE = """From Coq Require Import String ZArith QArith Qcanon List Bool.
From Tangelo Require Import Num.Show Post.Histogram Post.Grouping.
Import ListNotations.
Open Scope string_scope.
Definition sh := show_res show_hist.
Definition sq := show_res show_Qc.
"""

EPS_DEFAULT = F(0.01)         # the float 1e-2, exactly


# ------------------------------------------------------------------------------------------ encoders
def coq_key(k):
    return "(K %s)" % coq_str(k)


def coq_Q(x):
    x = F(x)
    return "(Qf (%d) %d)" % (x.numerator, x.denominator)


def coq_hist(d):
    return coq_list(["(%s, %s)" % (coq_key(k), coq_Q(v)) for k, v in d.items()])


def coq_outcomes(exp):
    return coq_list(["(%s, %s)" % (coq_Z(q), coq_bool(b == "1")) for q, b in exp.items()])


def coq_zs(l):
    return coq_list([coq_Z(i) for i in l])


def coq_nats(l):
    return coq_list([coq_nat(i) for i in l])


def coq_term(t):
    return coq_list(["(%s, P%s)" % (coq_nat(q), s) for q, s in t])


def coq_coef(c):
    c = complex(c)
    return "(%s, %s)" % (coq_Q(F(c.real)), coq_Q(F(c.imag)))


def coq_qop(terms):
    return coq_list(["(%s, %s)" % (coq_term(t), coq_coef(c)) for t, c in terms])


def coq_grouping(g):
    return coq_list(["(%s, %s)" % (coq_term(b), coq_qop(ops)) for b, ops in g])


# ------------------------------------------------------------------------------------------ canonical forms
def parse_model_hist(s):
    """'{01:1/3,10:2}' -> {'01': F(1,3), '10': F(2)}"""
    assert s.startswith("{") and s.endswith("}"), s
    body = s[1:-1]
    out = {}
    if body:
        for item in body.split(","):
            k, v = item.split(":")
            out[k] = F(v)
    return out


def val_agrees(impl, exact):
    """impl: int / Fraction / float produced by the code; exact: Fraction from the model."""
    if isinstance(impl, bool):
        return False
    if isinstance(impl, (int, F)):
        return F(impl) == exact
    if isinstance(impl, float):
        if math.isnan(impl) or math.isinf(impl):
            return False
        return impl == float(exact) or abs(F(impl) - exact) <= F(1, 10**12)
    if isinstance(impl, complex):
        return False
    try:                                   # numpy scalars
        return val_agrees(impl.item(), exact)
    except Exception:
        return False


def hist_agrees(impl, model_str):
    if isinstance(impl, str):
        return impl == model_str
    if model_str.startswith("Err:"):
        return False
    m = parse_model_hist(model_str)
    if set(m) != set(impl):
        return False
    return all(val_agrees(impl[k], m[k]) for k in m)


def show_impl_hist(d):
    if isinstance(d, str):
        return d
    return "{" + ",".join("%s:%s" % (k, d[k] if not isinstance(d[k], float) else repr(d[k])) for k in sorted(d)) + "}"


def err_name(e):
    return "Err:" + type(e).__name__


# ------------------------------------------------------------------------------------------ generators
LONG_L = [31, 32, 33, 36, 63, 64, 65, 70, 100]      # around and beyond machine-word widths


def rand_keys(rng, L, n):
    if L == 0:
        return [""]
    if L <= 10:
        space = 2 ** L
        return [format(i, "0%db" % L) for i in rng.sample(range(space), min(n, space))]
    ks = []
    while len(ks) < n:
        r = rng.random()
        if r < 0.15 and ks:                       # differs from an earlier key in one (often far) position only
            k = list(rng.choice(ks))
            q = rng.choice([0, L - 1, 31, 32, 63, 64, rng.randrange(L)])
            q = min(q, L - 1)
            k[q] = "1" if k[q] == "0" else "0"
            k = "".join(k)
        else:
            k = format(rng.getrandbits(L), "0%db" % L)
        if k not in ks:
            ks.append(k)
    return ks


def rand_hist(rng, mode=None, L=None, nkeys=None, mirror_p=0.4, long_p=0.12):
    """-> (dict, mode).  modes: counts (ints, zeros allowed), probs (Fractions summing to 1),
    dyadic (floats k/2^m summing to 1), fcounts (Fraction 'counts' not normalised).
    Key length: 0 (rarely), 1-6, or (long_p) one of LONG_L.  With probability mirror_p the key set
    contains a non-palindromic bitstring together with its mirror image."""
    mode = mode or rng.choice(["counts", "counts", "probs", "dyadic", "fcounts"])
    if L is None:
        r = rng.random()
        L = 0 if r < 0.03 else (rng.choice(LONG_L) if r < 0.03 + long_p else rng.randint(1, 6))
    nk = rng.randint(1, 6) if nkeys is None else nkeys
    ks = rand_keys(rng, L, nk)
    if L >= 2 and rng.random() < mirror_p:
        cand = [k for k in ks if k != k[::-1]]
        if not cand:
            k = "0" * (L - 1) + "1"
            if k not in ks:
                ks.append(k)
            cand = [k]
        for k in cand[:2]:
            if k[::-1] not in ks:
                ks.append(k[::-1])
        rng.shuffle(ks)
    if mode == "counts":
        vals = [rng.choice([0, 1, 1, 2, 3, 5, 8, 13, 40, 100]) for _ in ks]
    elif mode == "fcounts":
        vals = [F(rng.randint(0, 12), rng.choice([1, 2, 3, 5, 7])) for _ in ks]
    elif mode == "probs":
        w = [rng.randint(1, 9) for _ in ks]
        vals = [F(x, sum(w)) for x in w]
    else:
        m = rng.choice([2, 3, 4, 6])
        tot = 2 ** m
        cuts = sorted(rng.randint(0, tot) for _ in range(len(ks) - 1))
        parts = [b - a for a, b in zip([0] + cuts, cuts + [tot])]
        vals = [p / tot for p in parts]
    return dict(zip(ks, vals)), mode


def has_mirror_pair(d):
    return any(k != k[::-1] and k[::-1] in d for k in d)


def rand_indices(rng, L, malformed=False, unique=False):
    """Index lists as a caller may write them: empty, one end, both ends, a random subset; unsorted;
    with a repeated index (unless unique); malformed adds a negative or an out-of-range index."""
    r = rng.random()
    if r < 0.10 or L == 0:
        idx = []
    elif r < 0.22:
        idx = [0, L - 1] if L > 1 else [0]
    elif r < 0.30:
        idx = [L - 1]
    elif r < 0.38:
        idx = [0]
    elif L > 8:
        edge = [q for q in (0, 1, 30, 31, 32, 33, 62, 63, 64, 65, L - 2, L - 1) if 0 <= q < L]
        idx = sorted({q for q in edge if rng.random() < 0.4} | {rng.randrange(L) for _ in range(rng.randint(0, 4))})
    else:
        idx = [i for i in range(L) if rng.random() < 0.4]
    rng.shuffle(idx)
    if not unique and idx and rng.random() < 0.3:
        idx.insert(rng.randrange(len(idx) + 1), rng.choice(idx))
    if malformed:
        idx.insert(rng.randrange(len(idx) + 1), rng.choice([-1, -2, -L, L, L + 3, -L - 1]))
    return idx


def idx_tags(idx, L):
    t = []
    if not idx:
        t.append("idx:empty")
    if len(set(idx)) < len(idx):
        t.append("idx:repeated")
    if idx != sorted(idx):
        t.append("idx:unsorted")
    if any(i < 0 for i in idx):
        t.append("idx:negative")
    if any(i >= L for i in idx):
        t.append("idx:out-of-range")
    if L and 0 in idx and L - 1 in idx:
        t.append("idx:both-ends")
    return t


def rand_term(rng, L, letters="Z"):
    if L > 8:
        edge = [q for q in (0, 1, 30, 31, 32, 33, 62, 63, 64, 65, L - 2, L - 1) if 0 <= q < L]
        qs = {q for q in edge if rng.random() < 0.4} | {rng.randrange(L) for _ in range(rng.randint(0, 3))}
        if rng.random() < 0.5:
            qs |= {0, L - 1}
        qs = sorted(qs)
    else:
        qs = sorted(q for q in range(L) if rng.random() < 0.5)
    return tuple((q, rng.choice(letters)) for q in qs)


# ------------------------------------------------------------------------------------------ brute-force reference
def bf_marginal(d, keep):
    out = {}
    for k, v in d.items():
        nk = "".join(k[i] for i in keep)
        out[nk] = out.get(nk, 0) + v
    return out


def bf_expect(term, d):
    s = 0
    for k, v in d.items():
        par = sum(1 for q, _ in term if k[q] == "1") % 2
        s += (-1) ** par * v
    return s


def exact_total(d):
    return sum(F(v) for v in d.values())


def is_exact(d):
    return all(isinstance(v, (int, F)) and not isinstance(v, bool) for v in d.values())


# ------------------------------------------------------------------------------------------ the cases
class Cases:
    """Collects (case description, implementation result, Coq expression, comparison kind)."""

    def __init__(self, ck):
        self.ck = ck
        self.items = []          # (stream, case dict, impl, expr, kind)

    def add(self, stream, case, impl, expr, kind="hist"):
        self.items.append((stream, case, impl, expr, kind))


def run_ctor(case):
    from tangelo.toolboxes.post_processing.histogram import Histogram
    kw = {}
    if case.get("eps") is not None:
        kw["epsilon"] = case["eps"]
    try:
        h = Histogram(dict(case["d"]), n_shots=case["n"], msq_first=case["msq"], **kw)
        return dict(h.counts), h
    except Exception as e:
        return err_name(e), None


def oracle(ck, sig, ok, desc, replay):
    if not ok:
        ck.violation(sig, desc, replay, found_input=True)


def jd(d):
    """JSON-able dictionary of values (Fractions as 'n/d' strings, floats as hex)."""
    out = {}
    for k, v in d.items():
        if isinstance(v, F):
            out[k] = "F:%d/%d" % (v.numerator, v.denominator)
        elif isinstance(v, float):
            out[k] = "f:" + v.hex()
        else:
            out[k] = v
    return out


def unjd(d):
    out = {}
    for k, v in d.items():
        if isinstance(v, str) and v.startswith("F:"):
            a, b = v[2:].split("/")
            out[k] = F(int(a), int(b))
        elif isinstance(v, str) and v.startswith("f:"):
            out[k] = float.fromhex(v[2:])
        else:
            out[k] = v
    return out


def gen_hist_cases(ck, cs, n, malformed_p=0.12):
    """Random histogram cases through every helper.  Each case is run on the implementation here;
    the Coq expressions are evaluated in one batch later."""
    from tangelo.toolboxes.post_processing.histogram import Histogram, aggregate_histograms, filter_hist
    from tangelo.toolboxes.post_processing import post_selection as PS
    from tangelo.linq import get_expectation_value_from_frequencies_oneterm as oneterm
    rng = ck.rng
    kinds = ["ctor_probs", "ctor_counts", "remove", "post_select_m", "aggregate", "frequencies", "expectation",
             "post_select_fn", "strip", "split", "split_desired", "split_last_n", "oneterm", "filter", "marginal_expectation"]
    state = {}

    def one_case():
        kind = state['kind'] = rng.choice(kinds)
        bad = rng.random() < malformed_p
        st = "histogram-ops"
        if kind == "ctor_probs":
            d, mode = rand_hist(rng, rng.choice(["probs", "probs", "dyadic", "fcounts"]))
            if bad and len(d) > 1:
                k0 = next(iter(d))
                d[k0 + "0"] = d.pop(k0)
            nshots = rng.choice([1, 2, 3, 7, 10, 16, 100, 1000, 8192, -3])
            msq = rng.random() < 0.5
            eps = rng.choice([None, None, F(1, 100), F(1, 2), F(0)])
            case = {"kind": kind, "d": jd(d), "n": nshots, "msq": msq, "eps": None if eps is None else "F:%d/%d" % (eps.numerator, eps.denominator), "mode": mode}
            impl, h = run_ctor({"d": d, "n": nshots, "msq": msq, "eps": eps})
            expr = "sh (mk_histogram %s %s %s %s)" % (coq_hist(d), coq_Z(nshots), coq_bool(msq), coq_Q(EPS_DEFAULT if eps is None else eps))
            cs.add(st, case, impl, expr)
            # oracle: the histogram built from probabilities and n_shots holds n_shots counts
            if h is not None and nshots > 0 and exact_total(d) == 1:
                tot = sum(h.counts.values())
                oracle(ck, "C18/Histogram.__init__/per-key-rounding-changes-total", tot == nshots,
                       "Histogram(%s, n_shots=%d).n_shots == %s (probabilities sum to exactly 1)" % (show_impl_hist(d), nshots, tot),
                       {"kind": "ctor_total", "d": jd(d), "n": nshots, "msq": msq})
            if h is not None and msq:
                impl2, _ = run_ctor({"d": d, "n": nshots, "msq": False, "eps": eps})
                oracle(ck, "C18/Histogram.__init__/msq_first-not-a-reversal",
                       isinstance(impl2, dict) and impl == {k[::-1]: v for k, v in impl2.items()} and sum(impl.values()) == sum(impl2.values()),
                       "msq_first=True is not the key reversal of msq_first=False for %s" % show_impl_hist(d),
                       {"kind": "ctor_msq", "d": jd(d), "n": nshots})
        elif kind == "ctor_counts":
            d, mode = rand_hist(rng, rng.choice(["counts", "fcounts"]))
            if bad and len(d) > 1:
                k0 = next(iter(d))
                d[k0[:-1]] = d.pop(k0)
            msq = rng.random() < 0.5
            case = {"kind": kind, "d": jd(d), "n": 0, "msq": msq, "eps": None, "mode": mode}
            impl, h = run_ctor({"d": d, "n": 0, "msq": msq, "eps": None})
            cs.add(st, case, impl, "sh (mk_histogram %s %s %s %s)" % (coq_hist(d), coq_Z(0), coq_bool(msq), coq_Q(EPS_DEFAULT)))
            if h is not None:
                oracle(ck, "C18/Histogram.__init__/counts-total-changed", exact_total(h.counts) == exact_total(d) and h.n_shots == sum(d.values()),
                       "Histogram(%s, msq_first=%s) changed the total" % (show_impl_hist(d), msq), {"kind": "ctor_counts", "d": jd(d), "msq": msq})
                if msq:
                    h2 = Histogram(dict(h.counts), msq_first=True)
                    oracle(ck, "C18/Histogram.__init__/reversal-not-involutive", h2.counts == d,
                           "reversing twice does not give back %s" % show_impl_hist(d), {"kind": "ctor_counts", "d": jd(d), "msq": msq})
        elif kind in ("remove", "strip"):
            d, mode = rand_hist(rng, None if kind == "remove" else rng.choice(["probs", "dyadic", "counts", "fcounts"]))
            L = len(next(iter(d)))
            R = rand_indices(rng, L, bad)
            case = {"kind": kind, "d": jd(d), "R": R, "mode": mode}
            try:
                if kind == "remove":
                    h = Histogram(dict(d))
                    h.remove_qubit_indices(*R)
                    impl = dict(h.counts)
                else:
                    impl = PS.strip_post_selection(dict(d), *R)
            except Exception as e:
                impl = err_name(e)
            if kind == "remove":
                expr = "show_hist (remove_qubit_indices %s %s)" % (coq_zs(R), coq_hist(d))
            else:
                expr = "sh (strip_post_selection %s %s %s)" % (coq_hist(d), coq_zs(R), coq_Q(EPS_DEFAULT))
            cs.add(st, case, impl, expr)
            if isinstance(impl, dict):
                keep = [i for i in range(L) if i not in R]
                ref = bf_marginal(d, keep)
                if kind == "remove":
                    ok = impl == ref and sum(impl.values()) == sum(d.values())
                    oracle(ck, "C18/remove_qubit_indices/not-the-marginal", ok,
                           "remove_qubit_indices%s of %s gives %s, marginal is %s" % (tuple(R), show_impl_hist(d), show_impl_hist(impl), show_impl_hist(ref)),
                           {"kind": "remove", "d": jd(d), "R": R})
                else:
                    tot = exact_total(d)
                    ok = set(impl) == set(ref) and all(val_agrees(impl[k], F(ref[k]) / tot) for k in ref) and abs(float(sum(impl.values())) - 1) < 1e-9
                    oracle(ck, "C18/strip_post_selection/not-the-normalised-marginal", ok,
                           "strip_post_selection(%s, %s) = %s" % (show_impl_hist(d), R, show_impl_hist(impl)), {"kind": "strip", "d": jd(d), "R": R})
        elif kind in ("post_select_m", "post_select_fn"):
            d, mode = rand_hist(rng)
            L = len(next(iter(d)))
            qs = rand_indices(rng, L, bad, unique=True)
            exp = {q: rng.choice("01") for q in qs}
            case = {"kind": kind, "d": jd(d), "exp": [[q, b] for q, b in exp.items()], "mode": mode}
            try:
                if kind == "post_select_m":
                    h = Histogram(dict(d))
                    h.post_select(dict(exp))
                    impl = dict(h.counts)
                else:
                    impl = PS.post_select(dict(d), dict(exp))
            except Exception as e:
                impl = err_name(e)
            if kind == "post_select_m":
                expr = "sh (hist_post_select %s %s)" % (coq_outcomes(exp), coq_hist(d))
            else:
                expr = "sh (post_select_fn %s %s %s)" % (coq_hist(d), coq_outcomes(exp), coq_Q(EPS_DEFAULT))
            cs.add(st, case, impl, expr)
            if isinstance(impl, dict) and all(-L <= q < L for q in exp):      # k[q] with Python's negative indices
                sel = {k: v for k, v in d.items() if all(k[q] == b for q, b in exp.items())}
                ref = bf_marginal(sel, [i for i in range(L) if i not in exp])
                if kind == "post_select_m":
                    ok = impl == ref and sum(impl.values()) == sum(sel.values())
                else:
                    tot = exact_total(sel)
                    ok = set(impl) == set(ref) and (not ref or (tot != 0 and all(val_agrees(impl[k], F(ref[k]) / tot) for k in ref)
                                                             and abs(float(sum(impl.values())) - 1) < 1e-9))
                oracle(ck, "C18/%s/not-the-renormalised-selection" % ("Histogram.post_select" if kind == "post_select_m" else "post_select"), ok,
                       "post-selection %s of %s gives %s, selected marginal %s" % (exp, show_impl_hist(d), show_impl_hist(impl), show_impl_hist(ref)),
                       {"kind": kind, "d": jd(d), "exp": [[q, b] for q, b in exp.items()]})
        elif kind == "aggregate":
            L = rng.choice(LONG_L) if rng.random() < 0.12 else rng.randint(1, 5)
            nh = rng.choice([1, 2, 2, 3, 4])
            mode = rng.choice(["counts", "counts", "fcounts", "dyadic"])
            ds = [rand_hist(rng, mode, L=(L if not (bad and i == 1) else L + 1))[0] for i in range(nh)]
            if bad and rng.random() < 0.3:
                ds[0] = {}
            how = rng.choice(["fn", "plus", "iadd"]) if nh == 2 else "fn"
            case = {"kind": kind, "ds": [jd(d) for d in ds], "how": how, "mode": mode}
            try:
                hs = [Histogram(dict(d)) for d in ds]
                if how == "fn":
                    r = aggregate_histograms(*hs)
                elif how == "plus":
                    r = hs[0] + hs[1]
                else:
                    r = hs[0]
                    r += hs[1]
                impl = dict(r.counts)
            except (Exception, StopIteration) as e:
                impl = err_name(e)
            cs.add(st, case, impl, "sh (aggregate_histograms %s)" % coq_list([coq_hist(d) for d in ds]))
            if isinstance(impl, dict):
                ref = {}
                for d in ds:
                    for k, v in d.items():
                        ref[k] = ref.get(k, 0) + v
                ok = sum(impl.values()) == sum(sum(d.values()) for d in ds) and all(impl.get(k, 0) == v for k, v in ref.items()) \
                    and set(impl) <= set(ref)
                oracle(ck, "C18/aggregate_histograms/totals-not-conserved", ok,
                       "aggregate of %s gives %s" % ([show_impl_hist(d) for d in ds], show_impl_hist(impl)),
                       {"kind": "aggregate", "ds": [jd(d) for d in ds], "how": how})
                if how != "iadd" and nh > 1:
                    oracle(ck, "C18/aggregate_histograms/operand-changed", all(dict(h.counts) == d for h, d in zip(hs, ds)),
                           "aggregate changed an operand", {"kind": "aggregate", "ds": [jd(d) for d in ds], "how": how})
        elif kind == "frequencies":
            d, mode = rand_hist(rng)
            if bad:
                d = {k: 0 for k in d}
            case = {"kind": kind, "d": jd(d), "mode": mode}
            try:
                h = Histogram(dict(d))
                impl = h.frequencies
            except Exception as e:
                impl = err_name(e)
            cs.add(st, case, impl, "sh (frequencies %s)" % coq_hist(d))
            if isinstance(impl, dict) and impl:
                tot = exact_total(d)
                ok = all(val_agrees(impl[k], F(d[k]) / tot) for k in d) and abs(float(sum(impl.values())) - 1) < 1e-9
                if is_exact(d) and all(isinstance(v, F) for v in impl.values()):
                    ok = ok and sum(impl.values()) == 1
                oracle(ck, "C18/Histogram.frequencies/not-normalised", ok, "frequencies of %s = %s" % (show_impl_hist(d), show_impl_hist(impl)),
                       {"kind": "frequencies", "d": jd(d)})
        elif kind in ("expectation", "oneterm"):
            d, mode = rand_hist(rng, rng.choice(["counts", "dyadic", "probs", "fcounts"]))
            L = len(next(iter(d)))
            term = rand_term(rng, L + (1 if bad else 0), "XYZ")
            if bad and rng.random() < 0.4 and kind == "oneterm":
                d = {}
            coeff = rng.choice([1, 2, -3, F(1, 2), F(-3, 4)])
            case = {"kind": kind, "d": jd(d), "term": [list(x) for x in term], "coeff": str(coeff), "mode": mode}
            try:
                if kind == "expectation":
                    impl = Histogram(dict(d)).get_expectation_value(term, coeff)
                else:
                    impl = oneterm(term, dict(d))
                    if isinstance(impl, Exception):
                        impl = err_name(impl)
            except Exception as e:
                impl = err_name(e)
            if kind == "expectation":
                expr = "sq (hist_expectation %s %s %s)" % (coq_nats([q for q, _ in term]), coq_Q(coeff), coq_hist(d))
            else:
                expr = "sq (oneterm %s %s)" % (coq_nats([q for q, _ in term]), coq_hist(d))
            cs.add(st, case, impl, expr, kind="value")
            # oracle: the value is the explicit +-1 parity sum over the characters of every bitstring
            if d and all(q < L for q, _ in term) and len({len(k) for k in d}) == 1 and not isinstance(impl, str):
                tot = exact_total(d)
                ref = None
                if kind == "oneterm":
                    ref = F(bf_expect(term, d))
                elif tot != 0:
                    ref = F(coeff) * F(bf_expect(term, d)) / tot
                if ref is not None:
                    oracle(ck, "C18/%s/not-the-parity-sum" % ("get_expectation_value_from_frequencies_oneterm" if kind == "oneterm" else "Histogram.get_expectation_value"),
                           abs(F(impl) - ref) <= F(1, 10**9),
                           "term %s on %s: %r, explicit parity sum %s" % (term, show_impl_hist(d)[:300], impl, ref),
                           {"kind": "long_oneterm" if kind == "oneterm" else "expectation", "term": [list(x) for x in term], "d": jd(d), "coeff": str(coeff)})
        elif kind == "marginal_expectation":
            # property oracle only: marginalising qubits outside the term's support keeps its expectation
            d, mode = rand_hist(rng, rng.choice(["counts", "fcounts", "probs"]))
            L = len(next(iter(d)))
            term = rand_term(rng, L, "Z")
            sup = [q for q, _ in term]
            R = [i for i in range(L) if i not in sup and rng.random() < 0.6]
            rng.shuffle(R)
            if R and rng.random() < 0.3:
                R.insert(rng.randrange(len(R) + 1), rng.choice(R))
            keep = [i for i in range(L) if i not in R]
            new_term = tuple((keep.index(q), s) for q, s in term)
            case = {"kind": kind, "d": jd(d), "term": [list(x) for x in term], "R": R, "mode": mode}
            try:
                if exact_total(d) == 0:
                    raise ZeroDivisionError
                h = Histogram(dict(d))
                before = h.get_expectation_value(term)
                h.remove_qubit_indices(*R)
                after = h.get_expectation_value(new_term)
                ok = abs(before - after) < 1e-12 and val_agrees(float(after), F(bf_expect(term, d)) / exact_total(d))
                oracle(ck, "C18/remove_qubit_indices/term-expectation-changed", ok,
                       "expectation of %s on %s: %r before, %r after removing %s" % (term, show_impl_hist(d), before, after, R),
                       {"kind": kind, "d": jd(d), "term": [list(x) for x in term], "R": R})
                impl = before
            except ZeroDivisionError:
                impl = "Err:ZeroDivisionError"
            except Exception as e:
                impl = err_name(e)
            expr = "sq (hist_expectation %s %s (remove_qubit_indices %s %s))" % (
                coq_nats([q for q, _ in new_term]), coq_Q(1), coq_zs(R), coq_hist(d))
            cs.add(st, case, impl, expr, kind="value")
        elif kind in ("split", "split_desired"):
            d, mode = rand_hist(rng, rng.choice(["counts", "dyadic", "probs", "fcounts"]))
            L = len(next(iter(d)))
            idx = rand_indices(rng, L, bad)
            desired = None
            if kind == "split_desired":
                desired = "".join(rng.choice("01") for _ in idx)
                if bad and desired:
                    desired = desired[:-1]
            if bad and rng.random() < 0.2:
                d = {}
            case = {"kind": kind, "d": jd(d), "idx": idx, "desired": desired, "mode": mode}
            try:
                a, b = PS.split_frequency_dict(dict(d), list(idx), desired)
                impl = (a, b)
            except (Exception, StopIteration) as e:
                impl = err_name(e)
            des = "None" if desired is None else "(Some %s)" % coq_list([coq_bool(c == "1") for c in desired])
            cs.add(st, case, impl, "show_res show_pair (split_frequency_dict %s %s %s %s)" % (coq_hist(d), coq_zs(idx), des, coq_Q(EPS_DEFAULT)), kind="pair")
            if isinstance(impl, tuple) and desired is None and all(0 <= i < L for i in idx):
                tot = exact_total(d)
                ref_mid = bf_marginal(d, [i for i in range(L) if i in idx])
                ref_marg = bf_marginal(d, [i for i in range(L) if i not in idx])
                ok = all(set(x) == set(r) and all(val_agrees(x[k], F(r[k]) / tot) for k in r) and abs(float(sum(x.values())) - 1) < 1e-9
                         for x, r in ((impl[0], ref_mid), (impl[1], ref_marg)))
                oracle(ck, "C18/split_frequency_dict/parts-not-normalised-marginals", ok,
                       "split_frequency_dict(%s, %s) = %s | %s" % (show_impl_hist(d), idx, show_impl_hist(impl[0]), show_impl_hist(impl[1])),
                       {"kind": "split", "d": jd(d), "idx": idx})
        elif kind == "split_last_n":
            d, mode = rand_hist(rng, rng.choice(["counts", "dyadic"]))
            L = len(next(iter(d)))
            if bad and len(d) > 1:
                k0 = next(iter(d))
                d[k0 + "1"] = d.pop(k0)
            n = rng.randint(0, L) if not bad else rng.choice([-1, L + 1, L + 2, 2 * L + 1])
            case = {"kind": kind, "d": jd(d), "n": n, "mode": mode}
            try:
                impl = PS.split_frequency_dict_for_last_n_digits(dict(d), n)
            except Exception as e:
                impl = err_name(e)
            cs.add(st, case, impl, "show_pair (split_last_n %s %s)" % (coq_hist(d), coq_Z(n)), kind="pair")
            if isinstance(impl, tuple):
                tot = exact_total(d)
                ok = exact_total(impl[0]) == tot and exact_total(impl[1]) == tot
                if 0 <= n <= L and not bad:
                    ok = ok and all(F(v) == bf_marginal(d, list(range(L - n)))[k] for k, v in impl[0].items()) \
                        and all(F(v) == bf_marginal(d, list(range(L - n, L)))[k] for k, v in impl[1].items())
                oracle(ck, "C18/split_frequency_dict_for_last_n_digits/totals-not-conserved", ok,
                       "split_last_n(%s, %d) = %s | %s" % (show_impl_hist(d), n, show_impl_hist(impl[0]), show_impl_hist(impl[1])),
                       {"kind": kind, "d": jd(d), "n": n})
        elif kind == "filter":
            d, mode = rand_hist(rng, L=rng.randint(1, 6))
            L = len(next(iter(d)))
            q = rng.randrange(L)
            b = rng.choice("01")
            case = {"kind": kind, "d": jd(d), "q": q, "b": b, "mode": mode}
            h = Histogram(dict(d))
            r = filter_hist(h, lambda s, qq, bb: s[qq] == bb, q, bb=b)
            impl = dict(r.counts)
            cs.add(st, case, impl, "show_hist (filter_hist (fun k => Bool.eqb (nth %s k false) %s) %s)" % (coq_nat(q), coq_bool(b == "1"), coq_hist(d)))
            oracle(ck, "C18/filter_hist/not-a-restriction", impl == {k: v for k, v in d.items() if k[q] == b} and dict(h.counts) == d,
                   "filter_hist changed values or its operand", {"kind": kind, "d": jd(d), "q": q, "b": b})

    for _ in range(n):
        try:
            one_case()
        except Exception as e:              # the implementation raised where neither the model nor the oracle expects it
            import traceback
            tb = traceback.format_exc()
            inside = "/tangelo/" in tb.split("harness/props/C18.py")[-1]
            ck.violation("C18/%s/unexpected-%s" % (state.get("kind"), type(e).__name__),
                         "case of kind %s raised %r %s" % (state.get("kind"), e, "inside tangelo" if inside else "inside the harness"),
                         {"kind": "raised", "case_kind": state.get("kind"), "traceback": tb[-1500:]}, found_input=inside)


def case_tags(case):
    d = case.get("d") or (case.get("ds") or [{}])[0]
    L = len(next(iter(d))) if d else 0
    t = []
    if L > 8:
        t.append("long-keys" + (">32" if L > 32 else "") + (">64" if L > 64 else ""))
    if has_mirror_pair(d):
        t.append("mirror-pair")
    idx = case.get("R", case.get("idx"))
    if idx is None and "exp" in case:
        idx = [q for q, _ in case["exp"]]
    if idx is not None:
        t += idx_tags(list(idx), L)
    return t


def compare_cases(ck, cs, name):
    exprs = [e for (_, _, _, e, _) in cs.items]
    model = ck.coq_eval(name, PREAMBLE, exprs, shard=250)
    for (stream, case, impl, expr, kind), m in zip(cs.items, model):
        if kind == "hist":
            ok = hist_agrees(impl, m)
            shown = show_impl_hist(impl)
        elif kind == "pair":
            if isinstance(impl, str):
                ok = impl == m
                shown = impl
            else:
                parts = m.split("|")
                ok = len(parts) == 2 and hist_agrees(impl[0], parts[0]) and hist_agrees(impl[1], parts[1])
                shown = show_impl_hist(impl[0]) + "|" + show_impl_hist(impl[1])
        else:
            if isinstance(impl, str) or m.startswith("Err:"):
                ok = impl == m
            else:
                ok = val_agrees(impl if not isinstance(impl, complex) else impl.real, F(m))
            shown = repr(impl)
        err = isinstance(impl, str)
        d = case.get("d") or (case.get("ds") or [{}])[0]
        ck.case(stream, json.dumps(case, sort_keys=True, default=str), nontrivial=(not err) and len(d) >= 3,
                sample={"case": case, "impl": shown[:300], "model": m[:300]},
                tags=[case["kind"], "err" if err else "ok", "mode:" + str(case.get("mode"))] + case_tags(case))
        if not ok:
            ck.violation("C18/correspondence/%s" % case["kind"],
                         "model and implementation differ on %s: impl=%s model=%s" % (json.dumps(case, default=str)[:500], shown[:400], m[:400]),
                         {"kind": "correspondence", "case": case, "impl": shown, "model": m, "expr": expr}, found_input=False)


# ------------------------------------------------------------------------------------------ exhaustive small space
def exhaustive(ck, maxL, with_model):
    """All histograms over keys of length <= maxL with counts 0..3 (0 = key absent), all index subsets:
    the property oracle on the real code; model correspondence on the same cases when with_model."""
    from tangelo.toolboxes.post_processing.histogram import Histogram
    st = ck.stream("exhaustive-small", "all histograms with keys of length L<=%d and counts in 0..3 (0 = absent), every index subset "
                   "removed; oracle: total conserved and result = brute-force marginal; non-trivial = >= 3 keys" % maxL)
    exprs, impls, descr = [], [], []
    n = 0
    for L in range(1, maxL + 1):
        keyspace = [format(i, "0%db" % L) for i in range(2 ** L)]
        subsets = [list(s) for r in range(L + 1) for s in itertools.combinations(range(L), r)]
        keeps = [[i for i in range(L) if i not in R] for R in subsets]
        for counts in itertools.product(range(4), repeat=len(keyspace)):
            d = {k: c for k, c in zip(keyspace, counts) if c}
            if not d:
                continue
            tot = sum(d.values())
            outs = []
            for R, keep in zip(subsets, keeps):
                h = Histogram(dict(d))
                h.remove_qubit_indices(*R)
                n += 1
                if sum(h.counts.values()) != tot or h.counts != bf_marginal(d, keep):
                    ck.violation("C18/remove_qubit_indices/not-the-marginal",
                                 "remove_qubit_indices%s of %s gives %s" % (tuple(R), d, h.counts), {"kind": "remove", "d": d, "R": R})
                outs.append(h.counts)
            ck.case("exhaustive-small", None, nontrivial=False, tags=["L=%d" % L])
            if len(d) >= 3:
                st["nontrivial"].add(json.dumps(d, sort_keys=True))
            if with_model(L, counts):
                exprs.append("join \"/\" (map (fun R => show_hist (remove_qubit_indices R %s)) %s)" % (
                    coq_hist(d), coq_list([coq_zs(R) for R in subsets])))
                impls.append(outs)
                descr.append(d)
    st["evaluations"] = n
    if exprs:
        model = ck.coq_eval("exh", PREAMBLE, exprs, shard=400)
        for d, outs, m in zip(descr, impls, model):
            parts = m.split("/")
            if len(parts) != len(outs) or not all(hist_agrees(o, p) for o, p in zip(outs, parts)):
                ck.violation("C18/correspondence/remove-exhaustive", "model and implementation differ on %s: %s vs %s" % (d, outs, m),
                             {"kind": "correspondence", "case": {"kind": "remove", "d": d}, "model": m}, found_input=False)
    ck.notes["exhaustive_small"] = {"max_key_length": maxL, "remove_calls": n, "model_cases": len(exprs)}


# ------------------------------------------------------------------------------------------ grouping
def rand_qubit_operator(rng, nq=None):
    from openfermion import QubitOperator
    nq = nq or rng.randint(1, 6)
    nt = rng.randint(1, 12)
    op = QubitOperator()
    for _ in range(nt):
        qs = [q for q in range(nq) if rng.random() < 0.5]
        term = tuple((q, rng.choice("XYZ")) for q in qs)
        if rng.random() < 0.25:
            c = complex(rng.randint(-8, 8) / 8, rng.randint(-8, 8) / 8)
        else:
            c = rng.randint(-16, 16) / 8
        if c == 0:
            c = 0.5
        op += QubitOperator(term, c)
    return op, nq


def py_is_qwc_partition(op_terms, groups):
    """Independent Python evaluation of the checker (op_terms: dict term->coef; groups: dict basis -> dict term->coef)."""
    seen = {}
    for basis, sub in groups.items():
        bd = dict(basis)
        if len(bd) != len(basis):
            return False, "basis repeats a qubit"
        for t, c in sub.items():
            if t in seen:
                return False, "term %s in two groups" % (t,)
            seen[t] = c
            for q, s in t:
                if bd.get(q, "Z") != s:
                    return False, "term %s not diagonal in basis %s" % (t, basis)
    if seen != op_terms:
        return False, "terms/coefficients of the groups differ from the operator"
    return True, ""


def basis_frequencies(psi, nq, basis):
    """Exact (numpy) outcome probabilities, lsq-first bitstrings, of measuring psi after rotating every
    qubit of `basis` from its Pauli axis to Z.  psi index: qubit 0 = most significant bit (openfermion)."""
    import numpy as np
    Hd = np.array([[1, 1], [1, -1]]) / math.sqrt(2)
    Sdg = np.array([[1, 0], [0, -1j]])
    t = psi.reshape([2] * nq)
    for q, s in basis:
        u = Hd if s == "X" else (Hd @ Sdg if s == "Y" else None)
        if u is not None:
            t = np.moveaxis(np.tensordot(u, t, axes=([1], [q])), 0, q)
    p = np.abs(t.reshape(-1)) ** 2
    return {format(i, "0%db" % nq): float(p[i]) for i in range(2 ** nq) if p[i] > 1e-14}


def gen_grouping_cases(ck, n_ops, seeds):
    import numpy as np
    from openfermion import QubitOperator, get_sparse_operator
    from tangelo.toolboxes.measurements import qubit_terms_grouping as G
    rng = ck.rng
    ck.stream("grouping", "random qubit operators (1-6 qubits, 1-12 terms over X/Y/Z incl. identity, dyadic real/complex "
              "coefficients) x seeds x n_repeat through group_qwc; partition checker in Python and in the model; "
              "assembled value vs <psi|H|psi>; non-trivial = >= 2 groups")
    exprs, expect = [], []
    for i in range(n_ops):
        op, nq = rand_qubit_operator(rng)
        for seed in seeds:
            n_repeat = rng.choice([1, 1, 2, 3])
            np.random.seed(rng.randrange(2 ** 31))       # the repeats of group_qwc draw from numpy's global state
            terms0 = dict(op.terms)
            groups = G.group_qwc(op, seed=seed, n_repeat=n_repeat)
            gd = {b: dict(sub.terms) for b, sub in groups.items()}
            case = {"op": [[list(map(list, t)), [complex(c).real, complex(c).imag]] for t, c in terms0.items()], "nq": nq, "seed": seed, "n_repeat": n_repeat}
            ok, why = py_is_qwc_partition(terms0, gd)
            ck.case("grouping", json.dumps(case, sort_keys=True), nontrivial=len(gd) >= 2,
                    sample={"operator": str(op)[:200], "seed": seed, "bases": [str(b) for b in gd][:6]},
                    tags=["groups=%d" % len(gd), "nq=%d" % nq, "n_repeat=%d" % n_repeat])
            if not ok:
                ck.violation("C18/group_qwc/not-a-qwc-partition", "group_qwc(%s, seed=%s, n_repeat=%d): %s" % (op, seed, n_repeat, why),
                             {"kind": "grouping", **case})
            if dict(op.terms) != terms0:
                ck.violation("C18/group_qwc/operand-changed", "group_qwc changed its operator", {"kind": "grouping", **case})
            glist = [(b, list(sub.items())) for b, sub in gd.items()]
            exprs.append("show_bool (is_qwc_partition %s %s)" % (coq_qop(list(terms0.items())), coq_grouping(glist)))
            expect.append(("is_qwc_partition", case, "T" if ok else "F"))
            # a corrupted grouping must be rejected by both checkers
            if glist and rng.random() < 0.5:
                bad = [(b, list(ops)) for b, ops in glist]
                how = rng.choice(["drop", "dup", "coef", "basis"])
                gi = rng.randrange(len(bad))
                if how == "drop" and bad[gi][1]:
                    bad[gi][1].pop()
                elif how == "dup" and bad[gi][1]:
                    bad[gi][1].append(bad[gi][1][0])
                elif how == "coef" and bad[gi][1]:
                    t, c = bad[gi][1][0]
                    bad[gi][1][0] = (t, c + 0.5)
                else:
                    b = list(bad[gi][0])
                    nz = [j for j, (q, s) in enumerate(b) if any(dict(t).get(q) == s for t, _ in bad[gi][1])]
                    if nz:
                        q, s = b[nz[0]]
                        b[nz[0]] = (q, "X" if s != "X" else "Y")
                        bad[gi] = (tuple(b), bad[gi][1])
                    else:
                        how = "none"
                if how != "none":
                    try:
                        okb, _ = py_is_qwc_partition(terms0, {b: dict(ops) for b, ops in bad} if how != "dup" else None)
                    except Exception:
                        okb = False
                    if how == "dup":
                        okb = False
                    exprs.append("show_bool (is_qwc_partition %s %s)" % (coq_qop(list(terms0.items())), coq_grouping(bad)))
                    expect.append(("is_qwc_partition-corrupted-" + how, case, "T" if okb else "F"))
            # model of map_measurements_qwc / check_bases_commute_qwc
            mm = G.map_measurements_qwc(groups)
            shown = ";".join("%s->%s" % (show_term_py(k), "".join(show_term_py(b) for b in v)) for k, v in mm.items())
            exprs.append("show_mm (map_measurements_qwc %s)" % coq_grouping(glist))
            expect.append(("map_measurements_qwc", case, shown))
            for k, v in mm.items():
                for b in v:
                    if not G.check_bases_commute_qwc(k, b):
                        ck.violation("C18/map_measurements_qwc/lists-non-commuting-basis", "%s -> %s" % (k, b), {"kind": "grouping", **case})
            # model of exp_value_from_measurement_bases on arbitrary dyadic frequency dictionaries
            hd = {}
            for b in gd:
                d, _ = rand_hist(rng, "dyadic", L=nq)
                hd[b] = d
            val = G.exp_value_from_measurement_bases(groups, hd)
            exprs.append("show_res show_coef (exp_value_from_measurement_bases %s %s)" % (
                coq_grouping(glist), coq_list(["(%s, %s)" % (coq_term(b), coq_hist(d)) for b, d in hd.items()])))
            v = complex(val)
            expect.append(("exp_value_from_measurement_bases", case, "%s+%sj" % (fr(F(v.real)), fr(F(v.imag)))))
            # property oracle: histograms of one random state in each basis; assembled value = <psi|H|psi>
            if seed == seeds[0]:
                psi = np.array([complex(rng.gauss(0, 1), rng.gauss(0, 1)) for _ in range(2 ** nq)])
                psi /= np.linalg.norm(psi)
                hists = {b: basis_frequencies(psi, nq, b) for b in gd}
                assembled = G.exp_value_from_measurement_bases(groups, hists)
                exact = np.vdot(psi, get_sparse_operator(op, n_qubits=nq) @ psi)
                termwise = sum(c * bf_expect(t, basis_frequencies(psi, nq, t)) for t, c in terms0.items())
                if abs(assembled - exact) > 1e-9 or abs(termwise - exact) > 1e-9:
                    ck.violation("C18/exp_value_from_measurement_bases/differs-from-termwise",
                                 "operator %s seed %s: assembled %r, term-by-term %r, <psi|H|psi> %r" % (op, seed, assembled, termwise, exact),
                                 {"kind": "grouping", **case})
    model = ck.coq_eval("grouping", PREAMBLE, exprs, shard=200)
    for (what, case, e), m in zip(expect, model):
        ck.case("grouping-model", None, nontrivial=False, tags=[what])
        if e != m:
            ck.violation("C18/correspondence/%s" % what, "model %s, implementation/python %s on %s" % (m[:300], e[:300], json.dumps(case)[:400]),
                         {"kind": "correspondence", "case": case, "what": what, "impl": e, "model": m}, found_input=False)


def long_key_grouping(ck, n):
    """exp_value_from_measurement_bases / get_expectation_value / oneterm on registers wider than a machine
    word: operators with factors on the first and last qubits of 33..100-qubit registers, grouped by
    group_qwc; dyadic frequency dictionaries per basis; exact reference by explicit parity of the
    characters; the same cases through the model."""
    from openfermion import QubitOperator
    from tangelo.toolboxes.measurements import qubit_terms_grouping as G
    from tangelo.toolboxes.post_processing.histogram import Histogram
    from tangelo.linq import get_expectation_value_from_frequencies_oneterm as oneterm
    rng = ck.rng
    ck.stream("long-registers", "operators on 31..100-qubit registers with factors on the first/last qubits and around positions "
              "31/32/63/64, grouped by group_qwc; dyadic frequency dictionaries; assembled value, oneterm and "
              "Histogram.get_expectation_value vs explicit character parity and vs the model; non-trivial = >= 2 groups")
    exprs, expect = [], []
    for _ in range(n):
        nq = rng.choice(LONG_L)
        op = QubitOperator()
        for _t in range(rng.randint(1, 6)):
            term = rand_term(rng, nq, "XYZ")
            c = rng.randint(-16, 16) / 8 or 0.5
            op += QubitOperator(term, c)
        terms0 = dict(op.terms)
        groups = G.group_qwc(op, seed=rng.randrange(100))
        gd = {b: dict(sub.terms) for b, sub in groups.items()}
        case = {"op": [[list(map(list, t)), [complex(c).real, complex(c).imag]] for t, c in terms0.items()], "nq": nq}
        ok, why = py_is_qwc_partition(terms0, gd)
        if not ok:
            ck.violation("C18/group_qwc/not-a-qwc-partition", "group_qwc(%s): %s" % (op, why), {"kind": "grouping", **case})
        hd = {b: rand_hist(rng, "dyadic", L=nq, mirror_p=0.2)[0] for b in gd}
        case["hists"] = [[list(map(list, b)), jd(d)] for b, d in hd.items()]
        ck.case("long-registers", json.dumps(case, sort_keys=True), nontrivial=len(gd) >= 2,
                sample={"operator": str(op)[:200], "nq": nq}, tags=["nq=%d" % nq, "groups=%d" % len(gd)])
        try:
            val = complex(G.exp_value_from_measurement_bases(groups, hd))
        except Exception as e:
            ck.violation("C18/exp_value_from_measurement_bases/raises-on-long-register", "%s on %d qubits: %r" % (op, nq, e), {"kind": "long_grouping", **case})
            continue
        ref = sum(complex(c) * float(bf_expect(t, hd[b])) for b, sub in gd.items() for t, c in sub.items())
        if abs(val - ref) > 1e-9:
            ck.violation("C18/exp_value_from_measurement_bases/wrong-parity-on-long-register",
                         "operator %s on %d qubits: assembled %r, explicit parity sum %r" % (op, nq, val, ref), {"kind": "long_grouping", **case})
        for b, sub in gd.items():
            for t in sub:
                try:
                    e1 = oneterm(t, dict(hd[b]))
                    e2 = Histogram(dict(hd[b])).get_expectation_value(t, 1.)
                except Exception as e:
                    ck.violation("C18/get_expectation_value_from_frequencies_oneterm/raises-on-long-register",
                                 "term %s on %d qubits: %r" % (t, nq, e), {"kind": "long_oneterm", "term": [list(x) for x in t], "d": jd(hd[b])})
                    continue
                r = float(bf_expect(t, hd[b]))
                if abs(e1 - r) > 1e-9 or abs(e2 - r) > 1e-9:
                    ck.violation("C18/get_expectation_value_from_frequencies_oneterm/wrong-parity-on-long-register",
                                 "term %s on %s (%d qubits): oneterm %r, Histogram %r, explicit parity %r" % (t, show_impl_hist(hd[b])[:300], nq, e1, e2, r),
                                 {"kind": "long_oneterm", "term": [list(x) for x in t], "d": jd(hd[b])})
        glist = [(b, list(sub.items())) for b, sub in gd.items()]
        exprs.append("show_res show_coef (exp_value_from_measurement_bases %s %s)" % (
            coq_grouping(glist), coq_list(["(%s, %s)" % (coq_term(b), coq_hist(d)) for b, d in hd.items()])))
        expect.append((case, "%s+%sj" % (fr(F(val.real)), fr(F(val.imag)))))
    model = ck.coq_eval("longgrp", PREAMBLE, exprs, shard=60)
    for (case, e), m in zip(expect, model):
        if e != m:
            ck.violation("C18/correspondence/exp_value_from_measurement_bases-long", "model %s, implementation %s on %s" % (m[:200], e[:200], json.dumps(case)[:400]),
                         {"kind": "correspondence", "case": case, "impl": e, "model": m}, found_input=False)


def fr(x):
    return str(x.numerator) if x.denominator == 1 else "%d/%d" % (x.numerator, x.denominator)


def show_term_py(t):
    return "(" + " ".join("%s%d" % (s, q) for q, s in t) + ")"


# ------------------------------------------------------------------------------------------ resampling
def resampling(ck, n):
    import numpy as np
    from tangelo.toolboxes.post_processing.histogram import Histogram
    from tangelo.toolboxes.post_processing.bootstrapping import get_resampled_frequencies
    rng = ck.rng
    ck.stream("resampling", "get_resampled_frequencies / Histogram.resample on random histograms: only exact invariants "
              "(keys of the right length over 0/1 inside the support, counts sum to the requested number); non-trivial = >= 3 keys")
    for _ in range(n):
        d, mode = rand_hist(rng, rng.choice(["counts", "probs"]), L=rng.randint(1, 6))
        d = {k: v for k, v in d.items() if v != 0}
        if not d or exact_total(d) == 0:
            continue
        L = len(next(iter(d)))
        ns = rng.choice([1, 2, 7, 10, 100, 1000, 4096])
        np.random.seed(rng.randrange(2 ** 31))
        case = {"d": jd(d), "n": ns}
        h = Histogram(dict(d))
        fq = get_resampled_frequencies({k: float(v) for k, v in h.frequencies.items()}, ns)
        cnt = {k: v * ns for k, v in fq.items()}
        ok1 = all(len(k) == L and set(k) <= set("01") and k in d for k in fq) and abs(sum(cnt.values()) - ns) < 1e-6 \
            and all(abs(c - round(c)) < 1e-6 and c > 0 for c in cnt.values())
        r = h.resample(ns)
        ok2 = r.n_shots == ns and all(len(k) == L and k in d and isinstance(v, int) and v > 0 for k, v in r.counts.items())
        ck.case("resampling", json.dumps(case, sort_keys=True), nontrivial=len(d) >= 3, sample={"case": case, "resampled": dict(r.counts)},
                tags=["n=%d" % ns])
        if not ok1:
            ck.violation("C18/get_resampled_frequencies/ill-formed", "get_resampled_frequencies(%s, %d) = %s" % (d, ns, fq), {"kind": "resample", **case})
        if not ok2:
            ck.violation("C18/Histogram.resample/count-not-conserved", "Histogram(%s).resample(%d) = %s" % (d, ns, r.counts), {"kind": "resample", **case})


# ------------------------------------------------------------------------------------------ main
WITNESS = {"d": {"00": "F:1/3", "01": "F:1/3", "10": "F:1/3"}, "n": 10}


def replay_witness(ck):
    """The witness of C18_histogram_total_refuted on the real code, with exact Fractions and with floats."""
    from tangelo.toolboxes.post_processing.histogram import Histogram
    for label, d in (("Fraction", unjd(WITNESS["d"])), ("float", {k: 1 / 3 for k in WITNESS["d"]})):
        h = Histogram(dict(d), n_shots=WITNESS["n"])
        ck.notes.setdefault("refuted_witness_replay", {})[label] = {"counts": dict(h.counts), "n_shots": h.n_shots}
        if h.n_shots != WITNESS["n"]:
            ck.violation("C18/Histogram.__init__/per-key-rounding-changes-total",
                         "Histogram({'00': 1/3, '01': 1/3, '10': 1/3}, n_shots=10).n_shots == %s (%s probabilities): every key is rounded "
                         "separately, the total is not the requested number of shots" % (h.n_shots, label),
                         {"kind": "ctor_total", "d": WITNESS["d"] if label == "Fraction" else jd(d), "n": WITNESS["n"], "msq": False})
        else:
            ck.notes["refuted_witness_replay"]["note"] = "the implementation no longer fails on the witness: constructor repaired?"


def run(ck):
    from translator.common import TranslateError
    ck.trusted = ["Coq 8.16.1 kernel (coqc), vm_compute",
                  "translator/post_tables.py, translator/common.py (ast pattern match of the constructor's rounding / epsilon / accumulator defaults)",
                  "harness/props/C18.py (generators, exact comparison through Fractions, brute-force marginal / numpy state oracle)",
                  "hand-written model coq/theories/Post/{Histogram,Grouping}.v tied by correspondence",
                  "openfermion's group_into_tensor_product_basis_sets is not modelled: its output is validated per instance by is_qwc_partition"]
    ck.assumptions = ["histogram values are exact rationals in the model; implementation floats are compared through exact Fractions "
                      "(dyadic inputs) or within 1e-12 of the exact model value (one rounded division)",
                      "bitstrings over '0'/'1'; dictionaries have distinct keys (Python dict)",
                      "qwc_partition_gives_termwise assumes the per-basis histograms come from one state (equal marginals on qubits "
                      "measured along the same axes); that link to quantum mechanics is checked numerically by the oracle, not proved",
                      "resampling: only exact invariants, the sampled distribution is outside the technique"]
    from translator import post_tables
    try:
        t = post_tables.extract(REPO)
        ck.write_gen("PostTables", post_tables.emit(t))
        ck.notes["post_tables"] = {k: str(v) for k, v in t.items()}
        ck.notes["post_tables_source"] = "regenerated from /repo"
    except TranslateError as e:
        # fail closed for the table, but keep searching: every oracle stream still runs on the implementation and
        # the model correspondence runs against the LAST KNOWN-GOOD constants (labelled as such in the evidence)
        ck.violation("C18/translator/post_tables", "translator no longer recognises the source: %s" % e,
                     {"kind": "translator", "error": str(e)}, found_input=False)
        ck.write_gen("PostTables", post_tables.emit(post_tables.FALLBACK))
        ck.notes["post_tables"] = {k: str(v) for k, v in post_tables.FALLBACK.items()}
        ck.notes["post_tables_source"] = ("FALLBACK: last known-good constants (translator failed closed: %s); theorems that mention "
                                          "Gen.PostTables are NOT tied to the current source in this run" % e)
        ck.assumptions.append("Gen.PostTables was NOT regenerated in this run (translator failure); fallback constants used")
    res = ck.prove()
    if not res.ok:
        ck.proof_violation(res)
    try:
        import tangelo.toolboxes.post_processing.histogram  # noqa
        import tangelo.toolboxes.measurements.qubit_terms_grouping  # noqa
    except Exception as e:
        ck.violation("C18/import", "tangelo cannot be imported: %r" % e, {"kind": "import"}, found_input=False)
        return
    quick = ck.tier == "quick"
    replay_witness(ck)
    # corpus first
    corpus = VERIF / "corpus" / "C18"
    if corpus.exists():
        for f in sorted(corpus.glob("*.json")):
            replay(json.loads(f.read_text()), ck=ck)
    ck.stream("histogram-ops", "random histograms (integer counts incl. zeros, exact probabilities, dyadic floats, rational counts; "
              "key length 0-6 and (12%) 31/32/33/36/63/64/65/70/100 with terms and indices at both ends and around positions 31/32/63/64, 1-8 keys, 40% with a bitstring AND its mirror image; index lists empty / one end / both ends / unsorted / repeated; msq_first; ~12% malformed: inconsistent key lengths, negative / out-of-range indices, "
              "zero totals, empty dictionaries) through Histogram(), remove_qubit_indices, post_select, +/aggregate, frequencies, "
              "get_expectation_value, filter_hist, post_select(), strip_post_selection, split_frequency_dict(*), oneterm; "
              "non-trivial = no exception and >= 3 keys; distinct = distinct (kind, input) pairs")
    def guarded(name, f):
        """One stream must not stop the others: a crash is reported for that stream and the search goes on."""
        try:
            f()
        except Exception:
            import traceback
            tb = traceback.format_exc()
            ck.violation("C18/stream-crash/%s" % name, "stream %s could not complete: %s" % (name, tb.splitlines()[-1]),
                         {"kind": "crash", "stream": name, "traceback": tb[-3000:]}, found_input=False)

    cs = Cases(ck)
    guarded("histogram-ops", lambda: gen_hist_cases(ck, cs, 700 if quick else 9000))
    guarded("histogram-ops-model", lambda: compare_cases(ck, cs, "hist"))
    guarded("grouping", lambda: gen_grouping_cases(ck, 150 if quick else 2000, [0, 1] if quick else [None, 0, 1, 2, 3]))
    guarded("long-registers", lambda: long_key_grouping(ck, 40 if quick else 500))
    guarded("resampling", lambda: resampling(ck, 60 if quick else 600))
    guarded("exhaustive-small", lambda: exhaustive(ck, 2 if quick else 3, lambda L, counts: True))


def replay(data, ck=None):
    """Re-run a stored case on the real code; 1 if it still fails."""
    from tangelo.toolboxes.post_processing.histogram import Histogram
    r = data["replay"] if "replay" in data else data
    kind = r.get("kind")
    fails = 0
    if kind == "ctor_total":
        d = unjd(r["d"])
        h = Histogram(dict(d), n_shots=r["n"], msq_first=r.get("msq", False))
        print("Histogram(%s, n_shots=%d) -> %s, n_shots=%s" % (d, r["n"], h.counts, h.n_shots))
        fails = int(h.n_shots != r["n"])
        if ck is not None and fails:
            ck.violation("C18/Histogram.__init__/per-key-rounding-changes-total", "corpus case: %s" % r, r)
    elif kind == "remove":
        d = unjd(r["d"])
        h = Histogram(dict(d))
        h.remove_qubit_indices(*r["R"])
        L = len(next(iter(d)))
        ref = bf_marginal(d, [i for i in range(L) if i not in r["R"]])
        print(d, r["R"], "->", h.counts, "expected", ref)
        fails = int(h.counts != ref)
    elif kind in ("long_oneterm", "expectation"):
        from tangelo.linq import get_expectation_value_from_frequencies_oneterm as oneterm
        d = unjd(r["d"])
        term = tuple((q, s) for q, s in r["term"])
        if kind == "long_oneterm":
            got, ref = oneterm(term, dict(d)), F(bf_expect(term, d))
        else:
            c = F(r.get("coeff", "1"))
            got, ref = Histogram(dict(d)).get_expectation_value(term, c), c * F(bf_expect(term, d)) / exact_total(d)
        print("term", term, "on", show_impl_hist(d)[:400], "->", got, "explicit parity sum", ref)
        fails = int(abs(F(got) - ref) > F(1, 10**9))
    elif kind in ("ctor_counts", "ctor_msq"):
        d = unjd(r["d"])
        h = Histogram(dict(d), n_shots=r.get("n", 0), msq_first=True)
        h0 = Histogram(dict(d), n_shots=r.get("n", 0), msq_first=False)
        exp = {k[::-1]: v for k, v in h0.counts.items()}
        print(d, "msq_first ->", h.counts, "expected", exp)
        fails = int(h.counts != exp)
    else:
        print(json.dumps(r, indent=1, default=str)[:4000])
        fails = 1
    return fails
