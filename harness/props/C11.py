"""C11 — circuit metadata stays consistent under any operation history (DESIGN §7.C11).

  regenerate  gen/GateTables.v from gate.py / circuit.py; writer-site inventory of circuit.py and the
              two translators compared with translator/expected/writer_sites.json
  prove       coq/props/C11.v   (invariant by induction over operation histories; gate validation)
  correspond  random operation histories run on the real Circuit class and on the Coq model
              (Linq.History.step evaluated by vm_compute); full store compared after every operation;
              malformed-gate stream compared with the model of Gate.__init__
  oracle      on the implementation alone: reported metadata vs. recount from list(circuit);
              snapshots of operands of read-only operations
"""
import copy
import json
import math

from harness.lib import REPO, VERIF, coq_Z, coq_list, coq_bool, coq_opt, coq_nat, coq_str
from harness import linq_common as LC

LEVEL = "proof"

PREAMBLE = """From Coq Require Import String ZArith List Bool.
From Tangelo Require Import Num.Show Linq.GateModel Linq.CircuitModel Linq.History Linq.LinqZ.
From Gen Require Import GateTables.
Import ListNotations.
Open Scope string_scope.
Definition run (ops : list (op Z)) : string :=
  zrun gtables small_modulus_units small_modulus_long_units eq_modulus_units eq_modulus_long_units inv_S_units inv_T_units ops.
"""

GATE_NAMES = LC.ALL_UNITARY + ["MEASURE"]


# ------------------------------------------------------------------------------------------ histories
def gen_history(rng, tier):
    n_ops = rng.randint(2, 7 if tier == "quick" else 11)
    ops = []
    n_store = 0

    def new_circ():
        nonlocal n_store
        nq = rng.choice([None, None, 3, 4, 5])
        width = nq or rng.randint(2, 4)
        gs = LC.rand_gate_list(rng, width, rng.randint(0, 6), GATE_NAMES)
        if nq is None and rng.random() < 0.3:
            # sparse index set with gaps reaching indices >= 8
            gs = LC.embed_specs(gs, LC.sparse_embedding(rng, width))
        ops.append(("new", gs, nq))
        n_store += 1

    new_circ()
    if rng.random() < 0.5:
        new_circ()
    for _ in range(n_ops):
        i = rng.randrange(n_store)
        r = rng.random()
        if r < 0.22:
            w = rng.randint(2, 6)
            spec = LC.rand_gate_spec(rng, w, GATE_NAMES)
            ops.append(("add_gate", i, spec))
        elif r < 0.30:
            ops.append(("concat", i, rng.randrange(n_store)))
            n_store += 1
        elif r < 0.34:
            ops.append(("repeat", i, rng.choice([1, 2, 2, 3, 0, -1])))
            n_store += 1        # may fail; tracked after execution
        elif r < 0.40:
            ops.append(("copy", i))
            n_store += 1
        elif r < 0.48:
            ops.append(("inverse", i))
            n_store += 1
        elif r < 0.54:
            ops.append(("trim", i))
        elif r < 0.60:
            ops.append(("reindex", i, None))           # permutation chosen at run time from the width
        elif r < 0.65:
            ops.append(("split", i, rng.random() < 0.7))
            n_store += 1
        elif r < 0.69:
            ops.append(("stack", [rng.randrange(n_store) for _ in range(rng.randint(1, 3))]))
            n_store += 1
        elif r < 0.76:
            ops.append((rng.choice(["small_fn", "small_m"]), i, rng.random() < 0.5))
        elif r < 0.83:
            ops.append((rng.choice(["redundant_fn", "redundant_m"]), i, rng.random() < 0.5))
        elif r < 0.90:
            ops.append((rng.choice(["merge_fn", "merge_m"]), i))
        elif r < 0.95:
            ops.append((rng.choice(["simplify_fn", "simplify_m"]), i, rng.choice([1, 2, 100]), rng.random() < 0.5))
        else:
            ops.append(("read", i, rng.choice(["depth", "cirq", "iterate", "simulate", "ionq", "projectq", "sympy",
                                               "openqasm", "qiskit", "qulacs", "stim", "braket", "pennylane", "qdk"])))
    return ops


def snapshot(c):
    return LC.show_circ_impl(c)[0]


def recount_oracle(c):
    """The property itself on the implementation: reported metadata vs recount from the gate list."""
    gates = list(c)
    problems = []
    if c.size != len(gates):
        problems.append("size")
    cnt = {}
    ncnt = {}
    for g in gates:
        cnt[g.name] = cnt.get(g.name, 0) + 1
        n = len(g.target) + (len(g.control) if g.control is not None else 0)
        ncnt[n] = ncnt.get(n, 0) + 1
    if dict(c.counts) != cnt:
        problems.append("counts")
    if dict(c.counts_n_qubit) != ncnt:
        problems.append("counts_n_qubit")
    if c.is_variational != any(g.is_variational for g in gates):
        problems.append("is_variational")
    if c.is_mixed_state != any(g.name in ("MEASURE", "CMEASURE") for g in gates):
        problems.append("is_mixed_state")
    used = set()
    for g in gates:
        used |= set(g.target) | (set(g.control) if g.control else set())
    if used and c.width < max(used) + 1:
        problems.append("width")
    if c._qubits_simulated:
        if any(q >= c._qubits_simulated for q in used) and c.width <= c._qubits_simulated:
            problems.append("out-of-range-gate-kept")
    for g in gates:
        qs = list(g.target) + (list(g.control) if g.control else [])
        if len(set(qs)) != len(qs) or any((not isinstance(q, int)) or q < 0 for q in qs):
            problems.append("invalid-gate-kept")
    # depth clause: depth() is the longest chain of gates that pairwise share a qubit (C11_depth_is_longest_chain)
    last = {}
    longest = 0
    for g in gates:
        qs = list(g.target) + (list(g.control) if g.control else [])
        lvl = 1 + max([last.get(q, 0) for q in qs] or [0])
        for q in qs:
            last[q] = lvl
        longest = max(longest, lvl)
    try:
        if c.depth() != longest:
            problems.append("depth(%s!=%s)" % (c.depth(), longest))
    except Exception as e:
        problems.append("depth-raises-%s" % type(e).__name__)
    return problems


def _fresh(c):
    """The same circuit object state, but with every Gate object distinct and shared with nothing else."""
    import copy
    ref = copy.deepcopy(c)
    ref._gates = [copy.deepcopy(g) for g in ref._gates]
    if hasattr(ref, "_variational_gates"):
        ref._variational_gates = [g for g in ref._gates if g.is_variational]
    return ref


PROBES = ("reindex", "merge", "redundant", "simplify", "trim", "add_gate")


def _apply_probe(c, probe):
    from tangelo.linq import Gate
    if probe == "reindex":
        idx = sorted(c._qubit_indices)
        c.reindex_qubits(list(reversed(idx)))
    elif probe == "merge":
        c.merge_rotations()
    elif probe == "redundant":
        c.remove_redundant_gates()
    elif probe == "simplify":
        c.simplify()
    elif probe == "trim":
        c.trim_qubits()
    else:
        c.add_gate(Gate("X", 0))


def alias_probe(store, new_idx, kind):
    """Object sharing is not observable by itself; it becomes a violation when a later IN-PLACE operation on one
    circuit changes another one, or gives another result than on a circuit made of fresh objects.  After an
    out-of-place operation produced store[k], replay each in-place probe on a deep copy of the whole store (deepcopy
    keeps the sharing structure): every other circuit must stay as it was, and the probed circuit must equal the
    same probe applied to a reconstruction from fresh Gate objects."""
    import copy
    out = []
    for k in new_idx:
        for probe in PROBES:
            st = copy.deepcopy(store)
            try:
                ref = _fresh(st[k])
            except Exception:
                continue
            snaps = [snapshot(c) for c in st]
            try:
                _apply_probe(ref, probe)
                ref_snap = snapshot(ref)
                ref_err = None
            except Exception as e:
                ref_snap, ref_err = None, type(e).__name__
            try:
                _apply_probe(st[k], probe)
                got, err = snapshot(st[k]), None
            except Exception as e:
                got, err = None, type(e).__name__
            others = [i for i in range(len(st)) if i != k and snapshot(st[i]) != snaps[i]]
            if others:
                out.append(("C11/%s/then-%s/other-circuit-changed" % (kind, probe),
                            "after %s produced circuit %d, the in-place %s on it changed circuit(s) %s: %s -> %s" % (
                                kind, k, probe, others, snaps[others[0]], snapshot(st[others[0]]))))
            elif (err, got) != (ref_err, ref_snap):
                out.append(("C11/%s/then-%s/result-depends-on-object-sharing" % (kind, probe),
                            "after %s produced circuit %d (%s), the in-place %s gives %s but %s on the same circuit built from fresh gates" % (
                                kind, k, snaps[k], probe, got or err, ref_snap or ref_err)))
    return out


def run_history_impl(ops, want_model_ops=True):
    """Run on the real classes.  Returns (per-step strings, model op terms, evaluable, oracle findings)."""
    from tangelo.linq import Circuit, Gate
    from tangelo.linq import circuit as cmod
    from tangelo.linq import translate_circuit, get_backend
    store = []
    steps, mops, findings = [], [], []
    evaluable = True
    for op in ops:
        kind = op[0]
        # indices refer to the store as it is now (earlier operations may have failed)
        if kind != "new" and store:
            op = list(op)
            if kind == "stack":
                op[1] = [i % len(store) for i in op[1]]
            else:
                op[1] = op[1] % len(store)
                if kind == "concat":
                    op[2] = op[2] % len(store)
            op = tuple(op)
        before = [snapshot(c) for c in store]
        mop = None
        readonly_operands = []
        try:
            if kind == "new":
                mop = "(ONew %s %s)" % (coq_list([LC.coq_gate(s) for s in op[1]]), coq_opt(None if op[2] is None else coq_Z(op[2])))
                store.append(Circuit([LC.make_gate(s) for s in op[1]], n_qubits=op[2]))
            elif kind == "add_gate":
                mop = "(OAddGate %s %s)" % (coq_nat(op[1]), LC.coq_gate(op[2]))
                store[op[1]].add_gate(LC.make_gate(op[2]))
            elif kind == "concat":
                mop = "(OConcat %s %s)" % (coq_nat(op[1]), coq_nat(op[2]))
                readonly_operands = [op[1], op[2]]
                store.append(store[op[1]] + store[op[2]])
            elif kind == "repeat":
                mop = "(ORepeat %s %s)" % (coq_nat(op[1]), coq_Z(op[2]))
                readonly_operands = [op[1]]
                store.append(store[op[1]] * op[2])
            elif kind == "copy":
                mop = "(OCopy %s)" % coq_nat(op[1])
                readonly_operands = [op[1]]
                store.append(store[op[1]].copy())
            elif kind == "inverse":
                mop = "(OInverse %s)" % coq_nat(op[1])
                readonly_operands = [op[1]]
                store.append(store[op[1]].inverse())
            elif kind == "trim":
                mop = "(OTrim %s)" % coq_nat(op[1])
                store[op[1]].trim_qubits()
            elif kind == "reindex":
                c = store[op[1]]
                idx = sorted(c._qubit_indices)
                # a permutation of the current index set (the documented use); derived deterministically
                perm = idx[1:] + idx[:1] if len(idx) > 1 else idx
                mop = "(OReindex %s %s)" % (coq_nat(op[1]), coq_list([coq_Z(x) for x in perm]))
                c.reindex_qubits(perm)
            elif kind == "split":
                mop = "(OSplit %s %s)" % (coq_nat(op[1]), coq_bool(op[2]))
                readonly_operands = [op[1]]
                store.extend(store[op[1]].split(trim_qubits=op[2]))
            elif kind == "stack":
                mop = "(OStack %s)" % coq_list([coq_nat(i) for i in op[1]])
                readonly_operands = list(op[1])
                store.append(cmod.stack(*[store[i] for i in op[1]]))
            elif kind in ("small_fn", "redundant_fn"):
                f = cmod.remove_small_rotations if kind == "small_fn" else cmod.remove_redundant_gates
                mop = "(%s %s %s)" % ("OSmallFn" if kind == "small_fn" else "ORedundantFn", coq_nat(op[1]), coq_bool(op[2]))
                readonly_operands = [op[1]]
                store.append(f(store[op[1]], remove_qubits=op[2]))
            elif kind in ("small_m", "redundant_m"):
                mop = "(%s %s %s)" % ("OSmallM" if kind == "small_m" else "ORedundantM", coq_nat(op[1]), coq_bool(op[2]))
                if kind == "small_m":
                    store[op[1]].remove_small_rotations(remove_qubits=op[2])
                else:
                    store[op[1]].remove_redundant_gates(remove_qubits=op[2])
            elif kind == "merge_fn":
                mop = "(OMergeFn %s)" % coq_nat(op[1])
                readonly_operands = [op[1]]
                store.append(cmod.merge_rotations(store[op[1]]))
            elif kind == "merge_m":
                mop = "(OMergeM %s)" % coq_nat(op[1])
                store[op[1]].merge_rotations()
            elif kind == "simplify_fn":
                mop = "(OSimplifyFn %s %s %s)" % (coq_nat(op[1]), coq_nat(op[2]), coq_bool(op[3]))
                readonly_operands = [op[1]]
                store.append(cmod.simplify(store[op[1]], max_cycles=op[2], remove_qubits=op[3]))
            elif kind == "simplify_m":
                mop = "(OSimplifyM %s %s %s)" % (coq_nat(op[1]), coq_nat(op[2]), coq_bool(op[3]))
                store[op[1]].simplify(max_cycles=op[2], remove_qubits=op[3])
            elif kind == "read":
                mop = "(ORead %s)" % coq_nat(op[1])
                readonly_operands = [op[1]]
                c = store[op[1]]
                try:
                    if op[2] == "depth":
                        c.depth()
                    elif op[2] == "iterate":
                        _ = [g for g in c]
                        _ = str(c)
                    elif op[2] == "cirq":
                        translate_circuit(c, "cirq")
                    elif op[2] == "simulate":
                        if 0 < c.width <= 6:
                            get_backend("cirq").simulate(c)
                    elif op[2] == "sympy":
                        if 0 < c.width <= 3 and c.size <= 6:
                            translate_circuit(c, "sympy")
                    else:
                        # every other export format: whether or not its package is installed, asking
                        # for the translation must leave the circuit as it was
                        translate_circuit(c, op[2])
                except Exception:
                    pass        # a read may legitimately refuse (e.g. mixed state without shots); only its effect on the circuit matters
            out = "Ok"
            if len(store) > len(before):
                # ---- oracle 3: the new circuit(s) share nothing observable with the rest of the store
                findings.extend(alias_probe(store, list(range(len(before), len(store))), kind))
        except Exception as e:
            out = "Err:" + type(e).__name__
        strs = []
        for c in store:
            s, ok = LC.show_circ_impl(c)
            evaluable = evaluable and ok
            strs.append(s)
        steps.append(out + " " + " ; ".join(strs))
        mops.append(mop)
        # ---- oracle 1: operands of out-of-place / read-only operations are unchanged
        for i in readonly_operands:
            if i < len(before) and i < len(store) and snapshot(store[i]) != before[i]:
                sub = op[2] if kind == "read" else kind
                findings.append(("C11/%s/operand-mutated" % sub,
                                 "operand of read-only operation %s changed: %s -> %s" % (sub, before[i], snapshot(store[i]))))
        # ---- oracle 2: reported metadata equals the recount, for every circuit alive
        for ci, c in enumerate(store):
            if ci < len(before) and before[ci] == strs[ci]:
                continue
            pr = recount_oracle(c)
            if pr:
                findings.append(("C11/%s/%s/metadata-inconsistent" % (kind, out.split(":")[0].lower()),
                                 "after %s (%s): %s differ from recount; circuit %s" % (kind, out, ",".join(pr), snapshot(c))))
    return steps, mops, evaluable, findings


# ------------------------------------------------------------------------------------------ malformed gates
def gen_malformed(rng):
    import numpy as np
    pool_bad = [-1, -3, 1.0, 2.5, True, np.int64(1), "0", None]

    def idx(allow_bad):
        if allow_bad and rng.random() < 0.25:
            return rng.choice(pool_bad)
        return rng.randint(0, 4)
    name = rng.choice(GATE_NAMES + ["FOO", "CFOO"])
    nt = rng.choice([1, 1, 1, 2, 2, 3, 0])
    target = [idx(True) for _ in range(nt)]
    control = None
    if rng.random() < 0.6:
        control = [idx(True) for _ in range(rng.choice([1, 1, 2, 2, 3, 0]))]
    # designated duplicate patterns: inside the targets, inside the controls only, across both
    r = rng.random()
    if r < 0.12 and nt >= 2:
        target[1] = target[0]
    elif r < 0.30 and control and len(control) >= 2:
        i, j = rng.sample(range(len(control)), 2)
        control[j] = control[i]
    elif r < 0.42 and control and target:
        control[rng.randrange(len(control))] = target[rng.randrange(len(target))]
    return name, target, control


def coq_pyidx(x):
    if type(x) is int and not isinstance(x, bool):
        return "(IInt %s)" % coq_Z(x)
    return "IBad"


def run_malformed(ck, n):
    from tangelo.linq import Gate
    exprs, impl, cases = [], [], []
    for _ in range(n):
        name, target, control = gen_malformed(ck.rng)
        if any(x is None for x in target) or (control and any(x is None for x in control)):
            # None < 0 raises TypeError inside the check; modelled as rejected (IBad) below
            pass
        try:
            g = Gate(name, list(target), None if control is None else list(control))
            out = "Ok " + LC.show_gate_impl(g)[0]
        except (ValueError, TypeError) as e:
            out = "Err:ValueError" if isinstance(e, ValueError) else "Err:TypeError"
        except Exception as e:
            out = "Err:" + type(e).__name__
        impl.append(out)
        cases.append((name, [repr(x) for x in target], None if control is None else [repr(x) for x in control]))
        exprs.append("match mk_gate gtables %s %s %s (@PNone Z) false with Ok g => \"Ok \" ++ show_gate g "
                     "| Err e => \"Err:\" ++ show_err e end" % (
                         coq_str(name), coq_list([coq_pyidx(x) for x in target]),
                         coq_opt(None if control is None else coq_list([coq_pyidx(x) for x in control]))))
    model = ck.coq_eval("malformed", PREAMBLE, exprs)
    st = ck.stream("malformed-gates", "Gate(name,target,control) with negative / float / bool / numpy / str / "
                   "duplicate indices, wrong arity, controls on non-C names; non-trivial = rejected or has controls")
    for case, a, b in zip(cases, impl, model):
        # None index: the implementation raises TypeError ('<' not supported); the model says ValueError.
        # Both are rejections; compare the accept/reject decision and the accepted gate.
        a_c = a if a.startswith("Ok") else "Err"
        b_c = b if b.startswith("Ok") else "Err"
        ck.case("malformed-gates", json.dumps(case), nontrivial=(not a.startswith("Ok")) or case[2] is not None,
                sample={"gate": case, "impl": a, "model": b},
                tags=["accepted" if a.startswith("Ok") else a])
        if a_c != b_c:
            ck.violation("C11/Gate.__init__/validation-differs",
                         "Gate%s: implementation %s, model %s" % (case, a, b),
                         {"kind": "malformed", "case": case, "impl": a, "model": b},
                         found_input=not a.startswith("Err") and b.startswith("Err"))


# ------------------------------------------------------------------------------------------ main
def check_inventory(ck):
    from translator.common import parse, writer_sites, TranslateError
    files = ["tangelo/linq/circuit.py", "tangelo/linq/gate.py",
             "tangelo/linq/translator/translate_cirq.py", "tangelo/linq/translator/translate_sympy.py"]
    expected = json.loads((VERIF / "translator/expected/writer_sites.json").read_text())
    for f in files:
        try:
            got = writer_sites(parse(REPO / f))
        except TranslateError as e:
            ck.violation("C11/inventory/%s" % f, "cannot parse: %s" % e, {"kind": "inventory", "file": f}, found_input=False)
            continue
        new = sorted(set(got) - set(expected.get(f, [])))
        ck.notes.setdefault("writer_sites", {})[f] = {"sites": len(got), "new": new}
        if new:
            # a new write through a parameter: not by itself a violation — the operand-snapshot oracle
            # decides; remember it so that a silent one is still reported
            ck.notes.setdefault("new_writer_sites", []).extend("%s: %s" % (f, s) for s in new)


def run(ck):
    from translator import gate_tables
    from translator.common import TranslateError
    ck.trusted = ["Coq 8.16.1 kernel (coqc), vm_compute", "translator/gate_tables.py, translator/common.py (ast pattern match)",
                  "harness/props/C11.py + harness/linq_common.py (generators, canonical printers)",
                  "model of circuit.py/gate.py in coq/theories/Linq/{GateModel,CircuitModel,History}.v tied by correspondence"]
    ck.assumptions = ["Python object model: circuits never share Gate objects (checked by operand snapshots)",
                      "angles restricted to the pi/8 grid; float-boundary cases (|theta| % 2pi within 1e-9 below 2pi) are not evaluated"]
    try:
        t = gate_tables.extract(REPO)
        ck.write_gen("GateTables", gate_tables.emit(t))
        tables_ok = True
    except TranslateError as e:
        # the tie to the source is broken: report it, then go on searching the implementation for a
        # concrete failing input with the oracles alone (no model evaluation without the tables)
        ck.violation("C11/translator/gate_tables", "translator no longer recognises the source: %s" % e,
                     {"kind": "translator", "error": str(e)}, found_input=False)
        tables_ok = False
    if tables_ok:
        res = ck.prove()
        if not res.ok:
            ck.proof_violation(res)
    check_inventory(ck)

    tangelo_ok = True
    try:
        import tangelo.linq  # noqa
    except Exception as e:
        ck.violation("C11/import", "tangelo.linq cannot be imported: %r" % e, {"kind": "import"}, found_input=False)
        tangelo_ok = False
    if not tangelo_ok:
        return

    # ---- corpus first, then random histories
    n_hist = 260 if ck.tier == "quick" else 4000
    hist = []
    corpus = VERIF / "corpus" / "C11"
    if corpus.exists():
        for f in sorted(corpus.glob("*.json")):
            hist.append(json.loads(f.read_text())["ops"])
    for _ in range(n_hist):
        hist.append(gen_history(ck.rng, ck.tier))
    st = ck.stream("histories", "random operation histories (2-7 ops quick, 2-11 thorough) over a store of small "
                   "circuits incl. fixed widths, MEASURE, variational gates, edge angles; non-trivial = contains a "
                   "transformation after >= 2 gates were added; distinct = distinct op sequences")
    impl_runs, exprs, idxs = [], [], []
    for h in hist:
        h = [tuple(o) for o in h]
        steps, mops, evaluable, findings = run_history_impl(h)
        kinds = [o[0] for o in h]
        nontriv = any(k not in ("new", "add_gate", "read") for k in kinds)
        ck.case("histories", json.dumps(h, default=str), nontrivial=nontriv,
                sample={"ops": json.loads(json.dumps(h, default=str)), "last_step": steps[-1][:400]}, tags=kinds)
        for sig, desc in findings:
            ck.violation(sig, desc, {"kind": "history", "ops": json.loads(json.dumps(h, default=str))})
        if not evaluable:
            ck.not_evaluated += 1
            continue
        impl_runs.append((h, " ## ".join(steps)))
        exprs.append("run %s" % coq_list(mops))
    model = ck.coq_eval("hist", PREAMBLE, exprs, shard=40) if tables_ok else []
    for (h, a), b in zip(impl_runs, model):
        if a != b:
            sa, sb = a.split(" ## "), b.split(" ## ")
            k = next((i for i in range(min(len(sa), len(sb))) if sa[i] != sb[i]), min(len(sa), len(sb)))
            kind = h[k][0] if k < len(h) else "?"
            ck.violation("C11/correspondence/%s" % kind,
                         "model and implementation differ at step %d (%s): impl=%s model=%s" % (
                             k, kind, sa[k][:600] if k < len(sa) else None, sb[k][:600] if k < len(sb) else None),
                         {"kind": "history", "ops": json.loads(json.dumps(h, default=str)), "step": k},
                         found_input=False)
    if tables_ok:
        run_malformed(ck, 900 if ck.tier == "quick" else 8000)
    if ck.notes.get("new_writer_sites") and not any(v["found_input"] for v in ck.violations):
        ck.violation("C11/inventory/new-writer-site", "new write through a parameter: %s" % ck.notes["new_writer_sites"],
                     {"kind": "inventory", "sites": ck.notes["new_writer_sites"]}, found_input=False)


def replay(data):
    r = data["replay"]
    if r.get("kind") == "history":
        steps, mops, evaluable, findings = run_history_impl([tuple(o) for o in r["ops"]])
        for s in steps:
            print(s[:1000])
        for sig, desc in findings:
            print("FINDING", sig, desc[:500])
        return 1 if findings else 0
    print(json.dumps(r, indent=1)[:4000])
    return 1
